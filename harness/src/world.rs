//! Naming scheme (addresses/denoms <-> the naturals the Lean model uses), message rendering, and
//! helpers to build worlds out of the real contracts.
use cosmwasm_std::{Addr, BankMsg, Coin, CosmosMsg, SubMsg};

// ------------------------------------------------------------------------------------------------ names

pub const ID_FOUNDATION: u64 = 1;
pub const ID_LAUNCHPAD_DAO: u64 = 2;
pub const ID_LIQUIDITY_DAO: u64 = 3;
pub const ID_FAIRBURN_POOL: u64 = 4;

/// Reads the three fee-recipient address constants out of /repo/packages/sg1/src/lib.rs (they are private
/// consts; the property does not fix their value, only their role).
pub fn sg1_addrs() -> (String, String, String) {
    let repo = std::env::var("VERIF_REPO").unwrap_or_else(|_| "/repo".into());
    let src = std::fs::read_to_string(format!("{repo}/packages/sg1/src/lib.rs")).expect("sg1 source");
    let get = |name: &str| -> String {
        let i = src.find(&format!("const {name}")).unwrap_or_else(|| panic!("sg1: const {name} not found"));
        let rest = &src[i..];
        let q1 = rest.find('"').unwrap();
        let q2 = rest[q1 + 1..].find('"').unwrap();
        rest[q1 + 1..q1 + 1 + q2].to_string()
    };
    (get("FOUNDATION"), get("LAUNCHPAD_DAO_ADDRESS"), get("LIQUIDITY_DAO_ADDRESS"))
}

/// id -> address string. 1..=4 reserved (fee recipients), 1000+k = `contract{k}` (cw-multi-test's naming),
/// anything else `acct{n:05}` (lower-case, fixed length, valid for MockApi::addr_validate).
pub fn addr(id: u64) -> String {
    match id {
        ID_FOUNDATION => sg1_addrs().0,
        ID_LAUNCHPAD_DAO => sg1_addrs().1,
        ID_LIQUIDITY_DAO => sg1_addrs().2,
        ID_FAIRBURN_POOL => "fairburn_pool".to_string(),
        n if n >= 1000 => format!("contract{}", n - 1000),
        n => format!("acct{:05}", n),
    }
}
pub fn addr_id(s: &str) -> u64 {
    let (f, l, q) = sg1_addrs();
    if s == f {
        return ID_FOUNDATION;
    }
    if s == l {
        return ID_LAUNCHPAD_DAO;
    }
    if s == q {
        return ID_LIQUIDITY_DAO;
    }
    if s == "fairburn_pool" {
        return ID_FAIRBURN_POOL;
    }
    if let Some(k) = s.strip_prefix("contract") {
        if let Ok(k) = k.parse::<u64>() {
            return 1000 + k;
        }
    }
    if let Some(k) = s.strip_prefix("acct") {
        if let Ok(k) = k.parse::<u64>() {
            return k;
        }
    }
    // unknown string: stable hash into a disjoint range so it never collides with a generated id
    let mut h: u64 = 1469598103934665603;
    for b in s.bytes() {
        h = (h ^ b as u64).wrapping_mul(1099511628211);
    }
    900_000_000 + (h % 99_999_999)
}
pub fn a(id: u64) -> Addr {
    Addr::unchecked(addr(id))
}

/// denom id -> string: 0 = native `ustars`; n = `denom{n}`
pub fn denom(id: u64) -> String {
    if id == 0 {
        sg_utils::NATIVE_DENOM.to_string()
    } else {
        format!("denom{id}")
    }
}
pub fn denom_id(s: &str) -> u64 {
    if s == sg_utils::NATIVE_DENOM {
        0
    } else if let Some(k) = s.strip_prefix("denom") {
        k.parse().unwrap_or(999_999)
    } else {
        999_999
    }
}
pub fn coin_of(d: u64, amt: u128) -> Coin {
    cosmwasm_std::coin(amt, denom(d))
}
pub fn coins_of(pairs: &[(u128, u128)]) -> Vec<Coin> {
    pairs.iter().map(|(d, a)| coin_of(*d as u64, *a)).collect()
}

// ------------------------------------------------------------------------------------------------ messages

fn render_coins(prefix: &str, coins: &[Coin]) -> String {
    if coins.len() == 1 {
        format!("{prefix}{}:{}", denom_id(&coins[0].denom), coins[0].amount.u128())
    } else {
        // not produced by the contracts; keep it visible instead of hiding it
        format!("{prefix}multi[{}]", coins.iter().map(|c| format!("{}:{}", denom_id(&c.denom), c.amount.u128())).collect::<Vec<_>>().join("+"))
    }
}

/// canonical rendering of one bank/stargate message, matching `LP.Msg.render` in the Lean model
pub fn render_msg(m: &CosmosMsg) -> String {
    match m {
        CosmosMsg::Bank(BankMsg::Burn { amount }) => render_coins("burn:", amount),
        CosmosMsg::Bank(BankMsg::Send { to_address, amount }) => render_coins(&format!("send:{}:", addr_id(to_address)), amount),
        CosmosMsg::Stargate { type_url, value } if type_url == "/publicawesome.stargaze.alloc.v1beta1.MsgFundFairburnPool" => {
            let dec = anybuf::Bufany::deserialize(value.as_slice()).expect("protobuf");
            let sender = dec.string(1).unwrap_or_default();
            let coin_bytes = dec.bytes(2).unwrap_or_default();
            let c = anybuf::Bufany::deserialize(&coin_bytes).expect("coin protobuf");
            let d = c.string(1).unwrap_or_default();
            let amt = c.string(2).unwrap_or_default();
            format!("pool:{}:{}:{}", addr_id(&sender), denom_id(&d), amt)
        }
        other => format!("other:{:?}", other).replace(' ', "_"),
    }
}
pub fn render_msgs(ms: &[SubMsg]) -> String {
    if ms.is_empty() {
        "-".into()
    } else {
        ms.iter().map(|s| render_msg(&s.msg)).collect::<Vec<_>>().join(",")
    }
}
