//! A world of REAL launchpad contracts inside one cw-multi-test `App`: all code stored once, helpers to create
//! factories, minters of all 11 kinds *through their factories*, and whitelists of all 7 kinds, with JSON messages.
//!
//! Everything is addressed by strings (`contractN`, `acctNNNNN`), see `world::addr`.
use crate::boxes::{self, App};
use crate::core::catch;
use crate::world::{addr, denom};
use cosmwasm_std::{coin, to_json_binary, Addr, Coin, Empty, Timestamp, WasmMsg};
use cw_multi_test::{AppResponse, BankSudo, Executor, SudoMsg, WasmSudo};
use serde_json::{json, Value};

pub const GENESIS: u64 = sg_utils::GENESIS_MINT_START_TIME;

#[derive(Clone, Copy, Debug, PartialEq, Eq, PartialOrd, Ord, Hash)]
pub enum MinterKind {
    Vending,
    VendingFeatured,
    VendingFlex,
    VendingFlexFeatured,
    VendingMerkle,
    VendingMerkleFeatured,
    OpenEdition,
    OpenEditionFlex,
    OpenEditionMerkle,
    TokenMerge,
    Base,
}
pub const ALL_MINTERS: [MinterKind; 11] = [
    MinterKind::Vending,
    MinterKind::VendingFeatured,
    MinterKind::VendingFlex,
    MinterKind::VendingFlexFeatured,
    MinterKind::VendingMerkle,
    MinterKind::VendingMerkleFeatured,
    MinterKind::OpenEdition,
    MinterKind::OpenEditionFlex,
    MinterKind::OpenEditionMerkle,
    MinterKind::TokenMerge,
    MinterKind::Base,
];
pub const VENDING_KINDS: [MinterKind; 6] = [
    MinterKind::Vending,
    MinterKind::VendingFeatured,
    MinterKind::VendingFlex,
    MinterKind::VendingFlexFeatured,
    MinterKind::VendingMerkle,
    MinterKind::VendingMerkleFeatured,
];
pub const OE_KINDS: [MinterKind; 3] = [MinterKind::OpenEdition, MinterKind::OpenEditionFlex, MinterKind::OpenEditionMerkle];

#[derive(Clone, Copy, Debug, PartialEq, Eq)]
pub enum FactoryKind {
    Vending,
    OpenEdition,
    TokenMerge,
    Base,
}

impl MinterKind {
    pub fn idx(self) -> usize {
        ALL_MINTERS.iter().position(|k| *k == self).unwrap()
    }
    pub fn from_idx(i: usize) -> MinterKind {
        ALL_MINTERS[i]
    }
    pub fn name(self) -> &'static str {
        match self {
            MinterKind::Vending => "vending-minter",
            MinterKind::VendingFeatured => "vending-minter-featured",
            MinterKind::VendingFlex => "vending-minter-wl-flex",
            MinterKind::VendingFlexFeatured => "vending-minter-wl-flex-featured",
            MinterKind::VendingMerkle => "vending-minter-merkle-wl",
            MinterKind::VendingMerkleFeatured => "vending-minter-merkle-wl-featured",
            MinterKind::OpenEdition => "open-edition-minter",
            MinterKind::OpenEditionFlex => "open-edition-minter-wl-flex",
            MinterKind::OpenEditionMerkle => "open-edition-minter-merkle-wl",
            MinterKind::TokenMerge => "token-merge-minter",
            MinterKind::Base => "base-minter",
        }
    }
    pub fn factory(self) -> FactoryKind {
        match self {
            MinterKind::OpenEdition | MinterKind::OpenEditionFlex | MinterKind::OpenEditionMerkle => FactoryKind::OpenEdition,
            MinterKind::TokenMerge => FactoryKind::TokenMerge,
            MinterKind::Base => FactoryKind::Base,
            _ => FactoryKind::Vending,
        }
    }
    pub fn is_vending(self) -> bool {
        self.factory() == FactoryKind::Vending
    }
    pub fn is_open_edition(self) -> bool {
        self.factory() == FactoryKind::OpenEdition
    }
    pub fn is_featured(self) -> bool {
        matches!(self, MinterKind::VendingFeatured | MinterKind::VendingFlexFeatured | MinterKind::VendingMerkleFeatured)
    }
    pub fn is_flex(self) -> bool {
        matches!(self, MinterKind::VendingFlex | MinterKind::VendingFlexFeatured | MinterKind::OpenEditionFlex)
    }
    pub fn is_merkle(self) -> bool {
        matches!(self, MinterKind::VendingMerkle | MinterKind::VendingMerkleFeatured | MinterKind::OpenEditionMerkle)
    }
}

#[derive(Clone, Copy, Debug, PartialEq, Eq, PartialOrd, Ord)]
pub enum WlKind {
    Plain,
    Flex,
    Tiered,
    TieredFlex,
    Merkle,
    TieredMerkle,
    Immutable,
}
pub const ALL_WL: [WlKind; 7] = [WlKind::Plain, WlKind::Flex, WlKind::Tiered, WlKind::TieredFlex, WlKind::Merkle, WlKind::TieredMerkle, WlKind::Immutable];

#[derive(Clone, Copy, Debug, PartialEq, Eq)]
pub enum CollKind {
    Base,
    Updatable,
    Nt,
    MetadataOnchain,
}

#[derive(Clone, Debug)]
pub struct Codes {
    pub minters: Vec<u64>, // by MinterKind::idx
    pub vending_factory: u64,
    pub open_edition_factory: u64,
    pub token_merge_factory: u64,
    pub base_factory: u64,
    pub sg721_base: u64,
    pub sg721_updatable: u64,
    pub sg721_nt: u64,
    pub sg721_metadata_onchain: u64,
    pub wl: Vec<u64>, // by ALL_WL order
    pub splits: u64,
    pub cw4_group: u64,
    pub eth_airdrop: u64,
}

/// Governance parameters of a factory (superset over the four factories; unused fields are ignored per kind).
#[derive(Clone, Debug)]
pub struct FactoryParams {
    pub code_id: u64,
    pub allowed_sg721_code_ids: Vec<u64>,
    pub frozen: bool,
    pub creation_fee: (u64, u128),   // (denom id, amount)
    pub min_mint_price: (u64, u128), // not in token-merge
    pub mint_fee_bps: u64,           // not in token-merge
    pub max_trading_offset_secs: u64,
    pub max_token_limit: u32,
    pub max_per_address_limit: u32,
    pub airdrop_mint_price: (u64, u128),
    pub airdrop_mint_fee_bps: u64,
    pub shuffle_fee: (u64, u128),
    pub dev_fee_address: u64, // open edition
}

pub fn jcoin(c: (u64, u128)) -> Value {
    json!({"denom": denom(c.0), "amount": c.1.to_string()})
}
pub fn jtime(nanos: u64) -> Value {
    Value::String(nanos.to_string())
}
pub fn jopt_time(t: Option<u64>) -> Value {
    match t {
        Some(n) => jtime(n),
        None => Value::Null,
    }
}

impl FactoryParams {
    pub fn to_json(&self, kind: FactoryKind) -> Value {
        match kind {
            FactoryKind::Vending => json!({
                "code_id": self.code_id, "allowed_sg721_code_ids": self.allowed_sg721_code_ids, "frozen": self.frozen,
                "creation_fee": jcoin(self.creation_fee), "min_mint_price": jcoin(self.min_mint_price),
                "mint_fee_bps": self.mint_fee_bps, "max_trading_offset_secs": self.max_trading_offset_secs,
                "extension": {"max_token_limit": self.max_token_limit, "max_per_address_limit": self.max_per_address_limit,
                    "airdrop_mint_price": jcoin(self.airdrop_mint_price), "airdrop_mint_fee_bps": self.airdrop_mint_fee_bps,
                    "shuffle_fee": jcoin(self.shuffle_fee)}}),
            FactoryKind::OpenEdition => json!({
                "code_id": self.code_id, "allowed_sg721_code_ids": self.allowed_sg721_code_ids, "frozen": self.frozen,
                "creation_fee": jcoin(self.creation_fee), "min_mint_price": jcoin(self.min_mint_price),
                "mint_fee_bps": self.mint_fee_bps, "max_trading_offset_secs": self.max_trading_offset_secs,
                "extension": {"max_token_limit": self.max_token_limit, "max_per_address_limit": self.max_per_address_limit,
                    "airdrop_mint_price": jcoin(self.airdrop_mint_price), "airdrop_mint_fee_bps": self.airdrop_mint_fee_bps,
                    "dev_fee_address": addr(self.dev_fee_address)}}),
            FactoryKind::TokenMerge => json!({
                "code_id": self.code_id, "allowed_sg721_code_ids": self.allowed_sg721_code_ids, "frozen": self.frozen,
                "creation_fee": jcoin(self.creation_fee), "max_trading_offset_secs": self.max_trading_offset_secs,
                "max_token_limit": self.max_token_limit, "max_per_address_limit": self.max_per_address_limit,
                "airdrop_mint_price": jcoin(self.airdrop_mint_price), "airdrop_mint_fee_bps": self.airdrop_mint_fee_bps,
                "shuffle_fee": jcoin(self.shuffle_fee)}),
            FactoryKind::Base => json!({
                "code_id": self.code_id, "allowed_sg721_code_ids": self.allowed_sg721_code_ids, "frozen": self.frozen,
                "creation_fee": jcoin(self.creation_fee), "min_mint_price": jcoin(self.min_mint_price),
                "mint_fee_bps": self.mint_fee_bps, "max_trading_offset_secs": self.max_trading_offset_secs,
                "extension": null}),
        }
    }
}

/// Arguments of a CreateMinter (superset over the families).
#[derive(Clone, Debug)]
pub struct CreateArgs {
    pub creator: u64,
    pub sg721_code_id: u64,
    pub num_tokens: Option<u32>, // vending / token-merge: required; open edition: optional cap
    pub per_address_limit: u32,
    pub start_time: u64,
    pub end_time: Option<u64>, // open edition
    pub mint_price: (u64, u128),
    pub payment_address: Option<u64>,
    pub whitelist: Option<String>,
    pub start_trading_time: Option<u64>,
    pub royalty: Option<(u64, String)>, // (payment address id, share as decimal string e.g. "0.05")
    pub mint_tokens: Vec<(String, u32)>, // token-merge: (collection addr, amount)
    pub funds: Vec<(u64, u128)>,        // attached creation fee
}

pub fn collection_params_json(a: &CreateArgs) -> Value {
    json!({
        "code_id": a.sg721_code_id, "name": "Collection", "symbol": "COL",
        "info": {
            "creator": addr(a.creator), "description": "a collection", "image": "https://example.com/image.png",
            "external_link": "https://example.com/external.html", "explicit_content": false,
            "start_trading_time": jopt_time(a.start_trading_time),
            "royalty_info": match &a.royalty { Some((p, s)) => json!({"payment_address": addr(*p), "share": s}), None => Value::Null },
        }
    })
}

pub fn create_minter_json(kind: MinterKind, a: &CreateArgs) -> Value {
    let cp = collection_params_json(a);
    let init = match kind.factory() {
        FactoryKind::Vending => json!({
            "base_token_uri": "ipfs://bafybeigi3bwpvyvsmnbj46ra4hyffcxdeaj6ntfk5jpic5mx27x6ih2qvq/images",
            "payment_address": a.payment_address.map(addr), "start_time": jtime(a.start_time),
            "num_tokens": a.num_tokens.unwrap_or(0), "mint_price": jcoin(a.mint_price),
            "per_address_limit": a.per_address_limit, "whitelist": a.whitelist}),
        FactoryKind::OpenEdition => json!({
            "nft_data": {"nft_data_type": "off_chain_metadata", "extension": null,
                         "token_uri": "ipfs://bafybeigi3bwpvyvsmnbj46ra4hyffcxdeaj6ntfk5jpic5mx27x6ih2qvq/1.json"},
            "start_time": jtime(a.start_time), "end_time": jopt_time(a.end_time), "mint_price": jcoin(a.mint_price),
            "per_address_limit": a.per_address_limit, "num_tokens": a.num_tokens,
            "payment_address": a.payment_address.map(addr), "whitelist": a.whitelist}),
        FactoryKind::TokenMerge => json!({
            "base_token_uri": "ipfs://bafybeigi3bwpvyvsmnbj46ra4hyffcxdeaj6ntfk5jpic5mx27x6ih2qvq/images",
            "start_time": jtime(a.start_time), "num_tokens": a.num_tokens.unwrap_or(0),
            "mint_tokens": a.mint_tokens.iter().map(|(c, n)| json!({"collection": c, "amount": n})).collect::<Vec<_>>(),
            "per_address_limit": a.per_address_limit}),
        FactoryKind::Base => Value::Null,
    };
    json!({"create_minter": {"init_msg": init, "collection_params": cp}})
}

/// Arguments for a whitelist (superset). Times in nanos. For tiered kinds `stages` is used, otherwise the scalar fields.
#[derive(Clone, Debug)]
pub struct WlStage {
    pub start: u64,
    pub end: u64,
    pub mint_price: (u64, u128),
    pub per_address_limit: u32,
    pub mint_count_limit: Option<u32>,
    /// plain/tiered: addresses (mint_count ignored); flex kinds: (address, mint_count)
    pub members: Vec<(u64, u32)>,
    /// merkle kinds: hex root for this stage
    pub merkle_root: String,
}
#[derive(Clone, Debug)]
pub struct WlArgs {
    pub admin: u64,
    pub member_limit: u32,
    pub admins_mutable: bool,
    pub whale_cap: Option<u32>,
    pub stages: Vec<WlStage>, // exactly one for non-tiered kinds
}

pub fn wl_instantiate_json(kind: WlKind, a: &WlArgs) -> Value {
    let s0 = &a.stages[0];
    let admins = vec![addr(a.admin)];
    let plain_members = |s: &WlStage| s.members.iter().map(|(m, _)| Value::String(addr(*m))).collect::<Vec<_>>();
    let flex_members = |s: &WlStage| s.members.iter().map(|(m, c)| json!({"address": addr(*m), "mint_count": c})).collect::<Vec<_>>();
    let stage_json = |s: &WlStage, i: usize, with_limit: bool| {
        let mut v = json!({"name": format!("stage{}", i + 1), "start_time": jtime(s.start), "end_time": jtime(s.end),
            "mint_price": jcoin(s.mint_price), "mint_count_limit": s.mint_count_limit});
        if with_limit {
            v["per_address_limit"] = json!(s.per_address_limit);
        }
        v
    };
    match kind {
        WlKind::Plain => json!({"members": plain_members(s0), "start_time": jtime(s0.start), "end_time": jtime(s0.end),
            "mint_price": jcoin(s0.mint_price), "per_address_limit": s0.per_address_limit, "member_limit": a.member_limit,
            "admins": admins, "admins_mutable": a.admins_mutable}),
        WlKind::Flex => json!({"members": flex_members(s0), "start_time": jtime(s0.start), "end_time": jtime(s0.end),
            "mint_price": jcoin(s0.mint_price), "member_limit": a.member_limit, "admins": admins,
            "admins_mutable": a.admins_mutable, "whale_cap": a.whale_cap}),
        WlKind::Tiered => json!({"members": a.stages.iter().map(|s| Value::Array(plain_members(s))).collect::<Vec<_>>(),
            "stages": a.stages.iter().enumerate().map(|(i, s)| stage_json(s, i, true)).collect::<Vec<_>>(),
            "member_limit": a.member_limit, "admins": admins, "admins_mutable": a.admins_mutable}),
        WlKind::TieredFlex => json!({"members": a.stages.iter().map(|s| Value::Array(flex_members(s))).collect::<Vec<_>>(),
            "stages": a.stages.iter().enumerate().map(|(i, s)| stage_json(s, i, false)).collect::<Vec<_>>(),
            "member_limit": a.member_limit, "admins": admins, "admins_mutable": a.admins_mutable, "whale_cap": a.whale_cap}),
        WlKind::Merkle => json!({"merkle_root": s0.merkle_root, "merkle_tree_uri": null, "start_time": jtime(s0.start),
            "end_time": jtime(s0.end), "mint_price": jcoin(s0.mint_price), "per_address_limit": s0.per_address_limit,
            "admins": admins, "admins_mutable": a.admins_mutable}),
        WlKind::TieredMerkle => json!({"stages": a.stages.iter().enumerate().map(|(i, s)| stage_json(s, i, true)).collect::<Vec<_>>(),
            "merkle_roots": a.stages.iter().map(|s| s.merkle_root.clone()).collect::<Vec<_>>(), "merkle_tree_uris": null,
            "admins": admins, "admins_mutable": a.admins_mutable}),
        WlKind::Immutable => json!({"addresses": s0.members.iter().map(|(m, _)| addr(*m)).collect::<Vec<_>>(),
            "per_address_limit": s0.per_address_limit, "mint_discount_bps": null}),
    }
}

pub struct World {
    pub app: App,
    pub codes: Codes,
}

impl World {
    /// fresh app, all code stored, block time = `now` nanos
    pub fn new(now: u64) -> World {
        let mut app = boxes::custom_mock_app();
        let minters = vec![
            app.store_code(boxes::vending_minter()),
            app.store_code(boxes::vending_minter_featured()),
            app.store_code(boxes::vending_minter_wl_flex()),
            app.store_code(boxes::vending_minter_wl_flex_featured()),
            app.store_code(boxes::vending_minter_merkle_wl()),
            app.store_code(boxes::vending_minter_merkle_wl_featured()),
            app.store_code(boxes::open_edition_minter()),
            app.store_code(boxes::open_edition_minter_wl_flex()),
            app.store_code(boxes::open_edition_minter_merkle_wl()),
            app.store_code(boxes::token_merge_minter()),
            app.store_code(boxes::base_minter()),
        ];
        let codes = Codes {
            minters,
            vending_factory: app.store_code(boxes::vending_factory()),
            open_edition_factory: app.store_code(boxes::open_edition_factory()),
            token_merge_factory: app.store_code(boxes::token_merge_factory()),
            base_factory: app.store_code(boxes::base_factory()),
            sg721_base: app.store_code(boxes::sg721_base()),
            sg721_updatable: app.store_code(boxes::sg721_updatable()),
            sg721_nt: app.store_code(boxes::sg721_nt()),
            sg721_metadata_onchain: app.store_code(boxes::sg721_metadata_onchain()),
            wl: vec![
                app.store_code(boxes::whitelist()),
                app.store_code(boxes::whitelist_flex()),
                app.store_code(boxes::tiered_whitelist()),
                app.store_code(boxes::tiered_whitelist_flex()),
                app.store_code(boxes::whitelist_mtree()),
                app.store_code(boxes::tiered_whitelist_mtree()),
                app.store_code(boxes::whitelist_immutable()),
            ],
            splits: app.store_code(boxes::splits()),
            cw4_group: app.store_code(boxes::cw4_group()),
            eth_airdrop: app.store_code(boxes::eth_airdrop()),
        };
        let mut w = World { app, codes };
        w.set_time(now);
        w
    }
    pub fn time(&self) -> u64 {
        self.app.block_info().time.nanos()
    }
    pub fn set_time(&mut self, nanos: u64) {
        let mut b = self.app.block_info();
        b.time = Timestamp::from_nanos(nanos);
        b.height += 1;
        self.app.set_block(b);
    }
    pub fn coll_code(&self, k: CollKind) -> u64 {
        match k {
            CollKind::Base => self.codes.sg721_base,
            CollKind::Updatable => self.codes.sg721_updatable,
            CollKind::Nt => self.codes.sg721_nt,
            CollKind::MetadataOnchain => self.codes.sg721_metadata_onchain,
        }
    }
    pub fn wl_code(&self, k: WlKind) -> u64 {
        self.codes.wl[ALL_WL.iter().position(|x| *x == k).unwrap()]
    }
    /// mint coins out of thin air to an account (test setup only)
    pub fn fund(&mut self, who: &str, d: u64, amount: u128) {
        if amount == 0 {
            return;
        }
        self.app
            .sudo(SudoMsg::Bank(BankSudo::Mint { to_address: who.to_string(), amount: vec![coin(amount, denom(d))] }))
            .expect("bank mint");
    }
    pub fn balance(&self, who: &str, d: u64) -> u128 {
        self.app.wrap().query_balance(who, denom(d)).map(|c| c.amount.u128()).unwrap_or(0)
    }
    /// every non-zero (account, denom) balance held by the bank module (cw-multi-test 1.2 has no supply query)
    pub fn all_balances(&self) -> std::collections::BTreeMap<(String, String), u128> {
        self.app.read_module(|_r, _a, st| {
            let mut pre: Vec<u8> = vec![0, 4];
            pre.extend_from_slice(b"bank");
            pre.extend_from_slice(&[0, 8]);
            pre.extend_from_slice(b"balances");
            let mut end = pre.clone();
            *end.last_mut().unwrap() += 1;
            let mut out = std::collections::BTreeMap::new();
            for (k, v) in st.range(Some(&pre), Some(&end), cosmwasm_std::Order::Ascending) {
                let who = String::from_utf8_lossy(&k[pre.len()..]).to_string();
                let coins: Vec<Coin> = serde_json::from_slice(&v).unwrap_or_default();
                for c in coins {
                    if !c.amount.is_zero() {
                        out.insert((who.clone(), c.denom.clone()), c.amount.u128());
                    }
                }
            }
            out
        })
    }
    /// total of a denom over all accounts (= supply: burns remove coins from the table)
    pub fn supply(&self, d: u64) -> u128 {
        let dn = denom(d);
        self.all_balances().iter().filter(|((_, dd), _)| *dd == dn).map(|(_, a)| *a).sum()
    }
    pub fn coins(funds: &[(u64, u128)]) -> Vec<Coin> {
        funds.iter().map(|(d, a)| coin(*a, denom(*d))).collect()
    }

    pub fn instantiate(&mut self, code_id: u64, sender: &str, msg: &Value, funds: &[(u64, u128)], admin: Option<&str>) -> Result<String, String> {
        let coins = Self::coins(funds);
        let app = &mut self.app;
        match catch(|| app.instantiate_contract(code_id, Addr::unchecked(sender), msg, &coins, "lbl", admin.map(|s| s.to_string()))) {
            Ok(Ok(a)) => Ok(a.to_string()),
            Ok(Err(e)) => Err(format!("{:#}", e)),
            Err(p) => Err(format!("panic: {p}")),
        }
    }
    pub fn exec(&mut self, sender: &str, contract: &str, msg: &Value, funds: &[(u64, u128)]) -> Result<AppResponse, String> {
        let coins = Self::coins(funds);
        let app = &mut self.app;
        let m = WasmMsg::Execute { contract_addr: contract.to_string(), msg: to_json_binary(msg).unwrap(), funds: coins };
        match catch(|| app.execute(Addr::unchecked(sender), m.into())) {
            Ok(Ok(r)) => Ok(r),
            Ok(Err(e)) => Err(format!("{:#}", e)),
            Err(p) => Err(format!("panic: {p}")),
        }
    }
    pub fn sudo(&mut self, contract: &str, msg: &Value) -> Result<AppResponse, String> {
        let app = &mut self.app;
        let m = SudoMsg::Wasm(WasmSudo { contract_addr: Addr::unchecked(contract), message: to_json_binary(msg).unwrap() });
        match catch(|| app.sudo(m)) {
            Ok(Ok(r)) => Ok(r),
            Ok(Err(e)) => Err(format!("{:#}", e)),
            Err(p) => Err(format!("panic: {p}")),
        }
    }
    pub fn migrate(&mut self, sender: &str, contract: &str, new_code_id: u64, msg: &Value) -> Result<AppResponse, String> {
        let app = &mut self.app;
        match catch(|| app.migrate_contract(Addr::unchecked(sender), Addr::unchecked(contract), msg, new_code_id)) {
            Ok(Ok(r)) => Ok(r),
            Ok(Err(e)) => Err(format!("{:#}", e)),
            Err(p) => Err(format!("panic: {p}")),
        }
    }
    pub fn query(&self, contract: &str, msg: &Value) -> Result<Value, String> {
        let app = &self.app;
        match catch(|| app.wrap().query_wasm_smart::<Value>(contract, msg)) {
            Ok(Ok(v)) => Ok(v),
            Ok(Err(e)) => Err(format!("{e}")),
            Err(p) => Err(format!("panic: {p}")),
        }
    }
    /// raw storage of a contract as sorted (key, value) pairs
    pub fn dump(&self, contract: &str) -> Vec<(Vec<u8>, Vec<u8>)> {
        let mut v = self.app.dump_wasm_raw(&Addr::unchecked(contract));
        v.sort();
        v
    }

    pub fn default_params(&self, kind: MinterKind) -> FactoryParams {
        FactoryParams {
            code_id: self.codes.minters[kind.idx()],
            allowed_sg721_code_ids: vec![self.codes.sg721_base, self.codes.sg721_updatable, self.codes.sg721_nt, self.codes.sg721_metadata_onchain],
            frozen: false,
            creation_fee: (0, 5_000_000_000),
            min_mint_price: (0, 50_000_000),
            mint_fee_bps: 1000,
            max_trading_offset_secs: 60 * 60 * 24 * 7,
            max_token_limit: 10_000,
            max_per_address_limit: 50,
            airdrop_mint_price: (0, 0),
            airdrop_mint_fee_bps: 10_000,
            shuffle_fee: (0, 500_000_000),
            dev_fee_address: 60,
        }
    }
    pub fn factory_code(&self, k: FactoryKind) -> u64 {
        match k {
            FactoryKind::Vending => self.codes.vending_factory,
            FactoryKind::OpenEdition => self.codes.open_edition_factory,
            FactoryKind::TokenMerge => self.codes.token_merge_factory,
            FactoryKind::Base => self.codes.base_factory,
        }
    }
    /// instantiate a factory (sender = `gov` account id 90)
    pub fn new_factory(&mut self, kind: FactoryKind, p: &FactoryParams) -> Result<String, String> {
        let code = self.factory_code(kind);
        self.instantiate(code, &addr(90), &json!({"params": p.to_json(kind)}), &[], None)
    }
    /// CreateMinter through the factory; returns (minter, collection) addresses parsed from the instantiate events.
    pub fn create_minter(&mut self, factory: &str, kind: MinterKind, a: &CreateArgs) -> Result<(String, String), String> {
        let msg = create_minter_json(kind, a);
        let res = self.exec(&addr(a.creator), factory, &msg, &a.funds)?;
        let addrs: Vec<String> = res
            .events
            .iter()
            .filter(|e| e.ty == "instantiate")
            .filter_map(|e| e.attributes.iter().find(|at| at.key == "_contract_address" || at.key == "_contract_addr").map(|at| at.value.clone()))
            .collect();
        if addrs.len() < 2 {
            return Err(format!("create_minter: expected 2 instantiate events, got {:?}", addrs));
        }
        Ok((addrs[0].clone(), addrs[1].clone()))
    }
    /// default creation arguments for a minter kind: 10 tokens / cap 10, price = 100 STARS, start = now + 1 day
    pub fn default_create(&self, kind: MinterKind, p: &FactoryParams) -> CreateArgs {
        let now = self.time();
        let start = now.max(GENESIS) + 86_400_000_000_000;
        CreateArgs {
            creator: 10,
            sg721_code_id: self.codes.sg721_base,
            num_tokens: Some(10),
            per_address_limit: 3,
            start_time: start,
            end_time: if kind.is_open_edition() { Some(start + 7 * 86_400_000_000_000) } else { None },
            mint_price: (p.min_mint_price.0, 100_000_000),
            payment_address: None,
            whitelist: None,
            start_trading_time: None,
            royalty: None,
            mint_tokens: vec![],
            funds: vec![p.creation_fee],
        }
    }
    /// whitelist creation fee for a kind (what `instantiate` demands): per started 1000 of member_limit for list kinds,
    /// CREATION_FEE for merkle kinds, nothing for immutable.
    pub fn wl_fee(kind: WlKind, member_limit: u32) -> u128 {
        let tiers = ((member_limit as u128) + 999) / 1000;
        match kind {
            WlKind::Plain => tiers * sg_whitelist::contract::PRICE_PER_1000_MEMBERS,
            WlKind::Flex => tiers * sg_whitelist_flex::contract::PRICE_PER_1000_MEMBERS,
            WlKind::Tiered => tiers * sg_tiered_whitelist::contract::PRICE_PER_1000_MEMBERS,
            WlKind::TieredFlex => tiers * sg_tiered_whitelist_flex::contract::PRICE_PER_1000_MEMBERS,
            WlKind::Merkle => whitelist_mtree::contract::CREATION_FEE,
            WlKind::TieredMerkle => tiered_whitelist_merkletree::contract::CREATION_FEE,
            WlKind::Immutable => 0,
        }
    }
    /// instantiate a whitelist; the admin account pays the fee (funded here)
    pub fn new_whitelist(&mut self, kind: WlKind, a: &WlArgs) -> Result<String, String> {
        let fee = Self::wl_fee(kind, a.member_limit);
        let admin = addr(a.admin);
        self.fund(&admin, 0, fee);
        let funds: Vec<(u64, u128)> = if fee > 0 { vec![(0, fee)] } else { vec![] };
        let code = self.wl_code(kind);
        let r = self.instantiate(code, &admin, &wl_instantiate_json(kind, a), &funds, None);
        if r.is_err() && fee > 0 {
            // give the fee back to nobody: burn it so balances stay comparable
            let _ = self.app.execute(Addr::unchecked(&admin), cosmwasm_std::BankMsg::Burn { amount: vec![coin(fee, denom(0))] }.into());
        }
        r
    }
}

pub fn _unused(_: Empty) {}
