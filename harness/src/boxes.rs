//! Contract boxes (cw-multi-test wrappers around the REAL entry points) for every contract in /repo,
//! including the variants the repo's own test-suite never instantiates. All with sudo/reply/migrate where present.
use cosmwasm_std::Empty;
use cw_multi_test::{Contract, ContractWrapper};

pub use test_suite::common_setup::contract_boxes::{custom_mock_app, App};

pub type Boxed = Box<dyn Contract<Empty>>;

macro_rules! minter_box {
    ($name:ident, $krate:ident) => {
        pub fn $name() -> Boxed {
            Box::new(
                ContractWrapper::new($krate::contract::execute, $krate::contract::instantiate, $krate::contract::query)
                    .with_reply($krate::contract::reply)
                    .with_sudo($krate::contract::sudo)
                    .with_migrate($krate::contract::migrate),
            )
        }
    };
}
minter_box!(vending_minter, vending_minter);
minter_box!(vending_minter_featured, vending_minter_featured);
minter_box!(vending_minter_wl_flex, vending_minter_wl_flex);
minter_box!(vending_minter_wl_flex_featured, vending_minter_wl_flex_featured);
minter_box!(vending_minter_merkle_wl, vending_minter_merkle_wl);
minter_box!(vending_minter_merkle_wl_featured, vending_minter_merkle_wl_featured);
minter_box!(open_edition_minter, open_edition_minter);
minter_box!(open_edition_minter_wl_flex, open_edition_minter_wl_flex);
minter_box!(open_edition_minter_merkle_wl, open_edition_minter_merkle_wl);
minter_box!(token_merge_minter, token_merge_minter);

pub fn base_minter() -> Boxed {
    Box::new(
        ContractWrapper::new(base_minter::contract::execute, base_minter::contract::instantiate, base_minter::contract::query)
            .with_reply(base_minter::contract::reply)
            .with_sudo(base_minter::contract::sudo),
    )
}

macro_rules! factory_box {
    ($name:ident, $krate:ident) => {
        pub fn $name() -> Boxed {
            Box::new(
                ContractWrapper::new($krate::contract::execute, $krate::contract::instantiate, $krate::contract::query)
                    .with_sudo($krate::contract::sudo)
                    .with_migrate($krate::contract::migrate),
            )
        }
    };
}
factory_box!(base_factory, base_factory);
factory_box!(vending_factory, vending_factory);
factory_box!(open_edition_factory, open_edition_factory);
factory_box!(token_merge_factory, token_merge_factory);

pub fn sg721_base() -> Boxed {
    Box::new(ContractWrapper::new(sg721_base::entry::execute, sg721_base::entry::instantiate, sg721_base::entry::query))
}
pub fn sg721_nt() -> Boxed {
    Box::new(
        ContractWrapper::new(sg721_nt::entry::execute, sg721_nt::entry::instantiate, sg721_nt::entry::query)
            .with_migrate(sg721_nt::entry::migrate),
    )
}
pub fn sg721_updatable() -> Boxed {
    Box::new(
        ContractWrapper::new(sg721_updatable::entry::execute, sg721_updatable::entry::instantiate, sg721_updatable::entry::query)
            .with_migrate(sg721_updatable::entry::migrate),
    )
}
pub fn sg721_metadata_onchain() -> Boxed {
    Box::new(
        ContractWrapper::new(
            sg721_metadata_onchain::entry::execute,
            sg721_metadata_onchain::entry::instantiate,
            sg721_metadata_onchain::entry::query,
        )
        .with_migrate(sg721_metadata_onchain::entry::migrate),
    )
}

macro_rules! plain_box {
    ($name:ident, $krate:ident) => {
        pub fn $name() -> Boxed {
            Box::new(ContractWrapper::new($krate::contract::execute, $krate::contract::instantiate, $krate::contract::query))
        }
    };
}
plain_box!(whitelist, sg_whitelist);
plain_box!(whitelist_flex, sg_whitelist_flex);
plain_box!(tiered_whitelist, sg_tiered_whitelist);
plain_box!(tiered_whitelist_flex, sg_tiered_whitelist_flex);
plain_box!(whitelist_immutable, whitelist_immutable);

pub fn whitelist_mtree() -> Boxed {
    Box::new(
        ContractWrapper::new(whitelist_mtree::contract::execute, whitelist_mtree::contract::instantiate, whitelist_mtree::contract::query)
            .with_migrate(whitelist_mtree::contract::migrate),
    )
}
pub fn tiered_whitelist_mtree() -> Boxed {
    Box::new(
        ContractWrapper::new(
            tiered_whitelist_merkletree::contract::execute,
            tiered_whitelist_merkletree::contract::instantiate,
            tiered_whitelist_merkletree::contract::query,
        )
        .with_migrate(tiered_whitelist_merkletree::contract::migrate),
    )
}

pub fn splits() -> Boxed {
    Box::new(
        ContractWrapper::new_with_empty(sg_splits::contract::execute, sg_splits::contract::instantiate, sg_splits::contract::query)
            .with_reply_empty(sg_splits::contract::reply)
            .with_migrate_empty(sg_splits::contract::migrate),
    )
}
pub fn cw4_group() -> Boxed {
    Box::new(ContractWrapper::new_with_empty(cw4_group::contract::execute, cw4_group::contract::instantiate, cw4_group::contract::query))
}
pub fn eth_airdrop() -> Boxed {
    Box::new(
        ContractWrapper::new(sg_eth_airdrop::contract::execute, sg_eth_airdrop::contract::instantiate, sg_eth_airdrop::query::query)
            .with_reply(sg_eth_airdrop::reply::reply),
    )
}
