//! Correspondence harness for the Lean model of public-awesome/launchpad (see /verif/DESIGN.md, /verif/docs/HARNESS.md).
pub mod boxes;
pub mod core;
pub mod minters;
pub mod world;
pub use crate::core::*;
