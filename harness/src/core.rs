//! Shared machinery for every property binary: PRNG, argument parsing, the case/session bookkeeping,
//! the pipe to the Lean driver, diffing, generic shrinking, known-findings, replay and report files.
//!
//! Protocol (see /verif/docs/HARNESS.md): a *case* is a header line `case <free text>` followed by op lines.
//! Every line is executed against the real implementation by a [`Sut`]; the same line (plus an optional
//! witness suffix chosen by the implementation, e.g. the random token id it picked) is fed to the Lean driver,
//! which answers one line per input line. The two answer streams must be identical.

use std::collections::{BTreeMap, BTreeSet};
use std::io::Write;
use std::path::{Path, PathBuf};
use std::process::{Command, Stdio};
use std::time::Instant;

// ------------------------------------------------------------------------------------------------ PRNG

/// splitmix64 — the single source of randomness; seeded from VERIF_SEED / --seed.
#[derive(Clone, Debug)]
pub struct Rng(pub u64);

impl Rng {
    pub fn new(seed: u64) -> Self {
        Rng(seed ^ 0x9E37_79B9_7F4A_7C15)
    }
    pub fn next_u64(&mut self) -> u64 {
        self.0 = self.0.wrapping_add(0x9E37_79B9_7F4A_7C15);
        let mut z = self.0;
        z = (z ^ (z >> 30)).wrapping_mul(0xBF58_476D_1CE4_E5B9);
        z = (z ^ (z >> 27)).wrapping_mul(0x94D0_49BB_1331_11EB);
        z ^ (z >> 31)
    }
    pub fn next_u128(&mut self) -> u128 {
        ((self.next_u64() as u128) << 64) | self.next_u64() as u128
    }
    /// uniform in 0..n (n > 0)
    pub fn below(&mut self, n: u64) -> u64 {
        if n == 0 {
            0
        } else {
            self.next_u64() % n
        }
    }
    /// uniform in lo..=hi
    pub fn range(&mut self, lo: u64, hi: u64) -> u64 {
        lo + self.below(hi - lo + 1)
    }
    pub fn chance(&mut self, num: u64, den: u64) -> bool {
        self.below(den) < num
    }
    pub fn pick<'a, T>(&mut self, xs: &'a [T]) -> &'a T {
        &xs[self.below(xs.len() as u64) as usize]
    }
    /// a u128 with a random bit-length (so small and huge values are both common)
    pub fn sized_u128(&mut self, max_bits: u32) -> u128 {
        let bits = self.range(0, max_bits as u64) as u32;
        if bits == 0 {
            0
        } else if bits >= 128 {
            self.next_u128()
        } else {
            self.next_u128() & ((1u128 << bits) - 1)
        }
    }
    pub fn fork(&mut self) -> Rng {
        Rng(self.next_u64())
    }
    pub fn shuffle<T>(&mut self, xs: &mut [T]) {
        for i in (1..xs.len()).rev() {
            let j = self.below(i as u64 + 1) as usize;
            xs.swap(i, j);
        }
    }
}

// ------------------------------------------------------------------------------------------------ args

#[derive(Clone, Copy, Debug, PartialEq, Eq)]
pub enum Tier {
    Quick,
    Thorough,
    /// extra monitor-only exploration after a broken proof / correspondence
    Search,
}

#[derive(Clone, Debug)]
pub struct Args {
    pub prop: String,
    pub tier: Tier,
    pub seed: u64,
    pub out: PathBuf,
    pub driver: Option<PathBuf>,
    pub replay: Option<PathBuf>,
}

pub fn parse_args(prop: &str) -> Args {
    let mut a = Args {
        prop: prop.to_string(),
        tier: Tier::Quick,
        seed: std::env::var("VERIF_SEED").ok().and_then(|s| s.parse().ok()).unwrap_or(1),
        out: verif_root().join("work").join(prop),
        driver: None,
        replay: None,
    };
    let argv: Vec<String> = std::env::args().collect();
    let mut i = 1;
    while i < argv.len() {
        match argv[i].as_str() {
            "--tier" => {
                i += 1;
                a.tier = match argv[i].as_str() {
                    "quick" => Tier::Quick,
                    "thorough" => Tier::Thorough,
                    "search" => Tier::Search,
                    t => panic!("unknown tier {t}"),
                }
            }
            "--seed" => {
                i += 1;
                a.seed = argv[i].parse().expect("seed")
            }
            "--out" => {
                i += 1;
                a.out = PathBuf::from(&argv[i])
            }
            "--driver" => {
                i += 1;
                a.driver = Some(PathBuf::from(&argv[i]))
            }
            "--replay" => {
                i += 1;
                a.replay = Some(PathBuf::from(&argv[i]))
            }
            x => panic!("unknown argument {x}"),
        }
        i += 1;
    }
    a
}

// ------------------------------------------------------------------------------------------------ Sut

/// The system under test for one property binary: executes protocol lines against the REAL contracts.
pub trait Sut {
    /// Start a fresh world for a case. `header` is the full header line (starts with `case `).
    /// Returns the line to hand to the model (normally the header itself, possibly with witness fields
    /// appended) and the expected answer (normally `case`).
    fn begin(&mut self, header: &str) -> (String, String) {
        (header.to_string(), "case".to_string())
    }
    /// Execute one op line. Returns (line for the model = `line` + optional witness fields, canonical output).
    fn exec(&mut self, line: &str) -> (String, String);
    /// Property monitors over the implementation trace so far (called after every op).
    /// `Some((key, what))`: the PROPERTY ITSELF is violated on the real code. `key` is a stable identifier
    /// `<contract-or-variant>/<op>/<predicate>` used to match /verif/known_findings.json.
    fn monitor(&mut self) -> Option<(String, String)> {
        None
    }
}

#[derive(Clone, Debug, Default)]
pub struct Case {
    /// lines as generated (what a replay re-executes)
    pub gen: Vec<String>,
    /// lines as fed to the model (gen + witnesses)
    pub model_in: Vec<String>,
    /// implementation answers
    pub exp: Vec<String>,
}

#[derive(Clone, Debug)]
pub struct Finding {
    pub key: String,
    pub what: String,
    pub case: Case,
    pub step: usize,
}

#[derive(Clone, Debug)]
pub struct Disagreement {
    pub case: Case,
    pub step: usize,
    pub impl_out: String,
    pub model_out: String,
}

pub struct Session {
    pub args: Args,
    pub rng: Rng,
    pub cases: Vec<Case>,
    pub findings: Vec<Finding>,
    cur: Option<Case>,
    cur_failed: bool,
    pub dist: BTreeMap<String, u64>,
    pub classes: BTreeSet<String>,
    pub samples: Vec<String>,
    pub notes: Vec<String>,
    pub exhaustive: bool,
    t0: Instant,
    pub ops_total: u64,
    /// coverage floor: class patterns (prefix, or `*infix*`) that MUST have been marked by the end of a generated run
    pub required: Vec<String>,
}

impl Session {
    pub fn new(prop: &str) -> Session {
        let args = parse_args(prop);
        let rng = Rng::new(args.seed);
        Session {
            args,
            rng,
            cases: vec![],
            findings: vec![],
            cur: None,
            cur_failed: false,
            dist: BTreeMap::new(),
            classes: BTreeSet::new(),
            samples: vec![],
            notes: vec![],
            exhaustive: false,
            t0: Instant::now(),
            ops_total: 0,
            required: vec![],
        }
    }
    pub fn tier(&self) -> Tier {
        self.args.tier
    }
    /// `quick` if tier is Quick, `thorough` otherwise-scaled count helper
    pub fn scale(&self, quick: u64, thorough: u64) -> u64 {
        match self.args.tier {
            Tier::Quick => quick,
            Tier::Thorough => thorough,
            Tier::Search => quick * 5,
        }
    }
    /// count an event for the generator-distribution section of the evidence
    pub fn count(&mut self, key: &str) {
        *self.dist.entry(key.to_string()).or_insert(0) += 1;
    }
    /// mark a distinct non-trivial class (e.g. "(op kind, outcome, state class)") as covered
    pub fn mark(&mut self, class: impl Into<String>) {
        self.classes.insert(class.into());
    }
    pub fn note(&mut self, s: impl Into<String>) {
        self.notes.push(s.into());
    }
    /// Coverage floor. Declares that some class starting with `pattern` (or containing it, if written `*text*`) must have been
    /// `mark`ed by the time `finish` runs — for EVERY seed, in every tier (not enforced in replay mode). If it was not, the run
    /// is vacuous in that respect (e.g. every instantiate failed on both sides and they "agreed"): `finish` exits with status 4
    /// and `./check` reports the correspondence as broken. Only require classes the unchanged tree reaches with certainty.
    pub fn require(&mut self, pattern: impl Into<String>) {
        self.required.push(pattern.into());
    }
    fn unmet_requirements(&self) -> Vec<String> {
        self.required
            .iter()
            .filter(|p| {
                let hit = if p.len() >= 2 && p.starts_with('*') && p.ends_with('*') {
                    let inner = &p[1..p.len() - 1];
                    self.classes.iter().any(|c| c.contains(inner))
                } else {
                    self.classes.iter().any(|c| c.starts_with(p.as_str()))
                };
                !hit
            })
            .cloned()
            .collect()
    }

    pub fn begin_case(&mut self, sut: &mut dyn Sut, header: &str) {
        assert!(header.starts_with("case"), "case header must start with `case`");
        assert!(self.cur.is_none(), "previous case not ended");
        let (m, e) = sut.begin(header);
        let mut c = Case::default();
        c.gen.push(header.to_string());
        c.model_in.push(m);
        c.exp.push(e);
        self.cur = Some(c);
        self.cur_failed = false;
    }
    /// execute one op on the implementation, record it for the model; returns the implementation's answer
    pub fn step(&mut self, sut: &mut dyn Sut, line: &str) -> String {
        let (m, e) = sut.exec(line);
        self.ops_total += 1;
        let kind = line.split_whitespace().next().unwrap_or("?").to_string();
        let outcome = e.split_whitespace().next().unwrap_or("?").to_string();
        self.count(&format!("op:{kind}:{outcome}"));
        let c = self.cur.as_mut().expect("begin_case first");
        c.gen.push(line.to_string());
        c.model_in.push(m);
        c.exp.push(e.clone());
        if !self.cur_failed {
            if let Some((key, what)) = sut.monitor() {
                self.cur_failed = true;
                let c = self.cur.as_ref().unwrap().clone();
                let step = c.gen.len() - 1;
                // crash safety: a later panic of the HARNESS itself (rc 101) must not lose this finding — `./check` turns the
                // partial file into an (unshrunk) replay when the run did not reach `finish`
                if self.args.replay.is_none() && self.findings.len() < 8 {
                    let known = load_known(&self.args.prop);
                    if !known.iter().any(|k| k.status == "finding" && key_matches(&k.key, &key)) {
                        let rec = serde_json::json!({"property": self.args.prop, "kind": "monitor", "key": key, "what": what, "seed": self.args.seed,
                            "failing_step": step, "ops": c.gen, "model_in": c.model_in, "impl_out": c.exp, "note": "written before the harness crashed; not shrunk"});
                        std::fs::create_dir_all(&self.args.out).ok();
                        if let Ok(mut f) = std::fs::OpenOptions::new().create(true).append(true).open(self.args.out.join("partial_findings.jsonl")) {
                            use std::io::Write;
                            let _ = writeln!(f, "{}", rec);
                        }
                    }
                }
                self.findings.push(Finding { key, what, case: c, step });
            }
        }
        e
    }
    pub fn end_case(&mut self) {
        let c = self.cur.take().expect("no case");
        if self.samples.len() < 3 && c.gen.len() > 1 {
            let n = c.gen.len().min(8);
            let s: Vec<String> = (0..n).map(|i| format!("{}  =>  {}", c.model_in[i], c.exp[i])).collect();
            self.samples.push(s.join(" | "));
        }
        self.cases.push(c);
    }
    /// run a complete pre-built case
    pub fn run_case(&mut self, sut: &mut dyn Sut, lines: &[String]) {
        self.begin_case(sut, &lines[0]);
        for l in &lines[1..] {
            self.step(sut, l);
        }
        self.end_case();
    }

    /// Replay mode: re-run the `gen` lines stored in a replay file. Returns true if handled.
    pub fn maybe_replay(&mut self, sut: &mut dyn Sut) -> bool {
        let Some(p) = self.args.replay.clone() else { return false };
        let txt = std::fs::read_to_string(&p).expect("replay file");
        let v: serde_json::Value = serde_json::from_str(&txt).expect("replay json");
        let lines: Vec<String> = v["ops"].as_array().map(|a| a.iter().filter_map(|x| x.as_str().map(String::from)).collect()).unwrap_or_default();
        if lines.is_empty() {
            self.note(format!("replay file {} has no ops (names a broken theorem/correspondence only)", p.display()));
            return true;
        }
        self.run_case(sut, &lines);
        true
    }

    // -------------------------------------------------------------------------------------------- model side

    fn run_driver(&self, cases: &[&Case]) -> Result<Vec<Vec<String>>, String> {
        let Some(driver) = &self.args.driver else { return Err("no --driver given".into()) };
        let mut input = String::new();
        for c in cases {
            for l in &c.model_in {
                input.push_str(l);
                input.push('\n');
            }
        }
        let mut child = Command::new(driver)
            .stdin(Stdio::piped())
            .stdout(Stdio::piped())
            .stderr(Stdio::piped())
            .spawn()
            .map_err(|e| format!("cannot start driver {}: {e}", driver.display()))?;
        let mut stdin = child.stdin.take().unwrap();
        let inp = input.clone();
        let th = std::thread::spawn(move || {
            let _ = stdin.write_all(inp.as_bytes());
        });
        let out = child.wait_with_output().map_err(|e| e.to_string())?;
        let _ = th.join();
        let text = String::from_utf8_lossy(&out.stdout).to_string();
        let mut lines = text.lines();
        let mut res = vec![];
        for c in cases {
            let mut v = vec![];
            for _ in 0..c.model_in.len() {
                v.push(lines.next().unwrap_or("<driver-eof>").to_string());
            }
            res.push(v);
        }
        Ok(res)
    }

    /// Output lines may carry a second part after ` ## `: observations that are OUTSIDE the property's projection (things the
    /// property does not constrain). Only the part before ` ## ` decides agreement; a difference confined to the second part
    /// is DRIFT: reported (`DRIFT property=… outside-projection …`), recorded in the evidence, never affects the exit code.
    /// (If the model side prints no second part, the implementation's second part is informational only.)
    fn first_disagreement(&self, c: &Case, model: &[String]) -> Option<usize> {
        (0..c.exp.len()).find(|&i| primary_part(&c.exp[i]) != primary_part(model.get(i).map(|s| s.as_str()).unwrap_or("<missing>")))
    }
    fn first_drift(&self, c: &Case, model: &[String]) -> Option<usize> {
        (0..c.exp.len()).find(|&i| {
            let m = model.get(i).map(|s| s.as_str()).unwrap_or("");
            primary_part(&c.exp[i]) == primary_part(m) && !drift_part(m).is_empty() && drift_part(&c.exp[i]) != drift_part(m)
        })
    }

    /// Delta-debugging over op lines (header kept). `sut` re-executes every candidate on the real code.
    fn shrink(&self, sut: &mut dyn Sut, case: &Case, want_finding: Option<&str>) -> Case {
        let mut best: Vec<String> = case.gen.clone();
        let mut budget = 300usize;
        let mut chunk = (best.len() - 1).max(1) / 2;
        while chunk >= 1 && budget > 0 {
            let mut i = 1;
            let mut progressed = false;
            while i < best.len() && budget > 0 {
                let end = (i + chunk).min(best.len());
                let mut cand = best[..i].to_vec();
                cand.extend_from_slice(&best[end..]);
                budget -= 1;
                if cand.len() > 1 && self.still_fails(sut, &cand, want_finding) {
                    best = cand;
                    progressed = true;
                } else {
                    i += chunk;
                }
            }
            if !progressed {
                if chunk == 1 {
                    break;
                }
                chunk /= 2;
            }
        }
        self.reexec(sut, &best).0
    }

    fn reexec(&self, sut: &mut dyn Sut, lines: &[String]) -> (Case, Option<(usize, String, String)>) {
        let mut c = Case::default();
        let (m, e) = sut.begin(&lines[0]);
        c.gen.push(lines[0].clone());
        c.model_in.push(m);
        c.exp.push(e);
        let mut found = None;
        for l in &lines[1..] {
            let (m, e) = sut.exec(l);
            c.gen.push(l.clone());
            c.model_in.push(m);
            c.exp.push(e);
            if found.is_none() {
                if let Some((k, w)) = sut.monitor() {
                    found = Some((c.gen.len() - 1, k, w));
                }
            }
        }
        (c, found)
    }

    fn still_fails(&self, sut: &mut dyn Sut, lines: &[String], want_finding: Option<&str>) -> bool {
        let (c, found) = self.reexec(sut, lines);
        match want_finding {
            Some(key) => matches!(found, Some((_, k, _)) if k == key),
            None => match self.run_driver(&[&c]) {
                Ok(m) => self.first_disagreement(&c, &m[0]).is_some(),
                Err(_) => false,
            },
        }
    }

    // -------------------------------------------------------------------------------------------- finish

    /// Compare with the model, apply known findings, shrink, write replay + report files, exit.
    /// Exit status: 0 agree & no unlisted finding; 1 unlisted monitor finding; 2 model/implementation
    /// disagreement without a monitor finding; 3 driver could not be run.
    pub fn finish(mut self, sut: &mut dyn Sut) -> ! {
        if self.cur.is_some() {
            self.end_case();
        }
        std::fs::create_dir_all(&self.args.out).ok();
        let known = load_known(&self.args.prop);
        let prop = self.args.prop.clone();
        let replay_dir = verif_root().join("replays");
        std::fs::create_dir_all(&replay_dir).ok();

        // --- model comparison
        let mut disagreements: Vec<Disagreement> = vec![];
        let mut driver_error: Option<String> = None;
        let mut compared_cases = 0u64;
        let mut compared_lines = 0u64;
        let mut drift_cases = 0u64;
        let mut drift_samples: Vec<serde_json::Value> = vec![];
        if self.args.tier != Tier::Search {
            let refs: Vec<&Case> = self.cases.iter().collect();
            match self.run_driver(&refs) {
                Ok(outs) => {
                    for (c, m) in self.cases.iter().zip(outs.iter()) {
                        compared_cases += 1;
                        compared_lines += c.exp.len() as u64;
                        if let Some(i) = self.first_disagreement(c, m) {
                            if disagreements.len() < 5 {
                                disagreements.push(Disagreement { case: c.clone(), step: i, impl_out: c.exp[i].clone(), model_out: m.get(i).cloned().unwrap_or_default() });
                            }
                        } else if let Some(i) = self.first_drift(c, m) {
                            drift_cases += 1;
                            if drift_samples.len() < 5 {
                                drift_samples.push(serde_json::json!({"header": c.gen.first(), "op": c.gen.get(i), "impl": drift_part(&c.exp[i]), "model": drift_part(&m[i])}));
                            }
                        }
                    }
                }
                Err(e) => driver_error = Some(e),
            }
        }

        // --- findings: known vs new
        let mut known_lines: Vec<String> = vec![];
        let mut new_findings: Vec<Finding> = vec![];
        let mut seen_keys = BTreeSet::new();
        let mut known_hit: BTreeSet<String> = BTreeSet::new();
        let mut known_more: Vec<String> = vec![];
        for f in std::mem::take(&mut self.findings) {
            if !seen_keys.insert(f.key.clone()) {
                continue;
            }
            if let Some(k) = known.iter().find(|k| k.status == "finding" && key_matches(&k.key, &f.key)) {
                // one line per LISTED finding (the first monitor key that matched it), not one per contract variant
                if known_hit.insert(k.key.clone()) {
                    known_lines.push(format!("KNOWN-FINDING: property={} {} — {}", prop, f.key, f.what));
                } else {
                    known_more.push(f.key.clone());
                }
            } else {
                new_findings.push(f);
            }
        }

        let mut violations: Vec<serde_json::Value> = vec![];
        for f in new_findings.iter().take(3) {
            let small = self.shrink(sut, &f.case, Some(&f.key));
            let (c2, found) = self.reexec(sut, &small.gen);
            let (case, step, what) = match found {
                Some((s, _, w)) => (c2, s, w),
                None => (f.case.clone(), f.step, f.what.clone()),
            };
            let path = replay_dir.join(format!("{}-{}-{}.json", prop, self.args.seed, sanitize(&f.key)));
            let v = serde_json::json!({
                "property": prop, "kind": "monitor", "key": f.key, "what": what, "seed": self.args.seed,
                "failing_step": step, "ops": case.gen, "model_in": case.model_in, "impl_out": case.exp,
                "how_to_replay": format!("./check {} --replay {}", prop, path.display()),
            });
            std::fs::write(&path, serde_json::to_string_pretty(&v).unwrap()).ok();
            violations.push(serde_json::json!({"kind": "monitor", "key": f.key, "what": what, "replay": path, "failing_input_found": true}));
        }
        if new_findings.is_empty() {
            for d in disagreements.iter().take(1) {
                let mut pref = d.case.clone();
                pref.gen.truncate(d.step + 1);
                let small = self.shrink(sut, &pref, None);
                let model = self.run_driver(&[&small]).ok().map(|m| m[0].clone()).unwrap_or_default();
                let step = self.first_disagreement(&small, &model).unwrap_or(small.exp.len().saturating_sub(1));
                let path = replay_dir.join(format!("{}-{}-disagreement.json", prop, self.args.seed));
                let v = serde_json::json!({
                    "property": prop, "kind": "correspondence",
                    "what": format!("model and implementation differ at step {}: impl=`{}` model=`{}`", step, small.exp.get(step).cloned().unwrap_or_default(), model.get(step).cloned().unwrap_or_default()),
                    "broken": format!("correspondence drv_{} vs /repo on op `{}`", prop.to_lowercase(), small.gen.get(step).cloned().unwrap_or_default()),
                    "seed": self.args.seed, "failing_step": step, "ops": small.gen, "model_in": small.model_in, "impl_out": small.exp, "model_out": model,
                    "how_to_replay": format!("./check {} --replay {}", prop, path.display()),
                });
                std::fs::write(&path, serde_json::to_string_pretty(&v).unwrap()).ok();
                violations.push(serde_json::json!({"kind": "correspondence", "what": v["what"], "replay": path, "failing_input_found": false}));
            }
        }

        let unmet = if self.args.replay.is_some() { vec![] } else { self.unmet_requirements() };
        let status = if !new_findings.is_empty() {
            1
        } else if !disagreements.is_empty() {
            2
        } else if driver_error.is_some() && self.args.tier != Tier::Search {
            3
        } else if !unmet.is_empty() {
            4
        } else {
            0
        };
        if !unmet.is_empty() {
            println!("harness {}: coverage floor NOT met, never reached: {:?}", prop, unmet);
        }

        let report = serde_json::json!({
            "property": prop, "tier": format!("{:?}", self.args.tier).to_lowercase(), "seed": self.args.seed,
            "cases": self.cases.len(), "ops": self.ops_total,
            "compared_cases": compared_cases, "compared_lines": compared_lines,
            "distinct_classes": self.classes.len(),
            "classes_sample": self.classes.iter().take(40).collect::<Vec<_>>(),
            "distribution": self.dist, "samples": self.samples, "notes": self.notes, "exhaustive": self.exhaustive,
            "known_findings_hit": known_lines, "known_findings_more_keys": known_more, "violations": violations,
            "drift_cases": drift_cases, "drift_samples": drift_samples, "coverage_floor_unmet": unmet, "coverage_floor": self.required,
            "driver_error": driver_error, "status": status,
            "wall_s": self.t0.elapsed().as_secs_f64(),
        });
        std::fs::write(self.args.out.join("report.json"), serde_json::to_string_pretty(&report).unwrap()).expect("write report");
        for l in &known_lines {
            println!("{l}");
        }
        if drift_cases > 0 {
            let d = &drift_samples[0];
            println!("DRIFT property={} outside-projection cases={} first: op `{}` impl `{}` model `{}`", prop, drift_cases, d["op"].as_str().unwrap_or(""), d["impl"].as_str().unwrap_or(""), d["model"].as_str().unwrap_or(""));
        }
        println!(
            "harness {}: cases={} ops={} compared_lines={} classes={} findings={} disagreements={} status={}",
            prop, self.cases.len(), self.ops_total, compared_lines, self.classes.len(), new_findings.len(), disagreements.len(), status
        );
        std::process::exit(status);
    }
}

fn sanitize(s: &str) -> String {
    s.chars().map(|c| if c.is_ascii_alphanumeric() { c } else { '_' }).collect()
}

#[derive(Clone, Debug)]
pub struct Known {
    pub property: String,
    pub status: String,
    pub key: String,
}

/// known-finding keys may start or end with `*` (suffix / prefix match), e.g. `*/ump/denom-differs-from-factory-min`
pub fn key_matches(pattern: &str, key: &str) -> bool {
    if let Some(suf) = pattern.strip_prefix('*') {
        key.ends_with(suf)
    } else if let Some(pre) = pattern.strip_suffix('*') {
        key.starts_with(pre)
    } else {
        pattern == key
    }
}

/// root of the verification tree this binary works for: `$VERIF_ROOT` (set by `./check` to its own directory, so that a scratch
/// copy writes its replays into the copy), else /verif
pub fn verif_root() -> PathBuf {
    std::env::var("VERIF_ROOT").map(PathBuf::from).unwrap_or_else(|_| PathBuf::from("/verif"))
}

/// the part of an output line that decides agreement (before ` ## `)
pub fn primary_part(l: &str) -> &str {
    match l.find(" ## ") {
        Some(i) => &l[..i],
        None => l,
    }
}
/// the part of an output line that is outside the property's projection (after ` ## `; empty if none)
pub fn drift_part(l: &str) -> &str {
    match l.find(" ## ") {
        Some(i) => &l[i + 4..],
        None => "",
    }
}

pub fn load_known(prop: &str) -> Vec<Known> {
    let p = verif_root().join("known_findings.json");
    let Ok(txt) = std::fs::read_to_string(&p) else { return vec![] };
    let Ok(v) = serde_json::from_str::<serde_json::Value>(&txt) else { return vec![] };
    let mut out = vec![];
    if let Some(a) = v["entries"].as_array() {
        for e in a {
            if e["property"].as_str() == Some(prop) {
                out.push(Known {
                    property: prop.to_string(),
                    status: e["status"].as_str().unwrap_or("").to_string(),
                    key: e["key"].as_str().unwrap_or("").to_string(),
                });
            }
        }
    }
    out
}

// ------------------------------------------------------------------------------------------------ line helpers

/// `key=value` lookup in a protocol line
pub fn kv<'a>(line: &'a str, key: &str) -> Option<&'a str> {
    line.split_whitespace().find_map(|w| {
        let (k, v) = w.split_once('=')?;
        if k == key {
            Some(v)
        } else {
            None
        }
    })
}
pub fn kv_u128(line: &str, key: &str) -> Option<u128> {
    kv(line, key)?.parse().ok()
}
pub fn kv_u64(line: &str, key: &str) -> Option<u64> {
    kv(line, key)?.parse().ok()
}
pub fn kv_opt_u64(line: &str, key: &str) -> Option<Option<u64>> {
    let v = kv(line, key)?;
    if v == "-" {
        Some(None)
    } else {
        v.parse().ok().map(Some)
    }
}
pub fn kv_opt_u128(line: &str, key: &str) -> Option<Option<u128>> {
    let v = kv(line, key)?;
    if v == "-" {
        Some(None)
    } else {
        v.parse().ok().map(Some)
    }
}
pub fn kv_bool(line: &str, key: &str) -> Option<bool> {
    match kv(line, key)? {
        "1" => Some(true),
        "0" => Some(false),
        _ => None,
    }
}
/// `a,b,c` or `-`
pub fn kv_list(line: &str, key: &str) -> Option<Vec<u128>> {
    let v = kv(line, key)?;
    if v == "-" || v.is_empty() {
        return Some(vec![]);
    }
    v.split(',').map(|x| x.parse().ok()).collect()
}
/// `d:a,d:a` or `-`
pub fn kv_pairs(line: &str, key: &str) -> Option<Vec<(u128, u128)>> {
    let v = kv(line, key)?;
    if v == "-" || v.is_empty() {
        return Some(vec![]);
    }
    v.split(',')
        .map(|p| {
            let (a, b) = p.split_once(':')?;
            Some((a.parse().ok()?, b.parse().ok()?))
        })
        .collect()
}
pub fn fmt_list<T: std::fmt::Display>(xs: &[T]) -> String {
    if xs.is_empty() {
        "-".into()
    } else {
        xs.iter().map(|x| x.to_string()).collect::<Vec<_>>().join(",")
    }
}
pub fn fmt_pairs<A: std::fmt::Display, B: std::fmt::Display>(xs: &[(A, B)]) -> String {
    if xs.is_empty() {
        "-".into()
    } else {
        xs.iter().map(|(a, b)| format!("{a}:{b}")).collect::<Vec<_>>().join(",")
    }
}
pub fn fmt_opt<T: std::fmt::Display>(x: &Option<T>) -> String {
    match x {
        Some(v) => v.to_string(),
        None => "-".into(),
    }
}

/// Run `f`, turning a panic into `Err(message)` (contract code indexes/unwraps in places).
pub fn catch<T>(f: impl FnOnce() -> T) -> Result<T, String> {
    let prev = std::panic::take_hook();
    std::panic::set_hook(Box::new(|_| {}));
    let r = std::panic::catch_unwind(std::panic::AssertUnwindSafe(f));
    std::panic::set_hook(prev);
    r.map_err(|e| {
        if let Some(s) = e.downcast_ref::<String>() {
            s.clone()
        } else if let Some(s) = e.downcast_ref::<&str>() {
            s.to_string()
        } else {
            "panic".into()
        }
    })
}
