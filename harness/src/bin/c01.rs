//! C01 — supply accounting of all 11 minters. The REAL contracts (created through their factories inside one
//! cw-multi-test App) vs the Lean aspect model `LP.Supply` (Model/Supply.lean), plus property monitors.
//!
//! Protocol: see Driver/C01.lean. Harness-side words on a line: `who=` sender, `to=` recipient, `pay=` funds (ustars),
//! `id=` token id, `src=`/`coll=` source token / source collection of a token-merge deposit, `what=`/`arg=` of a noise op.
//! Witness words appended for the model: `gate=` (0 iff the implementation rejected the op for a reason that is NOT a
//! supply reason: payment, limits, clock, whitelist, authorisation …), `pos=` (position whose entry disappeared from the
//! raw `mt` map), `owner=`, `perm=` (ids by position after a shuffle), `eff=` (a deposit reached the mint step), `init=`.
use lp_harness::minters::*;
use lp_harness::world::{addr, addr_id};
use lp_harness::*;
use serde_json::{json, Value};
use sha2::{Digest, Sha256};
use std::collections::{BTreeMap, BTreeSet};

const ADMIN: u64 = 10;
const WL_ADMIN: u64 = 11;
const STRANGER: u64 = 66;
const BUYER0: u64 = 100;
const SEC: u64 = 1_000_000_000;
const T0: u64 = GENESIS + 1000 * SEC;
const WL_START: u64 = T0 + 100 * SEC;
const WL_END: u64 = T0 + 200 * SEC;
const START: u64 = T0 + 200 * SEC;
const END: u64 = START + 1000 * SEC;
const PRICE: u128 = 100_000_000;
const WL_PRICE: u128 = 60_000_000;
const WL_LIMIT: u32 = 2;
const BASE_FEE: u128 = 5_000_000; // min_mint_price 50_000_000 * mint_fee_bps 1000 / 10_000
const N_WL_MEMBERS: u64 = 4;

#[derive(Clone, Debug)]
struct Cfg {
    fixed: bool,
    kind: MinterKind,
    n: Option<u32>,
    fmax: u32,
    has_end: bool,
    pal: u32,
    wl: bool,
    air: u128,
    shf: u128,
    need: u32,
}

fn parse_cfg(h: &str) -> Cfg {
    Cfg {
        fixed: kv(h, "fam") == Some("fixed"),
        kind: MinterKind::from_idx(kv_u64(h, "kind").expect("kind") as usize),
        n: if kv(h, "fam") == Some("fixed") { Some(kv_u64(h, "n").expect("n") as u32) } else { kv_opt_u64(h, "num").expect("num").map(|x| x as u32) },
        fmax: kv_u64(h, "fmax").unwrap_or(10_000) as u32,
        has_end: kv_bool(h, "end").unwrap_or(false),
        pal: kv_u64(h, "pal").unwrap_or(3) as u32,
        wl: kv_bool(h, "wl").unwrap_or(false),
        air: kv_u128(h, "air").unwrap_or(0),
        shf: kv_u128(h, "shf").unwrap_or(500_000_000),
        need: kv_u64(h, "need").unwrap_or(1) as u32,
    }
}

// ------------------------------------------------------------------------------------------------ merkle (sorted-pair sha256, as whitelist-merkletree verifies)

fn sha(b: &[u8]) -> [u8; 32] {
    Sha256::digest(b).into()
}
fn pair(a: [u8; 32], b: [u8; 32]) -> [u8; 32] {
    let mut v = [a, b];
    v.sort_unstable();
    sha(&v.concat())
}
/// (root hex, proofs per leaf)
fn merkle(leaves: &[String]) -> (String, Vec<Vec<String>>) {
    let mut level: Vec<[u8; 32]> = leaves.iter().map(|l| sha(l.as_bytes())).collect();
    let mut idx: Vec<usize> = (0..leaves.len()).collect();
    let mut proofs: Vec<Vec<String>> = vec![vec![]; leaves.len()];
    while level.len() > 1 {
        let mut next = vec![];
        for i in (0..level.len()).step_by(2) {
            if i + 1 < level.len() {
                next.push(pair(level[i], level[i + 1]));
            } else {
                next.push(level[i]);
            }
        }
        for (leaf, pos) in idx.iter_mut().enumerate() {
            let sib = *pos ^ 1;
            if sib < level.len() {
                proofs[leaf].push(hex::encode(level[sib]));
            }
            *pos /= 2;
        }
        level = next;
    }
    (hex::encode(level[0]), proofs)
}

// ------------------------------------------------------------------------------------------------ the system under test

struct S {
    w: Option<World>,
    cfg: Cfg,
    factory: String,
    minter: String,
    coll: String,
    src: Vec<(String, String)>, // token-merge: (base minter, collection); [0] listed in mint_tokens, [1] not
    proofs: BTreeMap<u64, Vec<String>>,
    // ---- monitor trace (independent of the model)
    seen: BTreeSet<u64>,
    burned: u64,
    successes: u64,
    last_seq: u64,
    burn_done: bool,
    cap: Option<u64>,
    viol: Option<(String, String)>,
    // ---- last observation (for the generator)
    pos: Vec<(u64, u64)>,
    m: Option<u64>,
    toks: Vec<(u64, u64)>,
    last_pick: Option<(usize, usize)>, // (index from front, map length before)
}

fn is_supply_error(e: &str) -> bool {
    let l = e.to_lowercase();
    l.contains("sold out") || l.contains("already sold") || l.contains("invalid token id") || l.contains("already claimed") || l.starts_with("panic")
}

impl S {
    fn new() -> S {
        S {
            w: None,
            cfg: parse_cfg("case fam=fixed kind=0 n=1"),
            factory: String::new(),
            minter: String::new(),
            coll: String::new(),
            src: vec![],
            proofs: BTreeMap::new(),
            seen: BTreeSet::new(),
            burned: 0,
            successes: 0,
            last_seq: 0,
            burn_done: false,
            cap: None,
            viol: None,
            pos: vec![],
            m: None,
            toks: vec![],
            last_pick: None,
        }
    }
    fn w(&self) -> &World {
        self.w.as_ref().unwrap()
    }
    fn wm(&mut self) -> &mut World {
        self.w.as_mut().unwrap()
    }

    fn build(&mut self, cfg: &Cfg) -> Result<(), String> {
        let kind = cfg.kind;
        let mut w = World::new(T0);
        let mut p = w.default_params(kind);
        p.max_token_limit = cfg.fmax;
        p.airdrop_mint_price = (0, cfg.air);
        p.shuffle_fee = (0, cfg.shf);
        let factory = w.new_factory(kind.factory(), &p)?;
        for a in [ADMIN, WL_ADMIN, STRANGER] {
            w.fund(&addr(a), 0, 1_000_000_000_000_000);
        }
        let n_buyers = cfg.n.unwrap_or(cfg.fmax.min(200)) as u64 + 8;
        for b in 0..n_buyers {
            w.fund(&addr(BUYER0 + b), 0, 1_000_000_000_000);
        }
        self.proofs.clear();
        let mut wl_addr = None;
        if cfg.wl {
            let members: Vec<(u64, u32)> = (0..N_WL_MEMBERS).map(|i| (BUYER0 + i, WL_LIMIT)).collect();
            let wk = if kind.is_flex() {
                WlKind::Flex
            } else if kind.is_merkle() {
                WlKind::Merkle
            } else {
                WlKind::Plain
            };
            let leaves: Vec<String> = members.iter().map(|(m, _)| addr(*m)).collect();
            let (root, proofs) = merkle(&leaves);
            for (i, (m, _)) in members.iter().enumerate() {
                self.proofs.insert(*m, proofs[i].clone());
            }
            let st = WlStage { start: WL_START, end: WL_END, mint_price: (0, WL_PRICE), per_address_limit: WL_LIMIT, mint_count_limit: None, members, merkle_root: root };
            let a = WlArgs { admin: WL_ADMIN, member_limit: 1000, admins_mutable: true, whale_cap: None, stages: vec![st] };
            wl_addr = Some(w.new_whitelist(wk, &a)?);
        }
        self.src.clear();
        let mut a = w.default_create(kind, &p);
        a.creator = ADMIN;
        a.num_tokens = cfg.n;
        a.per_address_limit = cfg.pal;
        a.start_time = START;
        a.end_time = if kind.is_open_edition() && cfg.has_end { Some(END) } else { None };
        a.mint_price = (0, PRICE);
        a.whitelist = wl_addr;
        if kind == MinterKind::TokenMerge {
            let n = cfg.n.unwrap_or(1) as u64;
            for (i, k) in [(0usize, n * cfg.need as u64 + 6), (1usize, 3u64)] {
                let pb = w.default_params(MinterKind::Base);
                let fb = w.new_factory(FactoryKind::Base, &pb)?;
                let ab = w.default_create(MinterKind::Base, &pb);
                let (mb, cb) = w.create_minter(&fb, MinterKind::Base, &ab)?;
                for _ in 0..k {
                    w.exec(&addr(ADMIN), &mb, &json!({"mint":{"token_uri":"ipfs://src/x"}}), &[(0, BASE_FEE)])?;
                }
                if i == 0 {
                    a.mint_tokens = vec![(cb.clone(), cfg.need)];
                }
                self.src.push((mb, cb));
            }
        }
        let (m, c) = w.create_minter(&factory, kind, &a)?;
        self.factory = factory;
        self.minter = m;
        self.coll = c;
        self.w = Some(w);
        Ok(())
    }

    // ---------------------------------------------------------------- observations

    fn mt_dump(&self) -> Vec<(u64, u64)> {
        let mut v = vec![];
        for (k, val) in self.w().dump(&self.minter) {
            if k.len() == 8 && &k[..4] == b"\x00\x02mt" {
                let p = u32::from_be_bytes([k[4], k[5], k[6], k[7]]) as u64;
                let id: u64 = String::from_utf8_lossy(&val).trim().parse().unwrap_or(u64::MAX);
                v.push((p, id));
            }
        }
        v.sort();
        v
    }
    fn raw_item(&self, key: &[u8]) -> Option<u64> {
        self.w().dump(&self.minter).into_iter().find(|(k, _)| k.as_slice() == key).and_then(|(_, v)| String::from_utf8_lossy(&v).trim().parse().ok())
    }
    fn q_count(&self, contract: &str, msg: Value) -> Option<u64> {
        self.w().query(contract, &msg).ok().and_then(|v| v["count"].as_u64())
    }
    fn coll_obs(&self) -> (u64, Vec<(u64, u64)>) {
        let cnt = self.q_count(&self.coll, json!({"num_tokens":{}})).unwrap_or(u64::MAX);
        let mut ids: Vec<String> = vec![];
        let mut after: Option<String> = None;
        loop {
            let r = self.w().query(&self.coll, &json!({"all_tokens":{"start_after": after, "limit": 30}})).expect("all_tokens");
            let page: Vec<String> = r["tokens"].as_array().map(|a| a.iter().filter_map(|x| x.as_str().map(String::from)).collect()).unwrap_or_default();
            if page.is_empty() {
                break;
            }
            after = page.last().cloned();
            let short = page.len() < 30;
            ids.extend(page);
            if short {
                break;
            }
        }
        let mut toks: Vec<(u64, u64)> = ids
            .iter()
            .map(|t| {
                let o = self.w().query(&self.coll, &json!({"owner_of":{"token_id": t}})).ok().and_then(|v| v["owner"].as_str().map(addr_id)).unwrap_or(u64::MAX);
                (t.parse().unwrap_or(u64::MAX), o)
            })
            .collect();
        toks.sort();
        (cnt, toks)
    }
    fn owner_of(&self, id: u64) -> Option<u64> {
        self.w().query(&self.coll, &json!({"owner_of":{"token_id": id.to_string()}})).ok().and_then(|v| v["owner"].as_str().map(addr_id))
    }
    fn mintable(&self) -> Option<u64> {
        if self.cfg.kind == MinterKind::Base {
            None
        } else {
            self.q_count(&self.minter, json!({"mintable_num_tokens":{}}))
        }
    }
    /// canonical observation vector; also refreshes the cached state used by generators and monitors
    fn obs(&mut self) -> String {
        let (cnt, toks) = self.coll_obs();
        let s = if self.cfg.fixed {
            let pos = self.mt_dump();
            let m = self.mintable();
            let s = format!("m={} pos={} cnt={} toks={}", fmt_opt(&m), fmt_pairs(&pos), cnt, fmt_pairs(&toks));
            self.pos = pos;
            self.m = m;
            s
        } else {
            let idx = self.raw_item(b"token_index").unwrap_or(0);
            let (total, m) = if self.cfg.kind == MinterKind::Base {
                (None, None)
            } else {
                (self.q_count(&self.minter, json!({"total_mint_count":{}})), self.mintable())
            };
            self.m = m;
            format!("idx={} total={} m={} cnt={} toks={}", idx, fmt_opt(&total), fmt_opt(&m), cnt, fmt_pairs(&toks))
        };
        self.toks = toks;
        s
    }

    fn current_price(&self) -> u128 {
        self.w().query(&self.minter, &json!({"mint_price":{}})).ok().and_then(|v| v["current_price"]["amount"].as_str().and_then(|s| s.parse().ok())).unwrap_or(PRICE)
    }

    fn flag(&mut self, op: &str, pred: &str, what: String) {
        if self.viol.is_none() {
            self.viol = Some((format!("{}/{}/{}", self.cfg.kind.name(), op, pred), what));
        }
    }

    /// token id minted in OUR collection during this response (from the collection's own `mint` event)
    fn minted_id(&self, r: &cw_multi_test::AppResponse) -> Option<u64> {
        for e in &r.events {
            if e.ty != "wasm" {
                continue;
            }
            let get = |k: &str| e.attributes.iter().find(|a| a.key == k).map(|a| a.value.clone());
            if get("_contract_address").or(get("_contract_addr")).as_deref() == Some(self.coll.as_str()) && get("action").as_deref() == Some("mint") {
                return get("token_id").and_then(|s| s.parse().ok());
            }
        }
        None
    }
    /// `token_id` attribute of the MINTER's own response (absent for base-minter)
    fn reported_id(&self, r: &cw_multi_test::AppResponse) -> Option<u64> {
        for e in &r.events {
            if e.ty != "wasm" {
                continue;
            }
            let get = |k: &str| e.attributes.iter().find(|a| a.key == k).map(|a| a.value.clone());
            if get("_contract_address").or(get("_contract_addr")).as_deref() == Some(self.minter.as_str()) && get("recipient").is_some() {
                return get("token_id").and_then(|s| s.parse().ok());
            }
        }
        None
    }

    fn mint_msg(&self, who: u64) -> Value {
        match self.cfg.kind {
            MinterKind::Base => json!({"mint":{"token_uri":"ipfs://base/x"}}),
            k if k.is_merkle() => json!({"mint":{"proof_hashes": self.proofs.get(&who).cloned(), "stage": null, "allocation": null}}),
            _ => json!({"mint":{}}),
        }
    }
}

fn funds(pay: u128) -> Vec<(u64, u128)> {
    if pay == 0 {
        vec![]
    } else {
        vec![(0, pay)]
    }
}

impl Sut for S {
    fn begin(&mut self, header: &str) -> (String, String) {
        let cfg = parse_cfg(header);
        self.cfg = cfg.clone();
        self.seen.clear();
        self.burned = 0;
        self.successes = 0;
        self.last_seq = 0;
        self.burn_done = false;
        self.viol = None;
        self.last_pick = None;
        self.cap = match (cfg.fixed, cfg.kind, cfg.n) {
            (true, _, n) => n.map(|x| x as u64),
            (false, MinterKind::Base, _) => None,
            (false, _, Some(n)) => Some(n as u64),
            // "the factory-wide cap captured at creation where the variant applies one"
            (false, MinterKind::OpenEdition, None) | (false, MinterKind::OpenEditionMerkle, None) => Some(cfg.fmax as u64),
            (false, _, None) => None,
        };
        if let Err(e) = self.build(&cfg) {
            panic!("world setup failed for `{header}`: {e}");
        }
        let o = self.obs();
        let line = if cfg.fixed { format!("{header} init={}", fmt_list(&self.pos.iter().map(|x| x.1).collect::<Vec<_>>())) } else { header.to_string() };
        (line, format!("case ok {o}"))
    }

    fn exec(&mut self, line: &str) -> (String, String) {
        let op = line.split_whitespace().next().unwrap_or("").to_string();
        let who = kv_u64(line, "who").unwrap_or(ADMIN);
        let pay = kv_u128(line, "pay").unwrap_or(0);
        let _kind = self.cfg.kind;
        let minter = self.minter.clone();
        let coll = self.coll.clone();
        let pos_before = self.pos.clone();
        let m_before = self.m;
        self.last_pick = None;
        let mut wit = String::new();
        let mut idpart = String::new();
        let ok: bool;
        match op.as_str() {
            "t" => {
                let ns = kv_u64(line, "ns").unwrap();
                self.wm().set_time(ns);
                ok = true;
            }
            "mint" | "mint_to" | "mint_for" | "deposit" => {
                let to = kv_opt_u64(line, "to").unwrap_or(None);
                let owner = to.unwrap_or(who);
                let req = kv_u64(line, "id");
                let r = match op.as_str() {
                    "mint" => {
                        let msg = self.mint_msg(who);
                        self.wm().exec(&addr(who), &minter, &msg, &funds(pay))
                    }
                    "mint_to" => self.wm().exec(&addr(who), &minter, &json!({"mint_to":{"recipient": addr(owner)}}), &funds(pay)),
                    "mint_for" => self.wm().exec(&addr(who), &minter, &json!({"mint_for":{"token_id": req.unwrap_or(0), "recipient": addr(owner)}}), &funds(pay)),
                    _ => {
                        let ci = kv_u64(line, "coll").unwrap_or(0) as usize;
                        let src_coll = self.src.get(ci).map(|x| x.1.clone()).unwrap_or_else(|| coll.clone());
                        let inner = json!({"deposit_token":{"recipient": to.map(addr)}});
                        let b64 = cosmwasm_std::to_json_binary(&inner).unwrap();
                        let msg = json!({"send_nft":{"contract": minter, "token_id": kv_u64(line, "src").unwrap_or(0).to_string(), "msg": b64}});
                        self.wm().exec(&addr(who), &src_coll, &msg, &[])
                    }
                };
                ok = r.is_ok();
                let gate = match &r {
                    Ok(_) => true,
                    Err(e) => is_supply_error(e),
                };
                let minted = r.as_ref().ok().and_then(|r| self.minted_id(r));
                let reported = r.as_ref().ok().and_then(|r| self.reported_id(r));
                let o = self.obs();
                // ---- witnesses
                let removed: Vec<u64> = pos_before.iter().filter(|(p, _)| !self.pos.iter().any(|(q, _)| q == p)).map(|x| x.0).collect();
                let p = if ok && removed.len() == 1 { removed[0] } else { 0 };
                if self.cfg.fixed && ok && removed.len() == 1 {
                    self.last_pick = pos_before.iter().position(|(q, _)| *q == p).map(|i| (i, pos_before.len()));
                }
                match op.as_str() {
                    "mint" | "mint_to" => wit = if self.cfg.fixed { format!(" gate={} pos={p} owner={owner}", gate as u8) } else { format!(" gate={} owner={owner}", gate as u8) },
                    "mint_for" => wit = format!(" gate={} owner={owner}", gate as u8),
                    _ => {
                        let eff = if ok { minted.is_some() || !removed.is_empty() } else { gate };
                        wit = format!(" eff={} gate={} pos={p} owner={owner}", eff as u8, gate as u8);
                    }
                }
                // ---- monitors: direct transcription of the property on the implementation's own trace
                if let (true, Some(id)) = (ok, minted) {
                    idpart = format!("id={id} ");
                    if self.cfg.fixed {
                        let n = self.cfg.n.unwrap_or(0) as u64;
                        if id < 1 || id > n {
                            self.flag(&op, "id-out-of-range", format!("minted token id {id} is not in 1..={n}"));
                        }
                        if self.seen.contains(&id) {
                            self.flag(&op, "duplicate-id", format!("token id {id} minted a second time"));
                        }
                        if m_before == Some(0) {
                            self.flag(&op, "success-at-zero", format!("mint of id {id} succeeded while MintableNumTokens was 0"));
                        }
                        if op == "mint_for" {
                            let own = self.owner_of(id);
                            if Some(id) != req || reported != req || own != Some(owner) {
                                self.flag(&op, "mint-for-mismatch", format!("MintFor requested id {:?} for acct {owner}: collection minted {id}, minter reported {:?}, owner now {:?}", req, reported, own));
                            }
                        }
                        self.seen.insert(id);
                    } else {
                        if id != self.last_seq + 1 {
                            self.flag(&op, "gap-or-repeat", format!("sequential id {id} issued after {}", self.last_seq));
                        }
                        if self.burn_done {
                            self.flag(&op, "mint-after-burn-remaining", format!("id {id} minted after a successful BurnRemaining"));
                        }
                        if m_before == Some(0) {
                            self.flag(&op, "success-at-zero", format!("mint of id {id} succeeded while MintableNumTokens was Some(0)"));
                        }
                        self.last_seq = id;
                        self.successes += 1;
                        if let Some(c) = self.cap {
                            if self.successes > c {
                                self.flag(&op, "supply-above-cap", format!("{} tokens minted, cap is {c}", self.successes));
                            }
                        }
                    }
                } else if ok && op != "deposit" {
                    self.flag(&op, "mint-without-token", "a mint call succeeded but the collection minted nothing".into());
                }
                self.after_monitors(&op);
                return (format!("{line}{wit}"), format!("{} {idpart}{o}", if ok { "ok" } else { "err" }));
            }
            "shuffle" => {
                let r = self.wm().exec(&addr(who), &minter, &json!({"shuffle":{}}), &funds(pay));
                ok = r.is_ok();
                let gate = r.as_ref().map(|_| true).unwrap_or_else(|e| is_supply_error(e));
                let o = self.obs();
                let perm: Vec<u64> = if ok { self.pos.iter().map(|x| x.1).collect() } else { vec![] };
                wit = format!(" gate={} perm={}", gate as u8, fmt_list(&perm));
                if ok {
                    let mut a: Vec<u64> = pos_before.iter().map(|x| x.1).collect();
                    let mut b = perm.clone();
                    a.sort();
                    b.sort();
                    let ka: Vec<u64> = pos_before.iter().map(|x| x.0).collect();
                    let kb: Vec<u64> = self.pos.iter().map(|x| x.0).collect();
                    if a != b || ka != kb || self.m != m_before {
                        self.flag(&op, "shuffle-changed-ids", format!("shuffle changed the remaining ids or their number: before {:?} (m={:?}) after {:?} (m={:?})", pos_before, m_before, self.pos, self.m));
                    }
                }
                self.after_monitors(&op);
                return (format!("{line}{wit}"), format!("{} {o}", if ok { "ok" } else { "err" }));
            }
            "purge" | "burn_remaining" | "noise" | "coll_burn" | "coll_transfer" => {
                let r = match op.as_str() {
                    "purge" => self.wm().exec(&addr(who), &minter, &json!({"purge":{}}), &funds(pay)),
                    "burn_remaining" => self.wm().exec(&addr(who), &minter, &json!({"burn_remaining":{}}), &funds(pay)),
                    "coll_burn" => self.wm().exec(&addr(who), &coll, &json!({"burn":{"token_id": kv_u64(line, "id").unwrap_or(0).to_string()}}), &[]),
                    "coll_transfer" => {
                        let to = kv_u64(line, "to").unwrap_or(STRANGER);
                        self.wm().exec(&addr(who), &coll, &json!({"transfer_nft":{"recipient": addr(to), "token_id": kv_u64(line, "id").unwrap_or(0).to_string()}}), &[])
                    }
                    _ => {
                        let arg = kv_u128(line, "arg").unwrap_or(0);
                        match kv(line, "what").unwrap_or("") {
                            "pal" => self.wm().exec(&addr(who), &minter, &json!({"update_per_address_limit":{"per_address_limit": arg as u32}}), &[]),
                            "price" => self.wm().exec(&addr(who), &minter, &json!({"update_mint_price":{"price": arg.to_string()}}), &[]),
                            "start" => self.wm().exec(&addr(who), &minter, &json!({"update_start_time": arg.to_string()}), &[]),
                            "end" => self.wm().exec(&addr(who), &minter, &json!({"update_end_time": arg.to_string()}), &[]),
                            "tstart" => self.wm().exec(&addr(who), &minter, &json!({"update_start_trading_time": null}), &[]),
                            "fmax" => {
                                let f = self.factory.clone();
                                let msg = json!({"update_params":{"extension":{"max_token_limit": arg as u32}}});
                                self.wm().sudo(&f, &msg)
                            }
                            _ => Err("unknown noise".into()),
                        }
                    }
                };
                ok = r.is_ok();
                let gate = match &r {
                    Ok(_) => true,
                    Err(e) => is_supply_error(e) || ((op == "coll_burn" || op == "coll_transfer") && e.to_lowercase().contains("not found")),
                };
                wit = format!(" gate={}", gate as u8);
                if ok && op == "burn_remaining" {
                    self.burn_done = true;
                    self.burned += pos_before.len() as u64;
                }
            }
            _ => {
                return (line.to_string(), "bad-op".into());
            }
        }
        let o = self.obs();
        self.after_monitors(&op);
        (format!("{line}{wit}"), format!("{} {o}", if ok { "ok" } else { "err" }))
    }

    fn monitor(&mut self) -> Option<(String, String)> {
        self.viol.take()
    }
}

impl S {
    /// state predicates of the property, evaluated on the implementation's observations after every op
    fn after_monitors(&mut self, op: &str) {
        if self.cfg.fixed {
            let n = self.cfg.n.unwrap_or(0) as u64;
            let want = n as i128 - self.seen.len() as i128 - self.burned as i128;
            if self.m.map(|x| x as i128) != Some(want) {
                self.flag(op, "mintable-miscount", format!("MintableNumTokens = {:?} but num_tokens {n} - minted {} - burned {} = {want}", self.m, self.seen.len(), self.burned));
            }
            if let Some(bad) = self.pos.iter().find(|(_, id)| self.seen.contains(id)) {
                self.flag(op, "minted-id-still-mintable", format!("position {} still offers id {} which was already minted", bad.0, bad.1));
            }
            if let Some(bad) = self.toks.iter().find(|(id, _)| !self.seen.contains(id)) {
                self.flag(op, "collection-token-not-minted", format!("collection holds token {} which this minter never minted", bad.0));
            }
        } else {
            if self.cfg.kind != MinterKind::Base {
                let total = self.q_count(&self.minter, json!({"total_mint_count":{}}));
                if total != Some(self.successes) {
                    self.flag(op, "total-mint-miscount", format!("TotalMintCount = {:?}, successful mints = {}", total, self.successes));
                }
            }
            if let Some(bad) = self.toks.iter().find(|(id, _)| *id < 1 || *id > self.last_seq) {
                self.flag(op, "collection-token-not-issued", format!("collection holds token {} but ids issued are 1..={}", bad.0, self.last_seq));
            }
        }
    }
}

// ------------------------------------------------------------------------------------------------ generators

struct Gen {
    now: u64,
    pal: u32,
    pub_count: BTreeMap<u64, u32>,
    wl_count: BTreeMap<u64, u32>,
    n_buyers: u64,
    next_src: [u64; 2],
    dep_count: BTreeMap<u64, u32>, // deposits pending per recipient (token-merge)
}

fn step(ses: &mut Session, sut: &mut S, line: String) -> bool {
    ses.step(sut, &line).starts_with("ok")
}

fn mark_op(ses: &mut Session, sut: &S, op: &str, ok: bool, class: &str) {
    let zero = match sut.m {
        Some(0) => "zero",
        Some(_) => "pos",
        None => "nocap",
    };
    ses.mark(format!("{}:{}:{}:{}:{}", sut.cfg.kind.name(), op, if ok { "ok" } else { "err" }, class, zero));
    ses.count(&format!("{}:{}:{}", sut.cfg.kind.name(), op, if ok { "ok" } else { "err" }));
}

fn set_time(ses: &mut Session, sut: &mut S, g: &mut Gen, t: u64) {
    if t > g.now {
        g.now = t;
        step(ses, sut, format!("t ns={t}"));
    }
}

fn wl_active(g: &Gen, sut: &S) -> bool {
    sut.cfg.wl && g.now >= WL_START && g.now < WL_END
}

/// one buyer mint (public or whitelist), mostly valid
fn do_buyer_mint(ses: &mut Session, sut: &mut S, g: &mut Gen, rng: &mut Rng) {
    let kind = sut.cfg.kind;
    let wl = wl_active(g, sut);
    let valid = rng.chance(8, 10);
    // pick a buyer
    let who = if kind == MinterKind::Base {
        if valid { ADMIN } else { STRANGER }
    } else if wl {
        let members: Vec<u64> = (0..N_WL_MEMBERS).map(|i| BUYER0 + i).filter(|b| !valid || g.wl_count.get(b).copied().unwrap_or(0) < WL_LIMIT).collect();
        if valid && !members.is_empty() { *rng.pick(&members) } else { BUYER0 + rng.below(g.n_buyers) }
    } else {
        let cand: Vec<u64> = (0..g.n_buyers).map(|i| BUYER0 + i).filter(|b| g.pub_count.get(b).copied().unwrap_or(0) < g.pal).collect();
        if valid && !cand.is_empty() { *rng.pick(&cand) } else { BUYER0 + rng.below(g.n_buyers) }
    };
    if kind == MinterKind::TokenMerge {
        // deposit a source token; recipient either the buyer (explicit) or the admin itself
        let ci = if valid { 0 } else { rng.below(2) as usize };
        let src = g.next_src[ci] + 1;
        let to = if rng.chance(9, 10) { Some(who) } else { None };
        let ok = step(ses, sut, format!("deposit who={ADMIN} to={} src={src} coll={ci}", fmt_opt(&to)));
        if ok {
            g.next_src[ci] = src;
        }
        mark_op(ses, sut, "deposit", ok, if ci == 0 { "listed" } else { "unlisted" });
        if let Some((i, len)) = sut.last_pick {
            ses.mark(format!("pick:{}:len{}", if i < 50 { format!("front{}", i / 10) } else { format!("back{}", (len - 1 - i) / 10) }, (len > 50) as u8 + (len > 100) as u8));
        }
        return;
    }
    let price = if kind == MinterKind::Base { BASE_FEE } else { sut.current_price() };
    let pay = if rng.chance(9, 10) {
        price
    } else {
        *rng.pick(&[0u128, price - 1, price + 1, price * 2])
    };
    let ok = step(ses, sut, format!("mint who={who} pay={pay}"));
    if ok {
        if wl {
            *g.wl_count.entry(who).or_insert(0) += 1;
        } else {
            *g.pub_count.entry(who).or_insert(0) += 1;
        }
    }
    mark_op(ses, sut, if wl { "mint-wl" } else { "mint" }, ok, if pay == price { "exact" } else { "wrongpay" });
    if let Some((i, len)) = sut.last_pick {
        ses.mark(format!("pick:{}:len{}", if i < 50 { format!("front{}", i / 10) } else { format!("back{}", (len - 1 - i) / 10) }, (len > 50) as u8 + (len > 100) as u8));
        ses.count(if i < 50 && len - 1 - i >= 50 { "pick:front-window" } else if i >= 50 { "pick:back-window" } else { "pick:both-windows" });
    }
}

fn do_other_op(ses: &mut Session, sut: &mut S, g: &mut Gen, rng: &mut Rng) {
    let kind = sut.cfg.kind;
    let fixed = sut.cfg.fixed;
    let n = sut.cfg.n.unwrap_or(0) as u64;
    let air = sut.cfg.air;
    let r = rng.below(100);
    let sender = |rng: &mut Rng, privileged: bool| -> u64 {
        if privileged {
            if rng.chance(85, 100) { ADMIN } else if rng.chance(1, 2) { STRANGER } else { BUYER0 + rng.below(3) }
        } else {
            *rng.pick(&[ADMIN, STRANGER, BUYER0, BUYER0 + 1, BUYER0 + 5])
        }
    };
    if kind == MinterKind::Base {
        // base-minter has only Mint; everything else is an unknown message
        match r {
            0..=39 => {
                if let Some((id, own)) = sut.toks.get(rng.below(sut.toks.len().max(1) as u64) as usize).copied() {
                    let who = if rng.chance(7, 10) { own } else { STRANGER };
                    let ok = step(ses, sut, format!("coll_burn who={who} id={id}"));
                    mark_op(ses, sut, "coll_burn", ok, if who == own { "owner" } else { "stranger" });
                }
            }
            40..=59 => {
                if let Some((id, own)) = sut.toks.get(rng.below(sut.toks.len().max(1) as u64) as usize).copied() {
                    let ok = step(ses, sut, format!("coll_transfer who={own} to={} id={id}", BUYER0 + rng.below(4)));
                    mark_op(ses, sut, "coll_transfer", ok, "owner");
                }
            }
            60..=69 => {
                let ok = step(ses, sut, format!("burn_remaining who={ADMIN}"));
                mark_op(ses, sut, "burn_remaining", ok, "no-such-msg");
            }
            70..=79 => {
                let ok = step(ses, sut, format!("mint_to who={ADMIN} to={} pay={BASE_FEE}", BUYER0));
                mark_op(ses, sut, "mint_to", ok, "no-such-msg");
            }
            _ => {
                let t = g.now + rng.range(1, 50) * SEC;
                set_time(ses, sut, g, t);
            }
        }
        return;
    }
    match r {
        0..=17 => {
            // MintTo
            let who = sender(rng, true);
            let to = BUYER0 + rng.below(g.n_buyers);
            let pay = if rng.chance(9, 10) { air } else { air + 1 };
            let ok = step(ses, sut, format!("mint_to who={who} to={to} pay={pay}"));
            mark_op(ses, sut, "mint_to", ok, if who == ADMIN { "admin" } else { "stranger" });
            if let Some((i, len)) = sut.last_pick {
                ses.mark(format!("pick:{}:len{}", if i < 50 { format!("front{}", i / 10) } else { format!("back{}", (len - 1 - i) / 10) }, (len > 50) as u8 + (len > 100) as u8));
            }
        }
        18..=35 if fixed => {
            // MintFor: remaining id / sold id / 0 / n+1 / huge
            let who = sender(rng, true);
            let to = BUYER0 + rng.below(g.n_buyers);
            let c = rng.below(10);
            let (id, class) = if c < 6 && !sut.pos.is_empty() {
                let k = rng.below(sut.pos.len() as u64) as usize;
                // first, last, or any position
                let k = match rng.below(4) {
                    0 => 0,
                    1 => sut.pos.len() - 1,
                    _ => k,
                };
                (sut.pos[k].1, "remaining")
            } else if c < 8 && !sut.seen.is_empty() {
                (*sut.seen.iter().nth(rng.below(sut.seen.len() as u64) as usize).unwrap(), "sold")
            } else {
                match rng.below(4) {
                    0 => (0, "zero"),
                    1 => (n + 1, "n+1"),
                    2 => (n, "n"),
                    _ => (4_000_000_000, "huge"),
                }
            };
            let pay = if rng.chance(9, 10) { air } else { air + 1 };
            let ok = step(ses, sut, format!("mint_for who={who} to={to} id={id} pay={pay}"));
            mark_op(ses, sut, "mint_for", ok, &format!("{class}:{}", if who == ADMIN { "admin" } else { "stranger" }));
        }
        36..=47 if fixed => {
            let who = sender(rng, false);
            let shf = sut.cfg.shf;
            let pay = if rng.chance(85, 100) { shf } else { *rng.pick(&[0, shf - 1, shf + 1]) };
            let ok = step(ses, sut, format!("shuffle who={who} pay={pay}"));
            mark_op(ses, sut, "shuffle", ok, if pay == shf { "fee" } else { "wrongfee" });
        }
        48..=53 => {
            let who = sender(rng, false);
            let ok = step(ses, sut, format!("purge who={who}"));
            mark_op(ses, sut, "purge", ok, "any");
        }
        54..=56 => {
            // BurnRemaining by a non-admin (must fail) — the admin's burn is scheduled by the case driver
            let who = if rng.chance(1, 2) { STRANGER } else { BUYER0 };
            let ok = step(ses, sut, format!("burn_remaining who={who}"));
            mark_op(ses, sut, "burn_remaining", ok, "stranger");
        }
        57..=68 => {
            // a holder (or somebody else) burns a token in the collection
            let c = rng.below(10);
            if c < 8 && !sut.toks.is_empty() {
                let (id, own) = sut.toks[rng.below(sut.toks.len() as u64) as usize];
                let who = if c < 6 { own } else { *rng.pick(&[ADMIN, STRANGER]) };
                let ok = step(ses, sut, format!("coll_burn who={who} id={id}"));
                mark_op(ses, sut, "coll_burn", ok, if who == own { "owner" } else { "not-owner" });
            } else {
                let id = if fixed && !sut.pos.is_empty() { sut.pos[0].1 } else { n + 7 };
                let ok = step(ses, sut, format!("coll_burn who={STRANGER} id={id}"));
                mark_op(ses, sut, "coll_burn", ok, "no-such-token");
            }
        }
        69..=74 => {
            if !sut.toks.is_empty() {
                let (id, own) = sut.toks[rng.below(sut.toks.len() as u64) as usize];
                let who = if rng.chance(8, 10) { own } else { STRANGER };
                let ok = step(ses, sut, format!("coll_transfer who={who} to={} id={id}", BUYER0 + rng.below(g.n_buyers)));
                mark_op(ses, sut, "coll_transfer", ok, if who == own { "owner" } else { "not-owner" });
            }
        }
        75..=84 => {
            let t = g.now + if rng.chance(1, 2) { rng.range(1, 30) * SEC } else { rng.range(1, 3) };
            set_time(ses, sut, g, t);
        }
        _ => {
            // messages that must not touch the supply state
            let who = sender(rng, true);
            let (what, arg): (&str, u128) = match rng.below(6) {
                0 => ("pal", rng.range(1, 4) as u128),
                1 => ("price", *rng.pick(&[PRICE, PRICE - 10_000_000, 50_000_000, 49_999_999])),
                2 => ("start", (g.now + rng.range(0, 100) * SEC) as u128),
                3 => ("end", (g.now + rng.range(0, 2000) * SEC) as u128),
                4 => ("fmax", rng.range(1, 12) as u128),
                _ => ("tstart", 0),
            };
            let who = if what == "fmax" { ADMIN } else { who };
            let ok = step(ses, sut, format!("noise who={who} what={what} arg={arg}"));
            if ok && what == "pal" {
                g.pal = arg as u32;
            }
            mark_op(ses, sut, &format!("noise-{what}"), ok, if who == ADMIN { "admin" } else { "stranger" });
        }
    }
}

fn new_gen(sut: &S) -> Gen {
    Gen {
        now: T0,
        pal: sut.cfg.pal,
        pub_count: BTreeMap::new(),
        wl_count: BTreeMap::new(),
        n_buyers: sut.cfg.n.unwrap_or(sut.cfg.fmax.min(200)) as u64 + 8,
        next_src: [0, 0],
        dep_count: BTreeMap::new(),
    }
}

/// sell a collection out completely (or burn the rest), interleaving everything else, then poke the sold-out state
fn run_case(ses: &mut Session, sut: &mut S, rng: &mut Rng, header: &str, max_ops: usize) {
    ses.begin_case(sut, header);
    let mut g = new_gen(sut);
    let _ = &g.dep_count;
    let kind = sut.cfg.kind;
    let fixed = sut.cfg.fixed;
    ses.count(&format!("case:{}", kind.name()));
    ses.mark(format!("case:{}:n{}:end{}:wl{}:air{}", kind.name(), fmt_opt(&sut.cfg.n), sut.cfg.has_end as u8, sut.cfg.wl as u8, (sut.cfg.air > 0) as u8));
    // before anything is open
    if rng.chance(1, 2) {
        do_buyer_mint(ses, sut, &mut g, rng);
    }
    if rng.chance(1, 3) {
        do_other_op(ses, sut, &mut g, rng);
    }
    if sut.cfg.wl {
        let t = *rng.pick(&[WL_START - 1, WL_START, WL_START + 1]);
        set_time(ses, sut, &mut g, t);
        for _ in 0..rng.range(1, 7) {
            if rng.chance(3, 4) {
                do_buyer_mint(ses, sut, &mut g, rng);
            } else {
                do_other_op(ses, sut, &mut g, rng);
            }
        }
        let t = *rng.pick(&[WL_END - 1, WL_END]);
        set_time(ses, sut, &mut g, t);
        do_buyer_mint(ses, sut, &mut g, rng);
    }
    // exact boundary of the public start
    let t = *rng.pick(&[START - 1, START, START + 1, START + 1]);
    set_time(ses, sut, &mut g, t);
    do_buyer_mint(ses, sut, &mut g, rng);
    set_time(ses, sut, &mut g, START + 1);
    // plan: maybe an admin BurnRemaining somewhere along the way
    let total = sut.cap.unwrap_or(rng.range(3, 40));
    let burn_at: Option<u64> = if kind != MinterKind::Base && rng.chance(3, 10) { Some(rng.below(total + 1)) } else { None };
    let mut burned = false;
    let mut ops = 0usize;
    let done_target = |sut: &S| -> bool {
        if fixed || sut.cap.is_some() { sut.m == Some(0) } else { sut.successes >= total }
    };
    while ops < max_ops && !done_target(sut) {
        ops += 1;
        let minted_so_far = if fixed { sut.seen.len() as u64 } else { sut.successes };
        if let (Some(b), false) = (burn_at, burned) {
            if minted_so_far >= b {
                burned = true;
                if kind.is_open_edition() && sut.cfg.has_end {
                    // open edition: only after the end time; probe the exact boundary first
                    let t = *rng.pick(&[END - 1, END, END + 1]);
                    set_time(ses, sut, &mut g, t);
                    let ok = step(ses, sut, format!("burn_remaining who={ADMIN}"));
                    mark_op(ses, sut, "burn_remaining", ok, "admin-at-end-boundary");
                    set_time(ses, sut, &mut g, END + 1);
                }
                let ok = step(ses, sut, format!("burn_remaining who={ADMIN}"));
                mark_op(ses, sut, "burn_remaining", ok, "admin");
                continue;
            }
        }
        if rng.chance(60, 100) {
            do_buyer_mint(ses, sut, &mut g, rng);
        } else {
            do_other_op(ses, sut, &mut g, rng);
        }
    }
    ses.count(if done_target(sut) { "case:reached-zero-or-target" } else { "case:cut-by-op-budget" });
    // poke the final state: nothing may be minted at zero / after a burn
    let tail = rng.range(4, 9);
    for i in 0..tail {
        match i {
            0 => do_buyer_mint(ses, sut, &mut g, rng),
            1 => {
                let ok = step(ses, sut, format!("mint_to who={ADMIN} to={} pay={}", BUYER0 + 1, sut.cfg.air));
                mark_op(ses, sut, "mint_to", ok, "tail");
            }
            2 if fixed => {
                let id = sut.seen.iter().next().copied().unwrap_or(1);
                let ok = step(ses, sut, format!("mint_for who={ADMIN} to={} id={id} pay={}", BUYER0 + 2, sut.cfg.air));
                mark_op(ses, sut, "mint_for", ok, "tail-sold");
            }
            3 if fixed => {
                let ok = step(ses, sut, format!("shuffle who={BUYER0} pay={}", sut.cfg.shf));
                mark_op(ses, sut, "shuffle", ok, "tail");
            }
            4 => {
                let ok = step(ses, sut, format!("purge who={STRANGER}"));
                mark_op(ses, sut, "purge", ok, "tail");
            }
            5 => {
                let ok = step(ses, sut, format!("burn_remaining who={ADMIN}"));
                mark_op(ses, sut, "burn_remaining", ok, "tail");
            }
            _ => {
                if rng.chance(1, 2) {
                    do_buyer_mint(ses, sut, &mut g, rng)
                } else {
                    do_other_op(ses, sut, &mut g, rng)
                }
            }
        }
    }
    ses.end_case();
}

fn header_for(rng: &mut Rng, kind: MinterKind, n_choice: Option<u32>) -> String {
    let ns = [1u32, 2, 3, 7, 50, 51, 101];
    let pick_n = |rng: &mut Rng| -> u32 {
        match n_choice {
            Some(n) => n,
            None => {
                // small collections often, the window-crossing sizes regularly
                if rng.chance(6, 10) { *rng.pick(&ns[..4]) } else { *rng.pick(&ns[4..]) }
            }
        }
    };
    let air = if rng.chance(1, 2) { 0 } else { 10_000_000 };
    let shf = *rng.pick(&[500_000_000u128, 1_000_000]);
    let idx = kind.idx();
    if kind.is_vending() || kind == MinterKind::TokenMerge {
        let n = pick_n(rng);
        let pal = rng.range(1, 3);
        let wl = kind.is_vending() && rng.chance(4, 10);
        let need = if kind == MinterKind::TokenMerge { rng.range(1, 2) } else { 1 };
        let fmax = *rng.pick(&[n, n + 1, 10_000]);
        format!("case fam=fixed kind={idx} n={n} fmax={fmax} pal={pal} wl={} air={air} shf={shf} need={need}", wl as u8)
    } else if kind == MinterKind::Base {
        format!("case fam=seq kind={idx} num=- fmax=10000 end=0 pal=1 wl=0 air=0 shf=0 need=1")
    } else {
        // open edition: configured cap, or none (then an end time is mandatory and the airdrop price must be non-zero)
        let capped = rng.chance(7, 10);
        let wl = rng.chance(3, 10);
        if capped {
            let n = pick_n(rng);
            let fmax = *rng.pick(&[n, n + 1, 10_000]);
            let pal = rng.range(1, 50).min(50);
            format!("case fam=seq kind={idx} num={n} fmax={fmax} end={} pal={pal} wl={} air={air} shf=0 need=1", rng.below(2), wl as u8)
        } else {
            let fmax = *rng.pick(&[1u32, 2, 3, 7, 50, 51]);
            let pal = rng.range(1, 50);
            format!("case fam=seq kind={idx} num=- fmax={fmax} end=1 pal={pal} wl={} air=10000000 shf=0 need=1", wl as u8)
        }
    }
}

/// every op sequence of a fixed length over a small alphabet, on tiny collections (model validation, thorough tier)
fn exhaustive(ses: &mut Session, sut: &mut S, kind: MinterKind, n: u32, depth: usize) {
    let fixed = kind.is_vending() || kind == MinterKind::TokenMerge;
    let b0 = BUYER0 + 5;
    let b1 = BUYER0 + 6;
    let alphabet: Vec<String> = if kind == MinterKind::TokenMerge {
        vec![
            format!("deposit who={ADMIN} to={b0} src=@ coll=0"),
            format!("mint_to who={ADMIN} to={b1} pay=0"),
            format!("mint_for who={ADMIN} to={b0} id=1 pay=0"),
            format!("mint_for who={ADMIN} to={b0} id={n} pay=0"),
            format!("shuffle who={b1} pay=500000000"),
            format!("burn_remaining who={ADMIN}"),
            format!("purge who={b1}"),
            format!("coll_burn who={b0} id=1"),
        ]
    } else if fixed {
        vec![
            format!("mint who={b0} pay={PRICE}"),
            format!("mint_to who={ADMIN} to={b1} pay=0"),
            format!("mint_for who={ADMIN} to={b0} id=1 pay=0"),
            format!("mint_for who={ADMIN} to={b0} id={n} pay=0"),
            format!("shuffle who={b1} pay=500000000"),
            format!("burn_remaining who={ADMIN}"),
            format!("purge who={b1}"),
            format!("coll_burn who={b0} id=1"),
        ]
    } else {
        vec![
            format!("mint who={b0} pay={PRICE}"),
            format!("mint who={b1} pay={PRICE}"),
            format!("mint_to who={ADMIN} to={b1} pay=0"),
            format!("burn_remaining who={ADMIN}"),
            format!("purge who={b1}"),
            format!("coll_burn who={b0} id=1"),
            format!("noise who={ADMIN} what=fmax arg=1"),
        ]
    };
    let k = alphabet.len();
    let total = k.pow(depth as u32);
    let header = if fixed {
        format!("case fam=fixed kind={} n={n} fmax=10000 pal=3 wl=0 air=0 shf=500000000 need=1 exhaustive=1", kind.idx())
    } else {
        format!("case fam=seq kind={} num={n} fmax=10000 end=0 pal=3 wl=0 air=0 shf=0 need=1 exhaustive=1", kind.idx())
    };
    for code in 0..total {
        ses.begin_case(sut, &header);
        step(ses, sut, format!("t ns={}", START + 1));
        let mut c = code;
        let mut src = 0u64;
        for _ in 0..depth {
            let mut l = alphabet[c % k].clone();
            c /= k;
            if l.contains("src=@") {
                src += 1;
                l = l.replace("src=@", &format!("src={src}"));
            }
            step(ses, sut, l);
        }
        ses.end_case();
    }
    ses.mark(format!("exhaustive:{}:n{n}:depth{depth}", kind.name()));
    ses.note(format!("exhaustive: all {total} op sequences of length {depth} over {k} ops on {} with n={n}", kind.name()));
}

fn main() {
    let mut ses = Session::new("C01");
    let mut sut = S::new();
    if ses.maybe_replay(&mut sut) {
        ses.finish(&mut sut);
    }
    let mut rng = ses.rng.fork();

    // 1. every minter kind × every collection size of the window logic, sold out completely
    let sizes: [u32; 7] = [1, 2, 3, 7, 50, 51, 101];
    let big_rounds = ses.scale(2, 12);
    for _round in 0..big_rounds {
        for kind in ALL_MINTERS {
            if kind == MinterKind::Base {
                continue;
            }
            for &n in &sizes {
                let h = header_for(&mut rng, kind, Some(n));
                run_case(&mut ses, &mut sut, &mut rng, &h, 12 * n as usize + 40);
            }
        }
    }
    // 2. random configurations (incl. uncapped open editions with a tiny factory cap, base minter)
    let n_random = ses.scale(700, 12000);
    for _ in 0..n_random {
        let kind = *rng.pick(&ALL_MINTERS);
        let h = header_for(&mut rng, kind, None);
        run_case(&mut ses, &mut sut, &mut rng, &h, 400);
    }
    // 3. exhaustive small scopes
    if ses.tier() == Tier::Thorough {
        exhaustive(&mut ses, &mut sut, MinterKind::Vending, 2, 4);
        exhaustive(&mut ses, &mut sut, MinterKind::VendingFlexFeatured, 3, 3);
        exhaustive(&mut ses, &mut sut, MinterKind::VendingMerkle, 3, 3);
        exhaustive(&mut ses, &mut sut, MinterKind::TokenMerge, 2, 4);
        exhaustive(&mut ses, &mut sut, MinterKind::OpenEdition, 2, 4);
        exhaustive(&mut ses, &mut sut, MinterKind::OpenEditionFlex, 2, 4);
        exhaustive(&mut ses, &mut sut, MinterKind::OpenEditionMerkle, 2, 4);
    } else {
        exhaustive(&mut ses, &mut sut, MinterKind::Vending, 2, 2);
        exhaustive(&mut ses, &mut sut, MinterKind::OpenEdition, 2, 2);
    }
    ses.note("collection sizes n ∈ {1,2,3,7,50,51,101} (first/last-50 pick window crossed); open editions with configured cap, with the factory cap captured at creation (tiny factory limits), and uncapped (-wl-flex); whitelist (plain/flex/merkle) stages before the public start; exact instants start-1ns/start/start+1ns, wl start/end, end-1/end/end+1 for BurnRemaining");
    ses.note("gate witness: 0 iff the implementation failed with an error that is not one of {sold out, not sold out, already sold, invalid token id, already claimed, panic}; the model must then fail too (trivially) — for every other outcome ok/err and the full observation vector must agree");
    ses.finish(&mut sut);
}
