//! C01 — supply accounting of all 11 minters. The REAL contracts (created through their factories inside one
//! cw-multi-test App) vs the Lean aspect model `LP.Supply` (Model/Supply.lean), plus property monitors.
//!
//! Protocol: see Driver/C01.lean. Harness-side words on a line: `who=` sender, `to=` recipient, `pay=` funds (ustars),
//! `id=` token id, `src=`/`coll=` source token / source collection of a token-merge deposit, `what=`/`arg=` of a noise op.
//! Witness words appended for the model: `gate=`, `pos=` (position whose entry disappeared from the `mt` map), `owner=`,
//! `perm=` (ids by position after a shuffle), `eff=` (a deposit reached the mint step), `init=`.
//!
//! Round 3:
//! * `gate` no longer depends on error TEXT. The harness keeps its own ghost bookkeeping (ids it saw appear as the result of
//!   its own mint calls, what it burned, how many mints succeeded, who owns what) and computes BEFORE the call whether the
//!   supply guards must reject it (`ghost_rejects`, the Rust twin of `LP.Supply.*.supplyRejects`). `gate = ok || ghost_rejects`:
//!   a failure the ghost attributes to supply must be a failure of the model too (`C01_supplyRejects_sound`); any other failure
//!   is a closed gate (the model fails trivially, the state must be unchanged). Error texts survive only in the DRIFT field `sup=`.
//! * the minted id is the set difference of the collection's `AllTokens` after/before the call, not an event attribute.
//! * raw state is read through the crates' typed `state::` constants (`MINTABLE_TOKEN_POSITIONS`, `TOKEN_INDEX`).
//! * output lines are `primary ## drift` (owners, reported id attribute, error-text class are drift).
//! * the message surface is enumerated at RUN TIME from the crates' JSON schemas (`schema_for!(ExecuteMsg)`, `sg4::SudoMsg`):
//!   every variant must have been sent (coverage floor `sent:<kind>:<variant>;`), variants this file has no named op for are
//!   sent as raw JSON built from the schema (`noise what=x:<variant>`), under the full observation vector and all monitors.
use cosmwasm_std::{Addr, Order, Storage};
use lp_harness::minters::*;
use lp_harness::world::{addr, addr_id};
use lp_harness::*;
use serde_json::{json, Map, Value};
use sha2::{Digest, Sha256};
use std::collections::{BTreeMap, BTreeSet};

const ADMIN: u64 = 10;
const WL_ADMIN: u64 = 11;
const STRANGER: u64 = 66;
const BUYER0: u64 = 100;
const SEC: u64 = 1_000_000_000;
const T0: u64 = GENESIS + 1000 * SEC;
const WL_START: u64 = T0 + 100 * SEC;
const WL_END: u64 = T0 + 200 * SEC;
const START: u64 = T0 + 200 * SEC;
const END: u64 = START + 1000 * SEC;
const PRICE: u128 = 100_000_000;
const WL_PRICE: u128 = 60_000_000;
const WL_LIMIT: u32 = 2;
const BASE_FEE: u128 = 5_000_000; // min_mint_price 50_000_000 * mint_fee_bps 1000 / 10_000
const N_WL_MEMBERS: u64 = 4;

#[derive(Clone, Debug)]
struct Cfg {
    fixed: bool,
    kind: MinterKind,
    n: Option<u32>,
    fmax: u32,
    has_end: bool,
    pal: u32,
    wl: bool,
    air: u128,
    shf: u128,
    need: u32,
}

fn parse_cfg(h: &str) -> Cfg {
    Cfg {
        fixed: kv(h, "fam") == Some("fixed"),
        kind: MinterKind::from_idx(kv_u64(h, "kind").expect("kind") as usize),
        n: if kv(h, "fam") == Some("fixed") { Some(kv_u64(h, "n").expect("n") as u32) } else { kv_opt_u64(h, "num").expect("num").map(|x| x as u32) },
        fmax: kv_u64(h, "fmax").unwrap_or(10_000) as u32,
        has_end: kv_bool(h, "end").unwrap_or(false),
        pal: kv_u64(h, "pal").unwrap_or(3) as u32,
        wl: kv_bool(h, "wl").unwrap_or(false),
        air: kv_u128(h, "air").unwrap_or(0),
        shf: kv_u128(h, "shf").unwrap_or(500_000_000),
        need: kv_u64(h, "need").unwrap_or(1) as u32,
    }
}

// ------------------------------------------------------------------------------------------------ merkle (sorted-pair sha256, as whitelist-merkletree verifies)

fn sha(b: &[u8]) -> [u8; 32] {
    Sha256::digest(b).into()
}
fn pair(a: [u8; 32], b: [u8; 32]) -> [u8; 32] {
    let mut v = [a, b];
    v.sort_unstable();
    sha(&v.concat())
}
/// (root hex, proofs per leaf)
fn merkle(leaves: &[String]) -> (String, Vec<Vec<String>>) {
    let mut level: Vec<[u8; 32]> = leaves.iter().map(|l| sha(l.as_bytes())).collect();
    let mut idx: Vec<usize> = (0..leaves.len()).collect();
    let mut proofs: Vec<Vec<String>> = vec![vec![]; leaves.len()];
    while level.len() > 1 {
        let mut next = vec![];
        for i in (0..level.len()).step_by(2) {
            if i + 1 < level.len() {
                next.push(pair(level[i], level[i + 1]));
            } else {
                next.push(level[i]);
            }
        }
        for (leaf, pos) in idx.iter_mut().enumerate() {
            let sib = *pos ^ 1;
            if sib < level.len() {
                proofs[leaf].push(hex::encode(level[sib]));
            }
            *pos /= 2;
        }
        level = next;
    }
    (hex::encode(level[0]), proofs)
}

// ------------------------------------------------------------------------------------------------ run-time message surface (JSON schemas of the crates)

/// message variants this file has a NAMED op for (everything else found in a schema is sent as raw JSON, `noise what=x:<v>`)
const KNOWN_EXEC: [&str; 15] = [
    "mint", "mint_to", "mint_for", "shuffle", "purge", "burn_remaining", "receive_nft", "set_whitelist", "update_mint_price", "update_start_time",
    "update_end_time", "update_start_trading_time", "update_per_address_limit", "update_discount_price", "remove_discount_price",
];
const KNOWN_SUDO: [&str; 1] = ["update_status"];

fn exec_schema(kind: MinterKind) -> Value {
    use cosmwasm_schema::schema_for;
    let r = match kind {
        MinterKind::Vending => schema_for!(vending_minter::msg::ExecuteMsg),
        MinterKind::VendingFeatured => schema_for!(vending_minter_featured::msg::ExecuteMsg),
        MinterKind::VendingFlex => schema_for!(vending_minter_wl_flex::msg::ExecuteMsg),
        MinterKind::VendingFlexFeatured => schema_for!(vending_minter_wl_flex_featured::msg::ExecuteMsg),
        MinterKind::VendingMerkle => schema_for!(vending_minter_merkle_wl::msg::ExecuteMsg),
        MinterKind::VendingMerkleFeatured => schema_for!(vending_minter_merkle_wl_featured::msg::ExecuteMsg),
        MinterKind::OpenEdition => schema_for!(open_edition_minter::msg::ExecuteMsg),
        MinterKind::OpenEditionFlex => schema_for!(open_edition_minter_wl_flex::msg::ExecuteMsg),
        MinterKind::OpenEditionMerkle => schema_for!(open_edition_minter_merkle_wl::msg::ExecuteMsg),
        MinterKind::TokenMerge => schema_for!(token_merge_minter::msg::ExecuteMsg),
        MinterKind::Base => schema_for!(base_minter::msg::ExecuteMsg),
    };
    serde_json::to_value(&r).expect("schema to json")
}
fn sudo_schema() -> Value {
    serde_json::to_value(&cosmwasm_schema::schema_for!(sg4::SudoMsg)).expect("schema to json")
}

/// (variant name in snake case, schema of its payload; None for a unit variant serialised as a bare string)
fn schema_variants(root: &Value) -> Vec<(String, Option<Value>)> {
    let mut out = vec![];
    let mut alts: Vec<Value> = vec![];
    for k in ["oneOf", "anyOf"] {
        if let Some(a) = root[k].as_array() {
            alts.extend(a.iter().cloned());
        }
    }
    if alts.is_empty() {
        alts.push(root.clone());
    }
    for alt in alts {
        if let Some(en) = alt["enum"].as_array() {
            for e in en {
                if let Some(s) = e.as_str() {
                    out.push((s.to_string(), None));
                }
            }
        } else if let Some(req) = alt["required"].as_array() {
            if let Some(name) = req.first().and_then(|x| x.as_str()) {
                out.push((name.to_string(), Some(alt["properties"][name].clone())));
            }
        }
    }
    out.sort_by(|a, b| a.0.cmp(&b.0));
    out.dedup_by(|a, b| a.0 == b.0);
    out
}

/// minimal JSON value for a schema: integers = k, strings = k (or an address when the field name looks like one), options = null
fn fill(s: &Value, defs: &Value, k: u64, hint: &str, depth: u32) -> Value {
    if depth > 8 {
        return Value::Null;
    }
    if let Some(r) = s["$ref"].as_str() {
        let name = r.rsplit('/').next().unwrap_or("");
        return fill(&defs[name], defs, k, hint, depth + 1);
    }
    if let Some(a) = s["allOf"].as_array() {
        if let Some(f) = a.first() {
            return fill(f, defs, k, hint, depth + 1);
        }
    }
    for key in ["anyOf", "oneOf"] {
        if let Some(a) = s[key].as_array() {
            if a.iter().any(|x| x["type"] == "null") {
                return Value::Null;
            }
            if let Some(f) = a.first() {
                if let Some(req) = f["required"].as_array().and_then(|r| r.first()).and_then(|x| x.as_str()) {
                    let mut m = Map::new();
                    m.insert(req.to_string(), fill(&f["properties"][req], defs, k, req, depth + 1));
                    return Value::Object(m);
                }
                return fill(f, defs, k, hint, depth + 1);
            }
        }
    }
    if let Some(en) = s["enum"].as_array() {
        return en.first().cloned().unwrap_or(Value::Null);
    }
    let ty: String = match &s["type"] {
        Value::String(t) => t.clone(),
        Value::Array(ts) => {
            if ts.iter().any(|t| t == "null") {
                return Value::Null;
            }
            ts.first().and_then(|t| t.as_str()).unwrap_or("").to_string()
        }
        _ => String::new(),
    };
    match ty.as_str() {
        "integer" | "number" => json!(k),
        "string" => {
            let h = hint.to_lowercase();
            if ["addr", "recipient", "whitelist", "contract", "owner", "sender", "admin"].iter().any(|w| h.contains(w)) {
                json!(addr(BUYER0))
            } else {
                json!(k.to_string())
            }
        }
        "boolean" => json!(k % 2 == 1),
        "array" => json!([]),
        "object" => {
            let mut m = Map::new();
            if let Some(req) = s["required"].as_array() {
                for r in req.iter().filter_map(|x| x.as_str()) {
                    m.insert(r.to_string(), fill(&s["properties"][r], defs, k, r, depth + 1));
                }
            }
            Value::Object(m)
        }
        _ => Value::Null,
    }
}

/// raw message for a variant found in a schema
fn raw_variant_msg(root: &Value, name: &str, k: u64) -> Option<Value> {
    let defs = &root["definitions"];
    schema_variants(root).into_iter().find(|(n, _)| n == name).map(|(n, sch)| match sch {
        None => Value::String(n),
        Some(s) => {
            let mut m = Map::new();
            m.insert(n.clone(), fill(&s, defs, k, &n, 0));
            Value::Object(m)
        }
    })
}

fn top_key(msg: &Value) -> String {
    match msg {
        Value::String(s) => s.clone(),
        Value::Object(m) => m.keys().next().cloned().unwrap_or_default(),
        _ => String::new(),
    }
}

// ------------------------------------------------------------------------------------------------ "one model for seven crates": source fingerprint (diagnostic only)

const FIXED_CRATES: [&str; 7] = [
    "vending-minter", "vending-minter-featured", "vending-minter-wl-flex", "vending-minter-wl-flex-featured", "vending-minter-merkle-wl", "vending-minter-merkle-wl-featured", "token-merge-minter",
];
/// (function, expected equality pattern over FIXED_CRATES on the tree the model was written against)
const SOURCE_PATTERNS: [(&str, [u8; 7]); 6] = [
    ("execute_shuffle", [0, 0, 0, 0, 0, 0, 1]),          // token-merge reads the fee from un-nested factory params
    ("execute_burn_remaining", [0, 0, 0, 0, 0, 0, 0]),
    ("execute_purge", [0, 0, 1, 1, 0, 0, 0]),            // the flex variants also clear WHITELIST_MINTER_ADDRS
    ("random_token_list", [0, 0, 0, 0, 0, 0, 0]),
    ("random_mintable_token_mapping", [0, 0, 0, 0, 0, 0, 0]),
    ("_execute_mint", [0, 0, 0, 0, 0, 0, 1]),            // supply statements only; token-merge has no payment block in between
];

fn fn_body(src: &str, name: &str) -> Option<String> {
    let pat = format!("fn {name}(");
    let start = src.find(&pat)?;
    let b = src.as_bytes();
    let mut j = start + pat.len() - 1;
    let mut pd = 0i32;
    loop {
        match *b.get(j)? {
            b'(' => pd += 1,
            b')' => pd -= 1,
            b'{' if pd == 0 => break,
            _ => {}
        }
        j += 1;
    }
    let open = j;
    let mut depth = 0i32;
    loop {
        match *b.get(j)? {
            b'{' => depth += 1,
            b'}' => {
                depth -= 1;
                if depth == 0 {
                    break;
                }
            }
            _ => {}
        }
        j += 1;
    }
    Some(src[open..=j].to_string())
}
fn strip_line_comments(t: &str) -> String {
    t.lines().map(|l| l.split("//").next().unwrap_or("")).collect::<Vec<_>>().join("\n")
}
/// re-does the normalised comparison of the supply functions of the 7 fixed-supply crates; a copy that diverged from its
/// siblings in a NEW way is reported as a DRIFT line (never a failure: the harness visits every kind anyway)
fn source_divergence() -> Vec<String> {
    let repo = std::env::var("VERIF_REPO").unwrap_or_else(|_| "/repo".into());
    let mut out = vec![];
    let srcs: Vec<Option<String>> = FIXED_CRATES.iter().map(|c| std::fs::read_to_string(format!("{repo}/contracts/minters/{c}/src/contract.rs")).ok()).collect();
    for (f, want) in SOURCE_PATTERNS {
        let mut norm: Vec<String> = vec![];
        for s in &srcs {
            let body = s.as_ref().and_then(|s| fn_body(s, f)).map(|b| strip_line_comments(&b)).unwrap_or_default();
            let body = if f == "_execute_mint" {
                body.split(';')
                    .filter(|st| ["MINTABLE_NUM_TOKENS", "MINTABLE_TOKEN_POSITIONS", "SoldOut", "InvalidTokenId", "TokenIdAlreadySold", "random_mintable_token_mapping", "position"].iter().any(|w| st.contains(w)))
                    .collect::<Vec<_>>()
                    .join(";")
            } else {
                body
            };
            norm.push(body.chars().filter(|c| !c.is_whitespace()).collect());
        }
        let mut firsts: Vec<&String> = vec![];
        let got: Vec<u8> = norm
            .iter()
            .map(|n| match firsts.iter().position(|x| *x == n) {
                Some(i) => i as u8,
                None => {
                    firsts.push(n);
                    (firsts.len() - 1) as u8
                }
            })
            .collect();
        if got != want || norm.iter().any(|n| n.is_empty()) {
            out.push(format!("{f}: equality pattern over {:?} is {:?}, was {:?}", FIXED_CRATES, got, want));
        }
    }
    out
}

// ------------------------------------------------------------------------------------------------ the system under test

struct S {
    w: Option<World>,
    cfg: Cfg,
    factory: String,
    minter: String,
    coll: String,
    spare_wl: Option<String>,
    src: Vec<(String, String)>, // token-merge: (base minter, collection); [0] listed in mint_tokens, [1] not
    proofs: BTreeMap<u64, Vec<String>>,
    exec_root: Value,
    sudo_root: Value,
    // ---- ghost bookkeeping: facts the harness knows on its own (what it sent, what it saw appear as the result of ITS mint calls)
    seen: BTreeSet<u64>,          // fixed: ids minted so far
    burned: u64,                  // fixed: ids removed by a successful BurnRemaining
    successes: u64,               // seq: successful mints
    last_seq: u64,
    burn_done: bool,
    cap: Option<u64>,
    owners: BTreeMap<u64, u64>,   // token id -> owner, from mints / transfers / burns the harness itself performed
    dep_pending: BTreeMap<u64, u32>, // token-merge: accepted deposits per recipient since its last merge
    has_wl: bool,
    viol: Option<(String, String)>,
    // ---- last observation
    pos: Vec<(u64, u64)>,
    m: Option<u64>,
    toks: Vec<(u64, u64)>,
    cnt: u64,
    minter_part: String,
    coll_part: String,
    last_pick: Option<(usize, usize)>, // (index from front, map length before)
    // ---- for the generator
    sent: Vec<String>,
    eff_surprises: u64,
}

/// error TEXT classification — used ONLY for the drift field `sup=` (never for agreement)
fn is_supply_text(e: &str) -> bool {
    let l = e.to_lowercase();
    l.contains("sold out") || l.contains("already sold") || l.contains("invalid token id") || l.contains("already claimed")
}

macro_rules! by_fixed_kind {
    ($kind:expr, $m:ident, $st:expr) => {
        match $kind {
            MinterKind::Vending => $m!(vending_minter, $st),
            MinterKind::VendingFeatured => $m!(vending_minter_featured, $st),
            MinterKind::VendingFlex => $m!(vending_minter_wl_flex, $st),
            MinterKind::VendingFlexFeatured => $m!(vending_minter_wl_flex_featured, $st),
            MinterKind::VendingMerkle => $m!(vending_minter_merkle_wl, $st),
            MinterKind::VendingMerkleFeatured => $m!(vending_minter_merkle_wl_featured, $st),
            MinterKind::TokenMerge => $m!(token_merge_minter, $st),
            _ => vec![],
        }
    };
}
macro_rules! mt_of {
    ($krate:ident, $st:expr) => {
        $krate::state::MINTABLE_TOKEN_POSITIONS
            .range($st, None, None, Order::Ascending)
            .map(|r| match r {
                Ok((p, id)) => (p as u64, id as u64),
                Err(_) => (u64::MAX, u64::MAX),
            })
            .collect::<Vec<(u64, u64)>>()
    };
}

impl S {
    fn new() -> S {
        S {
            w: None,
            cfg: parse_cfg("case fam=fixed kind=0 n=1"),
            factory: String::new(),
            minter: String::new(),
            coll: String::new(),
            spare_wl: None,
            src: vec![],
            proofs: BTreeMap::new(),
            exec_root: Value::Null,
            sudo_root: sudo_schema(),
            seen: BTreeSet::new(),
            burned: 0,
            successes: 0,
            last_seq: 0,
            burn_done: false,
            cap: None,
            owners: BTreeMap::new(),
            dep_pending: BTreeMap::new(),
            has_wl: false,
            viol: None,
            pos: vec![],
            m: None,
            toks: vec![],
            cnt: 0,
            minter_part: String::new(),
            coll_part: String::new(),
            last_pick: None,
            sent: vec![],
            eff_surprises: 0,
        }
    }
    fn w(&self) -> &World {
        self.w.as_ref().unwrap()
    }
    fn wm(&mut self) -> &mut World {
        self.w.as_mut().unwrap()
    }

    fn wl_kind(kind: MinterKind) -> WlKind {
        if kind.is_flex() {
            WlKind::Flex
        } else if kind.is_merkle() {
            WlKind::Merkle
        } else {
            WlKind::Plain
        }
    }

    fn build(&mut self, cfg: &Cfg) -> Result<(), String> {
        let kind = cfg.kind;
        let mut w = World::new(T0);
        let mut p = w.default_params(kind);
        p.max_token_limit = cfg.fmax;
        p.airdrop_mint_price = (0, cfg.air);
        p.shuffle_fee = (0, cfg.shf);
        let factory = w.new_factory(kind.factory(), &p)?;
        for a in [ADMIN, WL_ADMIN, STRANGER] {
            w.fund(&addr(a), 0, 1_000_000_000_000_000);
        }
        let n_buyers = cfg.n.unwrap_or(cfg.fmax.min(200)) as u64 + 8;
        for b in 0..n_buyers {
            w.fund(&addr(BUYER0 + b), 0, 1_000_000_000_000);
        }
        // whitelist arguments (the same for the configured whitelist and for the spare one a SetWhitelist switches to)
        self.proofs.clear();
        let members: Vec<(u64, u32)> = (0..N_WL_MEMBERS).map(|i| (BUYER0 + i, WL_LIMIT)).collect();
        let leaves: Vec<String> = members.iter().map(|(m, _)| addr(*m)).collect();
        let (root, proofs) = merkle(&leaves);
        for (i, (m, _)) in members.iter().enumerate() {
            self.proofs.insert(*m, proofs[i].clone());
        }
        let st = WlStage { start: WL_START, end: WL_END, mint_price: (0, WL_PRICE), per_address_limit: WL_LIMIT, mint_count_limit: None, members, merkle_root: root };
        let wl_args = WlArgs { admin: WL_ADMIN, member_limit: 1000, admins_mutable: true, whale_cap: None, stages: vec![st] };
        let takes_wl = kind.is_vending() || kind.is_open_edition();
        let mut wl_addr = None;
        if cfg.wl && takes_wl {
            wl_addr = Some(w.new_whitelist(Self::wl_kind(kind), &wl_args)?);
        }
        self.src.clear();
        let mut a = w.default_create(kind, &p);
        a.creator = ADMIN;
        a.num_tokens = cfg.n;
        a.per_address_limit = cfg.pal;
        a.start_time = START;
        a.end_time = if kind.is_open_edition() && cfg.has_end { Some(END) } else { None };
        a.mint_price = (0, PRICE);
        a.whitelist = wl_addr;
        if kind == MinterKind::TokenMerge {
            let n = cfg.n.unwrap_or(1) as u64;
            for (i, k) in [(0usize, n * cfg.need as u64 + 6), (1usize, 3u64)] {
                let pb = w.default_params(MinterKind::Base);
                let fb = w.new_factory(FactoryKind::Base, &pb)?;
                let ab = w.default_create(MinterKind::Base, &pb);
                let (mb, cb) = w.create_minter(&fb, MinterKind::Base, &ab)?;
                for _ in 0..k {
                    w.exec(&addr(ADMIN), &mb, &json!({"mint":{"token_uri":"ipfs://src/x"}}), &[(0, BASE_FEE)])?;
                }
                if i == 0 {
                    a.mint_tokens = vec![(cb.clone(), cfg.need)];
                }
                self.src.push((mb, cb));
            }
        }
        let (m, c) = w.create_minter(&factory, kind, &a)?;
        // created AFTER the minter so that the minter / collection addresses do not depend on it
        self.spare_wl = if takes_wl { Some(w.new_whitelist(Self::wl_kind(kind), &wl_args)?) } else { None };
        self.has_wl = cfg.wl && takes_wl;
        self.factory = factory;
        self.minter = m;
        self.coll = c;
        self.w = Some(w);
        self.exec_root = exec_schema(kind);
        Ok(())
    }

    // ---------------------------------------------------------------- observations

    /// `MINTABLE_TOKEN_POSITIONS` through the crate's own typed constant
    fn mt_dump(&self) -> Vec<(u64, u64)> {
        let st = self.w().app.contract_storage(&Addr::unchecked(&self.minter));
        let st: &dyn Storage = &*st;
        by_fixed_kind!(self.cfg.kind, mt_of, st)
    }
    /// `TOKEN_INDEX` through the crate's own typed constant
    fn token_index(&self) -> u64 {
        let st = self.w().app.contract_storage(&Addr::unchecked(&self.minter));
        let st: &dyn Storage = &*st;
        let r = match self.cfg.kind {
            MinterKind::OpenEdition => open_edition_minter::state::TOKEN_INDEX.may_load(st),
            MinterKind::OpenEditionFlex => open_edition_minter_wl_flex::state::TOKEN_INDEX.may_load(st),
            MinterKind::OpenEditionMerkle => open_edition_minter_merkle_wl::state::TOKEN_INDEX.may_load(st),
            MinterKind::Base => base_minter::state::TOKEN_INDEX.may_load(st),
            _ => Ok(None),
        };
        r.ok().flatten().unwrap_or(0)
    }
    fn q_count(&self, contract: &str, msg: Value) -> Option<u64> {
        self.w().query(contract, &msg).ok().and_then(|v| v["count"].as_u64())
    }
    fn coll_obs(&self) -> (u64, Vec<(u64, u64)>) {
        let cnt = self.q_count(&self.coll, json!({"num_tokens":{}})).unwrap_or(u64::MAX);
        let mut ids: Vec<String> = vec![];
        let mut after: Option<String> = None;
        loop {
            let r = self.w().query(&self.coll, &json!({"all_tokens":{"start_after": after, "limit": 30}})).expect("all_tokens");
            let page: Vec<String> = r["tokens"].as_array().map(|a| a.iter().filter_map(|x| x.as_str().map(String::from)).collect()).unwrap_or_default();
            if page.is_empty() {
                break;
            }
            after = page.last().cloned();
            let short = page.len() < 30;
            ids.extend(page);
            if short {
                break;
            }
        }
        let mut toks: Vec<(u64, u64)> = ids
            .iter()
            .map(|t| {
                let o = self.w().query(&self.coll, &json!({"owner_of":{"token_id": t}})).ok().and_then(|v| v["owner"].as_str().map(addr_id)).unwrap_or(u64::MAX);
                (t.parse().unwrap_or(u64::MAX), o)
            })
            .collect();
        toks.sort();
        (cnt, toks)
    }
    fn mintable(&self) -> Option<u64> {
        if self.cfg.kind == MinterKind::Base {
            None
        } else {
            self.q_count(&self.minter, json!({"mintable_num_tokens":{}}))
        }
    }
    /// refreshes the cached observation; `minter_part` + `coll_part` = the PRIMARY part of an output line
    fn obs(&mut self) {
        let (cnt, toks) = self.coll_obs();
        if self.cfg.fixed {
            let pos = self.mt_dump();
            let m = self.mintable();
            self.minter_part = format!("m={} pos={}", fmt_opt(&m), fmt_pairs(&pos));
            self.pos = pos;
            self.m = m;
        } else {
            let idx = self.token_index();
            let (total, m) = if self.cfg.kind == MinterKind::Base { (None, None) } else { (self.q_count(&self.minter, json!({"total_mint_count":{}})), self.mintable()) };
            self.m = m;
            self.minter_part = format!("idx={} total={} m={}", idx, fmt_opt(&total), fmt_opt(&m));
        }
        self.coll_part = format!("cnt={} ids={}", cnt, fmt_list(&toks.iter().map(|x| x.0).collect::<Vec<_>>()));
        self.cnt = cnt;
        self.toks = toks;
    }
    fn render(&self, ok: bool, idpart: &str, rep: &str, sup: &str) -> String {
        format!("{} {}{} {} ## own={} rep={} sup={}", if ok { "ok" } else { "err" }, idpart, self.minter_part, self.coll_part, fmt_pairs(&self.toks), rep, sup)
    }

    fn current_price(&self) -> u128 {
        self.w().query(&self.minter, &json!({"mint_price":{}})).ok().and_then(|v| v["current_price"]["amount"].as_str().and_then(|s| s.parse().ok())).unwrap_or(PRICE)
    }

    fn flag(&mut self, op: &str, pred: &str, what: String) {
        if self.viol.is_none() {
            self.viol = Some((format!("{}/{}/{}", self.cfg.kind.name(), op, pred), what));
        }
    }

    /// `token_id` attribute of the MINTER's own response — DRIFT field only (absent for base-minter)
    fn reported_id(&self, r: &cw_multi_test::AppResponse) -> Option<u64> {
        for e in &r.events {
            if e.ty != "wasm" {
                continue;
            }
            let get = |k: &str| e.attributes.iter().find(|a| a.key == k).map(|a| a.value.clone());
            if get("_contract_address").or(get("_contract_addr")).as_deref() == Some(self.minter.as_str()) && get("recipient").is_some() {
                return get("token_id").and_then(|s| s.parse().ok());
            }
        }
        None
    }

    fn mint_msg(&self, who: u64) -> Value {
        match self.cfg.kind {
            MinterKind::Base => json!({"mint":{"token_uri":"ipfs://base/x"}}),
            k if k.is_merkle() => json!({"mint":{"proof_hashes": self.proofs.get(&who).cloned(), "stage": null, "allocation": null}}),
            _ => json!({"mint":{}}),
        }
    }

    /// every message delivered to the minter goes through here: the variant name is logged for the surface coverage floor
    fn to_minter(&mut self, who: u64, msg: &Value, funds: &[(u64, u128)]) -> Result<cw_multi_test::AppResponse, String> {
        self.sent.push(top_key(msg));
        let m = self.minter.clone();
        self.wm().exec(&addr(who), &m, msg, funds)
    }

    // ---------------------------------------------------------------- ghost: must the SUPPLY guards reject this op? (twin of LP.Supply.*.supplyRejects)

    fn ghost_mintable_fixed(&self) -> u64 {
        (self.cfg.n.unwrap_or(0) as u64).saturating_sub(self.seen.len() as u64 + self.burned)
    }
    fn ghost_mintable_seq(&self) -> Option<u64> {
        self.cap.map(|c| if self.burn_done { 0 } else { c.saturating_sub(self.successes) })
    }
    fn ghost_rejects(&self, op: &str, line: &str, eff_expected: bool) -> bool {
        let id = kv_u64(line, "id").unwrap_or(0);
        match op {
            "coll_burn" | "coll_transfer" | "coll_send" => return !self.owners.contains_key(&id),
            "noise" | "t" => return false,
            _ => {}
        }
        if self.cfg.fixed {
            let gm = self.ghost_mintable_fixed();
            match op {
                "mint" | "mint_to" | "shuffle" | "burn_remaining" => gm == 0,
                "deposit" => eff_expected && gm == 0,
                "mint_for" => gm == 0 || id == 0 || id > self.cfg.n.unwrap_or(0) as u64 || self.seen.contains(&id),
                "purge" => gm != 0,
                _ => false,
            }
        } else {
            let gm = self.ghost_mintable_seq();
            let kind = self.cfg.kind;
            match op {
                "mint" | "mint_to" => gm == Some(0),
                "burn_remaining" => kind == MinterKind::Base || gm.is_none() || gm == Some(0),
                "purge" => kind == MinterKind::Base || (matches!(gm, Some(k) if k > 0) && (kind == MinterKind::OpenEditionFlex || !self.cfg.has_end)),
                _ => false,
            }
        }
    }
}

fn funds(pay: u128) -> Vec<(u64, u128)> {
    if pay == 0 {
        vec![]
    } else {
        vec![(0, pay)]
    }
}

impl Sut for S {
    fn begin(&mut self, header: &str) -> (String, String) {
        let cfg = parse_cfg(header);
        self.cfg = cfg.clone();
        self.seen.clear();
        self.burned = 0;
        self.successes = 0;
        self.last_seq = 0;
        self.burn_done = false;
        self.owners.clear();
        self.dep_pending.clear();
        self.viol = None;
        self.last_pick = None;
        self.cap = match (cfg.fixed, cfg.kind, cfg.n) {
            (true, _, n) => n.map(|x| x as u64),
            (false, MinterKind::Base, _) => None,
            (false, _, Some(n)) => Some(n as u64),
            // "the factory-wide cap captured at creation where the variant applies one"
            (false, MinterKind::OpenEdition, None) | (false, MinterKind::OpenEditionMerkle, None) => Some(cfg.fmax as u64),
            (false, _, None) => None,
        };
        if let Err(e) = self.build(&cfg) {
            panic!("world setup failed for `{header}`: {e}");
        }
        self.obs();
        let line = if cfg.fixed { format!("{header} init={}", fmt_list(&self.pos.iter().map(|x| x.1).collect::<Vec<_>>())) } else { header.to_string() };
        (line, format!("case {}", self.render(true, "", "-", "-")))
    }

    fn exec(&mut self, line: &str) -> (String, String) {
        let op = line.split_whitespace().next().unwrap_or("").to_string();
        let who = kv_u64(line, "who").unwrap_or(ADMIN);
        let pay = kv_u128(line, "pay").unwrap_or(0);
        let coll = self.coll.clone();
        let pos_before = self.pos.clone();
        let m_before = self.m;
        let ids_before: BTreeSet<u64> = self.toks.iter().map(|x| x.0).collect();
        let minter_before = self.minter_part.clone();
        let coll_before = self.coll_part.clone();
        self.last_pick = None;
        let is_mint_op = matches!(op.as_str(), "mint" | "mint_to" | "mint_for" | "deposit");
        let to = kv_opt_u64(line, "to").unwrap_or(None);
        let owner = to.unwrap_or(who);
        let req = kv_u64(line, "id");
        // token-merge: does the harness' own deposit bookkeeping say this deposit completes a merge?
        let eff_expected = op == "deposit" && kv_u64(line, "coll").unwrap_or(0) == 0 && self.dep_pending.get(&owner).copied().unwrap_or(0) + 1 >= self.cfg.need;
        let ghost_rej = self.ghost_rejects(&op, line, eff_expected);
        let ghost_m_before = if self.cfg.fixed { Some(self.ghost_mintable_fixed()) } else { self.ghost_mintable_seq() };
        let opkey: String = if op == "noise" { format!("noise-{}", kv(line, "what").unwrap_or("?")) } else { op.clone() };

        // ---------------------------------------------------------------- the call
        let r: Result<cw_multi_test::AppResponse, String> = match op.as_str() {
            "t" => {
                let ns = kv_u64(line, "ns").unwrap();
                self.wm().set_time(ns);
                Ok(cw_multi_test::AppResponse::default())
            }
            "mint" => {
                let msg = self.mint_msg(who);
                self.to_minter(who, &msg, &funds(pay))
            }
            "mint_to" => self.to_minter(who, &json!({"mint_to":{"recipient": addr(owner)}}), &funds(pay)),
            "mint_for" => self.to_minter(who, &json!({"mint_for":{"token_id": req.unwrap_or(0), "recipient": addr(owner)}}), &funds(pay)),
            "deposit" => {
                let ci = kv_u64(line, "coll").unwrap_or(0) as usize;
                let src_coll = self.src.get(ci).map(|x| x.1.clone()).unwrap_or_else(|| coll.clone());
                let inner = json!({"deposit_token":{"recipient": to.map(addr)}});
                let b64 = cosmwasm_std::to_json_binary(&inner).unwrap();
                let msg = json!({"send_nft":{"contract": self.minter, "token_id": kv_u64(line, "src").unwrap_or(0).to_string(), "msg": b64}});
                self.sent.push("receive_nft".into());
                self.wm().exec(&addr(who), &src_coll, &msg, &[])
            }
            "shuffle" => self.to_minter(who, &json!({"shuffle":{}}), &funds(pay)),
            "purge" => self.to_minter(who, &json!({"purge":{}}), &funds(pay)),
            "burn_remaining" => self.to_minter(who, &json!({"burn_remaining":{}}), &funds(pay)),
            "coll_burn" => self.wm().exec(&addr(who), &coll, &json!({"burn":{"token_id": req.unwrap_or(0).to_string()}}), &[]),
            "coll_transfer" => {
                let to = to.unwrap_or(STRANGER);
                self.wm().exec(&addr(who), &coll, &json!({"transfer_nft":{"recipient": addr(to), "token_id": req.unwrap_or(0).to_string()}}), &[])
            }
            "coll_send" => {
                // a holder sends a token to a contract (`to=` must be a contract id, 1000+k): the minter itself, normally
                let target = addr(to.unwrap_or(addr_id(&self.minter)));
                let b64 = cosmwasm_std::to_json_binary(&json!({"deposit_token":{"recipient": null}})).unwrap();
                self.wm().exec(&addr(who), &coll, &json!({"send_nft":{"contract": target, "token_id": req.unwrap_or(0).to_string(), "msg": b64}}), &[])
            }
            "noise" => {
                let arg = kv_u128(line, "arg").unwrap_or(0);
                let what = kv(line, "what").unwrap_or("").to_string();
                match what.as_str() {
                    "pal" => self.to_minter(who, &json!({"update_per_address_limit":{"per_address_limit": arg as u32}}), &[]),
                    "price" => self.to_minter(who, &json!({"update_mint_price":{"price": arg.to_string()}}), &[]),
                    "start" => self.to_minter(who, &json!({"update_start_time": arg.to_string()}), &[]),
                    "end" => self.to_minter(who, &json!({"update_end_time": arg.to_string()}), &[]),
                    "tstart" => self.to_minter(who, &json!({"update_start_trading_time": if arg == 0 { Value::Null } else { Value::String(arg.to_string()) }}), &[]),
                    "setwl" => {
                        let wl = self.spare_wl.clone().unwrap_or_else(|| addr(STRANGER));
                        let r = self.to_minter(who, &json!({"set_whitelist":{"whitelist": wl}}), &[]);
                        if r.is_ok() {
                            self.has_wl = true;
                        }
                        r
                    }
                    "disc" => self.to_minter(who, &json!({"update_discount_price":{"price": arg.to_string()}}), &[]),
                    "rmdisc" => self.to_minter(who, &json!({"remove_discount_price":{}}), &[]),
                    "status" => {
                        let m = self.minter.clone();
                        self.sent.push("sudo:update_status".into());
                        self.wm().sudo(&m, &json!({"update_status":{"is_verified": arg & 1 == 1, "is_blocked": arg & 2 == 2, "is_explicit": arg & 4 == 4}}))
                    }
                    "migrate" => {
                        // same code id: the crates' `migrate` entry point runs on the live state (wasm admin = the creator)
                        let m = self.minter.clone();
                        let code = self.w().codes.minters[self.cfg.kind.idx()];
                        self.sent.push("migrate".into());
                        self.wm().migrate(&addr(who), &m, code, &json!({}))
                    }
                    "fmax" => {
                        let f = self.factory.clone();
                        self.wm().sudo(&f, &json!({"update_params":{"extension":{"max_token_limit": arg as u32}}}))
                    }
                    // ---- the collection, addressed directly by somebody who is not the minter
                    "coll_mint" => self.wm().exec(&addr(who), &coll, &json!({"mint":{"token_id": req.unwrap_or(0).to_string(), "owner": addr(who), "token_uri": null, "extension": null}}), &[]),
                    "coll_own" => self.wm().exec(&addr(who), &coll, &json!({"update_ownership":{"transfer_ownership":{"new_owner": addr(who), "expiry": null}}}), &[]),
                    "coll_accept" => self.wm().exec(&addr(who), &coll, &json!({"update_ownership":"accept_ownership"}), &[]),
                    w if w.starts_with("x:") => match raw_variant_msg(&self.exec_root, &w[2..], arg as u64) {
                        Some(msg) => self.to_minter(who, &msg, &funds(pay)),
                        None => Err("no such variant in the schema".into()),
                    },
                    w if w.starts_with("sx:") => match raw_variant_msg(&self.sudo_root, &w[3..], arg as u64) {
                        Some(msg) => {
                            let m = self.minter.clone();
                            self.sent.push(format!("sudo:{}", &w[3..]));
                            self.wm().sudo(&m, &msg)
                        }
                        None => Err("no such variant in the schema".into()),
                    },
                    _ => Err("unknown noise".into()),
                }
            }
            _ => return (line.to_string(), "bad-op".into()),
        };
        let ok = r.is_ok();
        // gate: closed exactly for a failure the harness' own bookkeeping cannot attribute to the supply guards
        let gate = ok || ghost_rej;
        self.obs();
        let ids_after: BTreeSet<u64> = self.toks.iter().map(|x| x.0).collect();
        let new_ids: Vec<u64> = ids_after.difference(&ids_before).copied().collect();
        let removed: Vec<u64> = pos_before.iter().filter(|(p, _)| !self.pos.iter().any(|(q, _)| q == p)).map(|x| x.0).collect();
        let sup = if gate { "-".to_string() } else { (r.as_ref().err().map(|e| is_supply_text(e)).unwrap_or(false) as u8).to_string() };
        let mut rep = "-".to_string();
        let mut idpart = String::new();
        #[allow(unused_assignments)]
        let mut wit = String::new();

        if op == "t" {
            if self.minter_part != minter_before || self.coll_part != coll_before {
                self.flag(&opkey, "supply-state-changed", format!("a clock step changed the supply state: `{minter_before} {coll_before}` -> `{} {}`", self.minter_part, self.coll_part));
            }
            self.after_monitors(&opkey);
            return (line.to_string(), self.render(true, "", "-", "-"));
        }

        // ---------------------------------------------------------------- token-set monitors common to all ops
        if !(is_mint_op && ok) && !new_ids.is_empty() {
            self.flag(&opkey, "token-appeared-without-mint", format!("tokens {:?} appeared in the collection although no mint call of the minter succeeded in this step", new_ids));
        }

        if is_mint_op {
            let p = if ok && removed.len() == 1 { removed[0] } else { 0 };
            if self.cfg.fixed && ok && removed.len() == 1 {
                self.last_pick = pos_before.iter().position(|(q, _)| *q == p).map(|i| (i, pos_before.len()));
            }
            let g = gate as u8;
            wit = match op.as_str() {
                "mint" | "mint_to" => {
                    if self.cfg.fixed {
                        format!(" gate={g} pos={p} owner={owner}")
                    } else {
                        format!(" gate={g} owner={owner}")
                    }
                }
                "mint_for" => format!(" gate={g} owner={owner}"),
                _ => {
                    let eff = if ok { !new_ids.is_empty() || !removed.is_empty() } else { eff_expected };
                    if ok {
                        if eff != eff_expected {
                            self.eff_surprises += 1; // merge-requirement bookkeeping is C17's business: counted, reported as DRIFT
                        }
                        if kv_u64(line, "coll").unwrap_or(0) == 0 {
                            if eff {
                                self.dep_pending.remove(&owner);
                            } else {
                                *self.dep_pending.entry(owner).or_insert(0) += 1;
                            }
                        }
                    }
                    format!(" eff={} gate={g} pos={p} owner={owner}", eff as u8)
                }
            };
            if ok {
                if new_ids.len() > 1 {
                    self.flag(&opkey, "multiple-tokens", format!("one mint call created {} tokens: {:?}", new_ids.len(), new_ids));
                }
                if new_ids.is_empty() && op != "deposit" {
                    self.flag(&opkey, "mint-without-token", "a mint call succeeded but no new token exists in the collection".into());
                }
            }
            if let (true, Some(&id)) = (ok, new_ids.first()) {
                let own_now = self.toks.iter().find(|t| t.0 == id).map(|t| t.1);
                idpart = format!("id={id} to={} ", fmt_opt(&own_now));
                rep = fmt_opt(&r.as_ref().ok().and_then(|r| self.reported_id(r)));
                if ghost_m_before == Some(0) {
                    self.flag(&opkey, "success-at-zero", format!("mint of id {id} succeeded although by the harness' own count (minted {}, burned {}, cap {:?}) nothing was left", if self.cfg.fixed { self.seen.len() as u64 } else { self.successes }, self.burned, self.cap));
                }
                if m_before == Some(0) {
                    self.flag(&opkey, "success-at-zero", format!("mint of id {id} succeeded while MintableNumTokens was 0"));
                }
                if self.cfg.fixed {
                    let n = self.cfg.n.unwrap_or(0) as u64;
                    if id < 1 || id > n {
                        self.flag(&opkey, "id-out-of-range", format!("minted token id {id} is not in 1..={n}"));
                    }
                    if self.seen.contains(&id) {
                        self.flag(&opkey, "duplicate-id", format!("token id {id} minted a second time"));
                    }
                    if op == "mint_for" && (Some(id) != req || own_now != Some(owner)) {
                        self.flag(&opkey, "mint-for-mismatch", format!("MintFor requested id {:?} for acct {owner}: the collection now holds new token {id} owned by {:?}", req, own_now));
                    }
                    self.seen.insert(id);
                } else {
                    if id != self.last_seq + 1 {
                        self.flag(&opkey, "gap-or-repeat", format!("sequential id {id} issued after {}", self.last_seq));
                    }
                    if self.burn_done {
                        self.flag(&opkey, "mint-after-burn-remaining", format!("id {id} minted after a successful BurnRemaining"));
                    }
                    self.last_seq = id;
                    self.successes += 1;
                    if let Some(c) = self.cap {
                        if self.successes > c {
                            self.flag(&opkey, "supply-above-cap", format!("{} tokens minted, cap is {c}", self.successes));
                        }
                    }
                }
                if ghost_rej {
                    self.flag(&opkey, "supply-guard-bypassed", format!("mint of id {id} succeeded although the harness' own bookkeeping says the supply guards had to reject `{line}`"));
                }
                self.owners.insert(id, own_now.unwrap_or(owner));
            }
        } else {
            match op.as_str() {
                "shuffle" => {
                    let perm: Vec<u64> = if ok { self.pos.iter().map(|x| x.1).collect() } else { vec![] };
                    wit = format!(" gate={} perm={}", gate as u8, fmt_list(&perm));
                    if ok {
                        let mut a: Vec<u64> = pos_before.iter().map(|x| x.1).collect();
                        let mut b = perm.clone();
                        a.sort();
                        b.sort();
                        let ka: Vec<u64> = pos_before.iter().map(|x| x.0).collect();
                        let kb: Vec<u64> = self.pos.iter().map(|x| x.0).collect();
                        if a != b || ka != kb || self.m != m_before {
                            self.flag(&opkey, "shuffle-changed-ids", format!("shuffle changed the remaining ids or their number: before {:?} (m={:?}) after {:?} (m={:?})", pos_before, m_before, self.pos, self.m));
                        }
                    }
                }
                "burn_remaining" => {
                    wit = format!(" gate={}", gate as u8);
                    if ok {
                        self.burn_done = true;
                        // everything the harness knows to be left is burned now (independent of the contract's own map)
                        if self.cfg.fixed {
                            self.burned += self.ghost_mintable_fixed();
                        }
                    }
                }
                "coll_burn" | "coll_transfer" | "coll_send" => {
                    let id = req.unwrap_or(0);
                    let target = if op == "coll_send" { to.unwrap_or(addr_id(&self.minter)) } else { to.unwrap_or(STRANGER) };
                    wit = if op == "coll_burn" { format!(" gate={}", gate as u8) } else { format!(" gate={} to={target}", gate as u8) };
                    if op != "coll_burn" && kv(line, "to").is_some() {
                        wit = format!(" gate={}", gate as u8); // `to=` is already on the line
                    }
                    if ok {
                        if op == "coll_burn" {
                            self.owners.remove(&id);
                        } else {
                            self.owners.insert(id, target);
                        }
                    }
                    if ok && self.minter_part != minter_before {
                        self.flag(&opkey, "supply-state-changed", format!("a collection-side call changed the minter's supply state: `{minter_before}` -> `{}`", self.minter_part));
                    }
                }
                _ => {
                    // purge and every "other message": frame ops
                    wit = format!(" gate={}", gate as u8);
                    if ok && (self.minter_part != minter_before || self.coll_part != coll_before) {
                        self.flag(&opkey, "supply-state-changed", format!("a message that is not a mint / shuffle / burn-remaining changed the supply state: `{minter_before} {coll_before}` -> `{} {}`", self.minter_part, self.coll_part));
                    }
                    if ok && matches!(kv(line, "what"), Some("coll_mint") | Some("coll_own") | Some("coll_accept")) {
                        self.flag(&opkey, "non-minter-call-accepted", format!("the collection accepted `{}` from acct {who}, who is not the minter contract", kv(line, "what").unwrap_or("")));
                    }
                }
            }
        }
        self.after_monitors(&opkey);
        (format!("{line}{wit}"), self.render(ok, &idpart, &rep, &sup))
    }

    fn monitor(&mut self) -> Option<(String, String)> {
        self.viol.take()
    }
}

impl S {
    /// state predicates of the property, evaluated after every op on the implementation's observations against the ghost
    fn after_monitors(&mut self, op: &str) {
        if self.cnt != self.toks.len() as u64 {
            self.flag(op, "collection-count-mismatch", format!("NumTokens = {} but AllTokens lists {} tokens", self.cnt, self.toks.len()));
        }
        if self.cfg.fixed {
            let n = self.cfg.n.unwrap_or(0) as u64;
            let want = n as i128 - self.seen.len() as i128 - self.burned as i128;
            if self.m.map(|x| x as i128) != Some(want) {
                self.flag(op, "mintable-miscount", format!("MintableNumTokens = {:?} but num_tokens {n} - minted {} - burned {} = {want}", self.m, self.seen.len(), self.burned));
            }
            if let Some(bad) = self.pos.iter().find(|(_, id)| self.seen.contains(id)) {
                self.flag(op, "minted-id-still-mintable", format!("position {} still offers id {} which was already minted", bad.0, bad.1));
            }
            // the set of remaining ids is exactly 1..=n minus minted (nothing after a burn): no id lost, invented or offered twice
            let mut have: Vec<u64> = self.pos.iter().map(|x| x.1).collect();
            have.sort();
            let wantset: Vec<u64> = if self.burn_done { vec![] } else { (1..=n).filter(|i| !self.seen.contains(i)).collect() };
            if have != wantset {
                self.flag(op, "remaining-ids-changed", format!("mintable ids are {:?} but 1..={n} minus minted{} is {:?}", have, if self.burn_done { " (all burned)" } else { "" }, wantset));
            }
            if let Some(bad) = self.toks.iter().find(|(id, _)| !self.seen.contains(id)) {
                self.flag(op, "collection-token-not-minted", format!("collection holds token {} which this minter never minted", bad.0));
            }
        } else {
            if self.cfg.kind != MinterKind::Base {
                let total = self.q_count(&self.minter, json!({"total_mint_count":{}}));
                if total != Some(self.successes) {
                    self.flag(op, "total-mint-miscount", format!("TotalMintCount = {:?}, successful mints = {}", total, self.successes));
                }
                let want = self.ghost_mintable_seq();
                if self.m != want {
                    self.flag(op, "mintable-miscount", format!("MintableNumTokens = {:?} but cap {:?} - successful mints {} (burn-remaining done: {}) = {:?}", self.m, self.cap, self.successes, self.burn_done, want));
                }
            }
            if let Some(bad) = self.toks.iter().find(|(id, _)| *id < 1 || *id > self.last_seq) {
                self.flag(op, "collection-token-not-issued", format!("collection holds token {} but ids issued are 1..={}", bad.0, self.last_seq));
            }
        }
    }
}

// ------------------------------------------------------------------------------------------------ generators

struct Gen {
    now: u64,
    pal: u32,
    pub_count: BTreeMap<u64, u32>,
    wl_count: BTreeMap<u64, u32>,
    n_buyers: u64,
    next_src: [u64; 2],
}

fn step(ses: &mut Session, sut: &mut S, line: String) -> bool {
    let ok = ses.step(sut, &line).starts_with("ok");
    let kind = sut.cfg.kind.name();
    for v in sut.sent.drain(..) {
        ses.mark(format!("sent:{kind}:{v};"));
    }
    ok
}

fn mark_op(ses: &mut Session, sut: &S, op: &str, ok: bool, class: &str) {
    let zero = match sut.m {
        Some(0) => "zero",
        Some(_) => "pos",
        None => "nocap",
    };
    ses.mark(format!("{}:{}:{}:{}:{}", sut.cfg.kind.name(), op, if ok { "ok" } else { "err" }, class, zero));
    ses.count(&format!("{}:{}:{}", sut.cfg.kind.name(), op, if ok { "ok" } else { "err" }));
}

fn set_time(ses: &mut Session, sut: &mut S, g: &mut Gen, t: u64) {
    if t > g.now {
        g.now = t;
        step(ses, sut, format!("t ns={t}"));
    }
}

fn wl_active(g: &Gen, sut: &S) -> bool {
    sut.has_wl && g.now >= WL_START && g.now < WL_END
}

fn unknown_exec(sut: &S) -> Vec<String> {
    schema_variants(&sut.exec_root).into_iter().map(|x| x.0).filter(|v| !KNOWN_EXEC.contains(&v.as_str())).collect()
}
fn unknown_sudo(sut: &S) -> Vec<String> {
    schema_variants(&sut.sudo_root).into_iter().map(|x| x.0).filter(|v| !KNOWN_SUDO.contains(&v.as_str())).collect()
}

fn mark_pick(ses: &mut Session, sut: &S) {
    if let Some((i, len)) = sut.last_pick {
        ses.mark(format!("pick:{}:len{}", if i < 50 { format!("front{}", i / 10) } else { format!("back{}", (len - 1 - i) / 10) }, (len > 50) as u8 + (len > 100) as u8));
        ses.count(if i < 50 && len - 1 - i >= 50 { "pick:front-window" } else if i >= 50 { "pick:back-window" } else { "pick:both-windows" });
    }
}

/// one buyer mint (public or whitelist), mostly valid
fn do_buyer_mint(ses: &mut Session, sut: &mut S, g: &mut Gen, rng: &mut Rng) {
    let kind = sut.cfg.kind;
    let wl = wl_active(g, sut);
    let valid = rng.chance(8, 10);
    // pick a buyer
    let who = if kind == MinterKind::Base {
        if valid { ADMIN } else { STRANGER }
    } else if wl {
        let members: Vec<u64> = (0..N_WL_MEMBERS).map(|i| BUYER0 + i).filter(|b| !valid || g.wl_count.get(b).copied().unwrap_or(0) < WL_LIMIT).collect();
        if valid && !members.is_empty() { *rng.pick(&members) } else { BUYER0 + rng.below(g.n_buyers) }
    } else {
        let cand: Vec<u64> = (0..g.n_buyers).map(|i| BUYER0 + i).filter(|b| g.pub_count.get(b).copied().unwrap_or(0) < g.pal).collect();
        if valid && !cand.is_empty() { *rng.pick(&cand) } else { BUYER0 + rng.below(g.n_buyers) }
    };
    if kind == MinterKind::TokenMerge {
        // deposit a source token; recipient either the buyer (explicit) or the admin itself
        let ci = if valid { 0 } else { rng.below(2) as usize };
        let src = g.next_src[ci] + 1;
        let to = if rng.chance(9, 10) { Some(who) } else { None };
        let ok = step(ses, sut, format!("deposit who={ADMIN} to={} src={src} coll={ci}", fmt_opt(&to)));
        if ok {
            g.next_src[ci] = src;
        }
        mark_op(ses, sut, "deposit", ok, if ci == 0 { "listed" } else { "unlisted" });
        mark_pick(ses, sut);
        return;
    }
    let price = if kind == MinterKind::Base { BASE_FEE } else { sut.current_price() };
    let pay = if rng.chance(9, 10) {
        price
    } else {
        *rng.pick(&[0u128, price - 1, price + 1, price * 2])
    };
    let ok = step(ses, sut, format!("mint who={who} pay={pay}"));
    if ok {
        if wl {
            *g.wl_count.entry(who).or_insert(0) += 1;
        } else {
            *g.pub_count.entry(who).or_insert(0) += 1;
        }
    }
    mark_op(ses, sut, if wl { "mint-wl" } else { "mint" }, ok, if pay == price { "exact" } else { "wrongpay" });
    mark_pick(ses, sut);
}

/// messages that must not touch the supply state: the rest of the message surface (minter, sudo, migrate, the collection addressed directly)
fn do_noise(ses: &mut Session, sut: &mut S, g: &mut Gen, rng: &mut Rng) {
    let kind = sut.cfg.kind;
    let n = sut.cfg.n.unwrap_or(0) as u64;
    let who = if rng.chance(85, 100) { ADMIN } else if rng.chance(1, 2) { STRANGER } else { BUYER0 + rng.below(3) };
    let unk = unknown_exec(sut);
    let unks = unknown_sudo(sut);
    let c = rng.below(if unk.is_empty() && unks.is_empty() { 15 } else { 19 });
    // an id the collection does not hold yet but the minter could still hand out (fixed), or the next sequential id
    let fresh_id = if sut.cfg.fixed { sut.pos.first().map(|x| x.1).unwrap_or(n + 1) } else { sut.last_seq + 1 };
    let line = match c {
        0 => format!("noise who={who} what=pal arg={}", rng.range(1, 4)),
        1 => format!("noise who={who} what=price arg={}", *rng.pick(&[PRICE, PRICE - 10_000_000, 50_000_000, 49_999_999])),
        2 => format!("noise who={who} what=start arg={}", g.now + rng.range(0, 100) * SEC),
        3 => format!("noise who={who} what=end arg={}", g.now + rng.range(0, 2000) * SEC),
        4 => format!("noise who={ADMIN} what=fmax arg={}", rng.range(1, 12)),
        5 => format!("noise who={who} what=tstart arg={}", if rng.chance(1, 2) { 0 } else { g.now + rng.range(1, 1000) * SEC }),
        6 => format!("noise who={who} what=setwl arg=0"),
        7 => format!("noise who={who} what=disc arg={}", *rng.pick(&[PRICE - 20_000_000, 50_000_000, PRICE + 1, 49_999_999])),
        8 => format!("noise who={who} what=rmdisc arg=0"),
        9 => format!("noise who={ADMIN} what=status arg={}", rng.below(8)),
        10 | 11 => format!("noise who={} what=migrate arg=0", if rng.chance(8, 10) { ADMIN } else { STRANGER }),
        12 => format!("noise who={} what=coll_mint id={} arg=0", *rng.pick(&[ADMIN, STRANGER, BUYER0]), *rng.pick(&[fresh_id, n + 1, 1])),
        13 => format!("noise who={} what=coll_own arg=0", *rng.pick(&[ADMIN, STRANGER])),
        14 => format!("noise who={} what=coll_accept arg=0", *rng.pick(&[ADMIN, STRANGER])),
        15 | 16 | 17 if !unk.is_empty() => format!("noise who={who} what=x:{} arg={} pay={}", rng.pick(&unk), *rng.pick(&[0u64, 1, 2, 7, 1000]), *rng.pick(&[0u128, 0, PRICE])),
        _ if !unks.is_empty() => format!("noise who={ADMIN} what=sx:{} arg={}", rng.pick(&unks), *rng.pick(&[0u64, 1, 7])),
        _ => format!("noise who={who} what=x:{} arg={} pay=0", rng.pick(&unk), *rng.pick(&[0u64, 1, 7])),
    };
    let what = kv(&line, "what").unwrap_or("").to_string();
    let ok = step(ses, sut, line.clone());
    if ok && what == "pal" {
        g.pal = kv_u64(&line, "arg").unwrap_or(1) as u32;
    }
    let _ = kind;
    mark_op(ses, sut, &format!("noise-{what}"), ok, if who == ADMIN { "admin" } else { "stranger" });
}

fn do_other_op(ses: &mut Session, sut: &mut S, g: &mut Gen, rng: &mut Rng) {
    let kind = sut.cfg.kind;
    let fixed = sut.cfg.fixed;
    let n = sut.cfg.n.unwrap_or(0) as u64;
    let air = sut.cfg.air;
    let r = rng.below(100);
    let sender = |rng: &mut Rng, privileged: bool| -> u64 {
        if privileged {
            if rng.chance(85, 100) { ADMIN } else if rng.chance(1, 2) { STRANGER } else { BUYER0 + rng.below(3) }
        } else {
            *rng.pick(&[ADMIN, STRANGER, BUYER0, BUYER0 + 1, BUYER0 + 5])
        }
    };
    if kind == MinterKind::Base {
        // base-minter has only Mint and UpdateStartTradingTime; everything else is an unknown message
        match r {
            0..=29 => {
                if let Some((id, own)) = sut.toks.get(rng.below(sut.toks.len().max(1) as u64) as usize).copied() {
                    let who = if rng.chance(7, 10) { own } else { STRANGER };
                    let ok = step(ses, sut, format!("coll_burn who={who} id={id}"));
                    mark_op(ses, sut, "coll_burn", ok, if who == own { "owner" } else { "stranger" });
                }
            }
            30..=44 => {
                if let Some((id, own)) = sut.toks.get(rng.below(sut.toks.len().max(1) as u64) as usize).copied() {
                    let ok = step(ses, sut, format!("coll_transfer who={own} to={} id={id}", BUYER0 + rng.below(4)));
                    mark_op(ses, sut, "coll_transfer", ok, "owner");
                }
            }
            45..=54 => {
                let ok = step(ses, sut, format!("burn_remaining who={ADMIN}"));
                mark_op(ses, sut, "burn_remaining", ok, "no-such-msg");
            }
            55..=64 => {
                let ok = step(ses, sut, format!("mint_to who={ADMIN} to={} pay={BASE_FEE}", BUYER0));
                mark_op(ses, sut, "mint_to", ok, "no-such-msg");
            }
            65..=84 => do_noise(ses, sut, g, rng),
            _ => {
                let t = g.now + rng.range(1, 50) * SEC;
                set_time(ses, sut, g, t);
            }
        }
        return;
    }
    match r {
        0..=15 => {
            // MintTo
            let who = sender(rng, true);
            let to = BUYER0 + rng.below(g.n_buyers);
            let pay = if rng.chance(9, 10) { air } else { air + 1 };
            let ok = step(ses, sut, format!("mint_to who={who} to={to} pay={pay}"));
            mark_op(ses, sut, "mint_to", ok, if who == ADMIN { "admin" } else { "stranger" });
            mark_pick(ses, sut);
        }
        16..=31 if fixed => {
            // MintFor: remaining id / sold id / 0 / n+1 / huge
            let who = sender(rng, true);
            let to = BUYER0 + rng.below(g.n_buyers);
            let c = rng.below(10);
            let (id, class) = if c < 6 && !sut.pos.is_empty() {
                let k = rng.below(sut.pos.len() as u64) as usize;
                // first, last, or any position
                let k = match rng.below(4) {
                    0 => 0,
                    1 => sut.pos.len() - 1,
                    _ => k,
                };
                (sut.pos[k].1, "remaining")
            } else if c < 8 && !sut.seen.is_empty() {
                (*sut.seen.iter().nth(rng.below(sut.seen.len() as u64) as usize).unwrap(), "sold")
            } else {
                match rng.below(4) {
                    0 => (0, "zero"),
                    1 => (n + 1, "n+1"),
                    2 => (n, "n"),
                    _ => (4_000_000_000, "huge"),
                }
            };
            let pay = if rng.chance(9, 10) { air } else { air + 1 };
            let ok = step(ses, sut, format!("mint_for who={who} to={to} id={id} pay={pay}"));
            mark_op(ses, sut, "mint_for", ok, &format!("{class}:{}", if who == ADMIN { "admin" } else { "stranger" }));
        }
        32..=41 if fixed => {
            let who = sender(rng, false);
            let shf = sut.cfg.shf;
            let pay = if rng.chance(85, 100) { shf } else { *rng.pick(&[0, shf - 1, shf + 1]) };
            let ok = step(ses, sut, format!("shuffle who={who} pay={pay}"));
            mark_op(ses, sut, "shuffle", ok, if pay == shf { "fee" } else { "wrongfee" });
        }
        42..=45 if fixed => {
            // same block, same sender: Shuffle, then MintFor of the id the shuffle just moved to the first / last position, then MintTo
            let shf = sut.cfg.shf;
            let ok = step(ses, sut, format!("shuffle who={ADMIN} pay={shf}"));
            mark_op(ses, sut, "shuffle", ok, "same-block-admin");
            if let Some(&(_, id)) = if rng.chance(1, 2) { sut.pos.first() } else { sut.pos.last() } {
                let ok = step(ses, sut, format!("mint_for who={ADMIN} to={} id={id} pay={air}", BUYER0 + rng.below(g.n_buyers)));
                mark_op(ses, sut, "mint_for", ok, "same-block-after-shuffle");
                // and the id once more, still in the same block
                let ok = step(ses, sut, format!("mint_for who={ADMIN} to={} id={id} pay={air}", BUYER0 + rng.below(g.n_buyers)));
                mark_op(ses, sut, "mint_for", ok, "same-block-repeat");
            }
            let ok = step(ses, sut, format!("mint_to who={ADMIN} to={} pay={air}", BUYER0 + rng.below(g.n_buyers)));
            mark_op(ses, sut, "mint_to", ok, "same-block-after-shuffle");
        }
        46..=50 => {
            let who = sender(rng, false);
            let ok = step(ses, sut, format!("purge who={who}"));
            mark_op(ses, sut, "purge", ok, "any");
        }
        51..=53 => {
            // BurnRemaining by a non-admin (must fail) — the admin's burn is scheduled by the case driver
            let who = if rng.chance(1, 2) { STRANGER } else { BUYER0 };
            let ok = step(ses, sut, format!("burn_remaining who={who}"));
            mark_op(ses, sut, "burn_remaining", ok, "stranger");
        }
        54..=63 => {
            // a holder (or somebody else) burns a token in the collection
            let c = rng.below(10);
            if c < 8 && !sut.toks.is_empty() {
                let (id, own) = sut.toks[rng.below(sut.toks.len() as u64) as usize];
                let who = if c < 6 { own } else { *rng.pick(&[ADMIN, STRANGER]) };
                let ok = step(ses, sut, format!("coll_burn who={who} id={id}"));
                mark_op(ses, sut, "coll_burn", ok, if who == own { "owner" } else { "not-owner" });
            } else {
                let id = if fixed && !sut.pos.is_empty() { sut.pos[0].1 } else { n + 7 };
                let ok = step(ses, sut, format!("coll_burn who={STRANGER} id={id}"));
                mark_op(ses, sut, "coll_burn", ok, "no-such-token");
            }
        }
        64..=68 => {
            if !sut.toks.is_empty() {
                let (id, own) = sut.toks[rng.below(sut.toks.len() as u64) as usize];
                let who = if rng.chance(8, 10) { own } else { STRANGER };
                let ok = step(ses, sut, format!("coll_transfer who={who} to={} id={id}", BUYER0 + rng.below(g.n_buyers)));
                mark_op(ses, sut, "coll_transfer", ok, if who == own { "owner" } else { "not-owner" });
            }
        }
        69..=71 => {
            // a holder sends its token to the minter contract (`send_nft`): vending / open edition have no ReceiveNft, token-merge
            // receives a token of a collection that is not on its list
            if !sut.toks.is_empty() {
                let (id, own) = sut.toks[rng.below(sut.toks.len() as u64) as usize];
                let ok = step(ses, sut, format!("coll_send who={own} to={} id={id}", addr_id(&sut.minter)));
                mark_op(ses, sut, "coll_send", ok, "holder-to-minter");
            }
        }
        72..=81 => {
            let t = g.now + if rng.chance(1, 2) { rng.range(1, 30) * SEC } else { rng.range(1, 3) };
            set_time(ses, sut, g, t);
        }
        _ => do_noise(ses, sut, g, rng),
    }
}

fn new_gen(sut: &S) -> Gen {
    Gen { now: T0, pal: sut.cfg.pal, pub_count: BTreeMap::new(), wl_count: BTreeMap::new(), n_buyers: sut.cfg.n.unwrap_or(sut.cfg.fmax.min(200)) as u64 + 8, next_src: [0, 0] }
}

/// sell a collection out completely (or burn the rest), interleaving everything else, then poke the sold-out state
fn run_case(ses: &mut Session, sut: &mut S, rng: &mut Rng, header: &str, max_ops: usize) {
    ses.begin_case(sut, header);
    let mut g = new_gen(sut);
    let kind = sut.cfg.kind;
    let fixed = sut.cfg.fixed;
    ses.count(&format!("case:{}", kind.name()));
    ses.mark(format!("case:{}:n{}:end{}:wl{}:air{}", kind.name(), fmt_opt(&sut.cfg.n), sut.cfg.has_end as u8, sut.cfg.wl as u8, (sut.cfg.air > 0) as u8));
    // before anything is open
    if rng.chance(1, 2) {
        do_buyer_mint(ses, sut, &mut g, rng);
    }
    if rng.chance(1, 3) {
        do_other_op(ses, sut, &mut g, rng);
    }
    if rng.chance(1, 4) {
        do_noise(ses, sut, &mut g, rng);
    }
    if sut.cfg.wl {
        let t = *rng.pick(&[WL_START - 1, WL_START, WL_START + 1]);
        set_time(ses, sut, &mut g, t);
        for _ in 0..rng.range(1, 7) {
            if rng.chance(3, 4) {
                do_buyer_mint(ses, sut, &mut g, rng);
            } else {
                do_other_op(ses, sut, &mut g, rng);
            }
        }
        let t = *rng.pick(&[WL_END - 1, WL_END]);
        set_time(ses, sut, &mut g, t);
        do_buyer_mint(ses, sut, &mut g, rng);
    }
    // exact boundary of the public start
    let t = *rng.pick(&[START - 1, START, START + 1, START + 1]);
    set_time(ses, sut, &mut g, t);
    do_buyer_mint(ses, sut, &mut g, rng);
    set_time(ses, sut, &mut g, START + 1);
    // plan: maybe an admin BurnRemaining somewhere along the way
    let total = sut.cap.unwrap_or(rng.range(3, 40));
    let burn_at: Option<u64> = if kind != MinterKind::Base && rng.chance(3, 10) { Some(rng.below(total + 1)) } else { None };
    let mut burned = false;
    let mut ops = 0usize;
    let done_target = |sut: &S| -> bool {
        if fixed || sut.cap.is_some() { sut.m == Some(0) } else { sut.successes >= total }
    };
    while ops < max_ops && !done_target(sut) {
        ops += 1;
        let minted_so_far = if fixed { sut.seen.len() as u64 } else { sut.successes };
        if let (Some(b), false) = (burn_at, burned) {
            if minted_so_far >= b {
                burned = true;
                if kind.is_open_edition() && sut.cfg.has_end {
                    // open edition: only after the end time; probe the exact boundary first (a mint and the burn at end-1 / end / end+1)
                    let t = *rng.pick(&[END - 1, END, END + 1]);
                    set_time(ses, sut, &mut g, t);
                    do_buyer_mint(ses, sut, &mut g, rng);
                    let ok = step(ses, sut, format!("burn_remaining who={ADMIN}"));
                    mark_op(ses, sut, "burn_remaining", ok, "admin-at-end-boundary");
                    set_time(ses, sut, &mut g, END + 1);
                }
                let ok = step(ses, sut, format!("burn_remaining who={ADMIN}"));
                mark_op(ses, sut, "burn_remaining", ok, "admin");
                continue;
            }
        }
        if rng.chance(60, 100) {
            do_buyer_mint(ses, sut, &mut g, rng);
        } else {
            do_other_op(ses, sut, &mut g, rng);
        }
    }
    ses.count(if done_target(sut) { "case:reached-zero-or-target" } else { "case:cut-by-op-budget" });
    // poke the final state: nothing may be minted at zero / after a burn
    let tail = rng.range(4, 10);
    for i in 0..tail {
        match i {
            0 => do_buyer_mint(ses, sut, &mut g, rng),
            1 => {
                let ok = step(ses, sut, format!("mint_to who={ADMIN} to={} pay={}", BUYER0 + 1, sut.cfg.air));
                mark_op(ses, sut, "mint_to", ok, "tail");
            }
            2 if fixed => {
                let id = sut.seen.iter().next().copied().unwrap_or(1);
                let ok = step(ses, sut, format!("mint_for who={ADMIN} to={} id={id} pay={}", BUYER0 + 2, sut.cfg.air));
                mark_op(ses, sut, "mint_for", ok, "tail-sold");
            }
            3 if fixed => {
                let ok = step(ses, sut, format!("shuffle who={BUYER0} pay={}", sut.cfg.shf));
                mark_op(ses, sut, "shuffle", ok, "tail");
            }
            4 => {
                let ok = step(ses, sut, format!("purge who={STRANGER}"));
                mark_op(ses, sut, "purge", ok, "tail");
            }
            5 => {
                let ok = step(ses, sut, format!("burn_remaining who={ADMIN}"));
                mark_op(ses, sut, "burn_remaining", ok, "tail");
            }
            6 => do_noise(ses, sut, &mut g, rng),
            _ => {
                if rng.chance(1, 2) {
                    do_buyer_mint(ses, sut, &mut g, rng)
                } else {
                    do_other_op(ses, sut, &mut g, rng)
                }
            }
        }
    }
    ses.end_case();
}

/// Deterministic tour (no randomness besides the contracts' own): sends EVERY message variant found in the crate's schemas
/// (known ones as valid calls, unknown ones as raw JSON with several fill values, by the admin and by a stranger), `migrate`,
/// sudo, the collection addressed directly, at three points of a sale: before the start, mid-sale, at zero — and marks the
/// classes the coverage floor requires (`tour:<kind>:…`). Two cases per kind: sell-out and burn-remaining.
fn tour(ses: &mut Session, sut: &mut S, kind: MinterKind) {
    let idx = kind.idx();
    let fixed = kind.is_vending() || kind == MinterKind::TokenMerge;
    let k = kind.name();
    for burn_case in [false, true] {
        let header = if fixed {
            format!("case fam=fixed kind={idx} n=4 fmax=10000 pal=3 wl=0 air=0 shf=500000000 need=1 tour=1")
        } else if kind == MinterKind::Base {
            if burn_case {
                continue;
            }
            format!("case fam=seq kind={idx} num=- fmax=10000 end=0 pal=1 wl=0 air=0 shf=0 need=1 tour=1")
        } else {
            format!("case fam=seq kind={idx} num=4 fmax=10000 end=0 pal=3 wl=0 air=0 shf=0 need=1 tour=1")
        };
        ses.begin_case(sut, &header);
        let mut src = 0u64;
        let b = |i: u64| BUYER0 + 4 + i; // not whitelist members
        let surface = |ses: &mut Session, sut: &mut S, tag: &str| {
            // everything that is neither a mint nor shuffle / burn-remaining / purge
            let now = sut.w().time();
            let mut lines = vec![
                format!("noise who={ADMIN} what=pal arg=3"),
                format!("noise who={ADMIN} what=price arg={}", PRICE - 1_000_000),
                format!("noise who={ADMIN} what=start arg={}", START),
                format!("noise who={ADMIN} what=end arg={}", END + SEC),
                format!("noise who={ADMIN} what=tstart arg=0"),
                format!("noise who={ADMIN} what=setwl arg=0"),
                format!("noise who={ADMIN} what=disc arg={}", PRICE - 30_000_000),
                format!("noise who={ADMIN} what=rmdisc arg=0"),
                format!("noise who={ADMIN} what=status arg=1"),
                format!("noise who={ADMIN} what=fmax arg=2"),
                format!("noise who={ADMIN} what=migrate arg=0"),
                format!("noise who={STRANGER} what=migrate arg=0"),
                format!("noise who={STRANGER} what=coll_own arg=0"),
                format!("noise who={STRANGER} what=coll_accept arg=0"),
                format!("noise who={ADMIN} what=coll_own arg=0"),
            ];
            let n = sut.cfg.n.unwrap_or(4) as u64;
            let next_id = if sut.cfg.fixed { sut.pos.first().map(|x| x.1).unwrap_or(n + 1) } else { sut.last_seq + 1 };
            for who in [STRANGER, ADMIN] {
                lines.push(format!("noise who={who} what=coll_mint id={next_id} arg=0"));
            }
            for v in unknown_exec(sut) {
                for who in [ADMIN, STRANGER] {
                    for arg in [0u64, 1, 7] {
                        lines.push(format!("noise who={who} what=x:{v} arg={arg} pay=0"));
                    }
                }
                lines.push(format!("noise who={ADMIN} what=x:{v} arg=2 pay={PRICE}"));
            }
            for v in unknown_sudo(sut) {
                for arg in [0u64, 1, 7] {
                    lines.push(format!("noise who={ADMIN} what=sx:{v} arg={arg}"));
                }
            }
            let _ = now;
            for l in lines {
                let what = kv(&l, "what").unwrap_or("").to_string();
                let who = kv_u64(&l, "who").unwrap_or(0);
                let ok = step(ses, sut, l);
                if ok {
                    ses.mark(format!("tour:{}:{what}:ok:{tag}", sut.cfg.kind.name()));
                    if what == "migrate" && who == ADMIN {
                        ses.mark(format!("tour:{}:migrate-by-admin:ok", sut.cfg.kind.name()));
                    }
                }
            }
        };
        let buyer_mint = |ses: &mut Session, sut: &mut S, src: &mut u64, who: u64| -> bool {
            if sut.cfg.kind == MinterKind::TokenMerge {
                *src += 1;
                step(ses, sut, format!("deposit who={ADMIN} to={who} src={} coll=0", *src))
            } else if sut.cfg.kind == MinterKind::Base {
                step(ses, sut, format!("mint who={ADMIN} pay={BASE_FEE}"))
            } else {
                let price = sut.current_price();
                step(ses, sut, format!("mint who={who} pay={price}"))
            }
        };
        // ---- before the start
        surface(ses, sut, "before-start");
        if buyer_mint(ses, sut, &mut src, b(0)) && kind != MinterKind::Base {
            ses.mark(format!("tour:{k}:mint-before-start:ok"));
        }
        step(ses, sut, format!("t ns={}", START + 1));
        // ---- first sale, then the surface again on a live state
        if buyer_mint(ses, sut, &mut src, b(0)) {
            ses.mark(format!("tour:{k}:mint:ok"));
        }
        surface(ses, sut, "mid-sale");
        if kind == MinterKind::Base {
            if buyer_mint(ses, sut, &mut src, b(0)) {
                ses.mark(format!("tour:{k}:mint-after-migrate:ok"));
            }
            let (id, own) = sut.toks[0];
            step(ses, sut, format!("coll_send who={own} to={} id={id}", addr_id(&sut.minter)));
            if step(ses, sut, format!("coll_burn who={own} id={id}")) {
                ses.mark(format!("tour:{k}:coll_burn:ok"));
            }
            if buyer_mint(ses, sut, &mut src, b(0)) {
                ses.mark(format!("tour:{k}:mint-after-holder-burn:ok"));
            }
            ses.end_case();
            continue;
        }
        if fixed {
            if step(ses, sut, format!("shuffle who={} pay=500000000", b(1))) {
                ses.mark(format!("tour:{k}:shuffle:ok"));
            }
            // same block: MintFor of the id now in the first position, and once more (must be rejected: sold)
            let id = sut.pos[0].1;
            if step(ses, sut, format!("mint_for who={ADMIN} to={} id={id} pay=0", b(2))) {
                ses.mark(format!("tour:{k}:mint_for:ok"));
            }
            if !step(ses, sut, format!("mint_for who={ADMIN} to={} id={id} pay=0", b(2))) {
                ses.mark(format!("tour:{k}:mint_for-sold:err"));
            }
            for bad in [0u64, 5, 4_000_000_000] {
                if !step(ses, sut, format!("mint_for who={ADMIN} to={} id={bad} pay=0", b(2))) {
                    ses.mark(format!("tour:{k}:mint_for-invalid:err"));
                }
            }
            step(ses, sut, format!("mint_for who={STRANGER} to={} id={} pay=0", b(2), sut.pos[0].1));
        }
        // a holder sends / burns its token: the id must never come back
        let (id, own) = sut.toks[0];
        step(ses, sut, format!("coll_send who={own} to={} id={id}", addr_id(&sut.minter)));
        if step(ses, sut, format!("coll_burn who={own} id={id}")) {
            ses.mark(format!("tour:{k}:coll_burn:ok"));
        }
        if fixed && !step(ses, sut, format!("mint_for who={ADMIN} to={} id={id} pay=0", b(2))) {
            ses.mark(format!("tour:{k}:mint_for-burnt-by-holder:err"));
        }
        step(ses, sut, format!("burn_remaining who={STRANGER}"));
        step(ses, sut, format!("purge who={STRANGER}"));
        if burn_case {
            if step(ses, sut, format!("burn_remaining who={ADMIN}")) {
                ses.mark(format!("tour:{k}:burn_remaining:ok"));
            }
        } else {
            if step(ses, sut, format!("mint_to who={ADMIN} to={} pay=0", b(3))) {
                ses.mark(format!("tour:{k}:mint_to:ok"));
            }
            // sell the rest
            for i in 0..6u64 {
                if sut.m == Some(0) {
                    break;
                }
                buyer_mint(ses, sut, &mut src, b(1 + i % 3));
            }
            if sut.m == Some(0) {
                ses.mark(format!("tour:{k}:sold-out"));
            }
        }
        // ---- at zero: every mint path, shuffle, burn must be rejected; purge passes; the surface once more
        if sut.m == Some(0) {
            let mut all_rejected = !buyer_mint(ses, sut, &mut src, b(4));
            all_rejected &= !step(ses, sut, format!("mint_to who={ADMIN} to={} pay=0", b(3)));
            if fixed {
                let sold = *sut.seen.iter().next().unwrap_or(&1);
                all_rejected &= !step(ses, sut, format!("mint_for who={ADMIN} to={} id={sold} pay=0", b(2)));
                for idq in 1..=4u64 {
                    all_rejected &= !step(ses, sut, format!("mint_for who={ADMIN} to={} id={idq} pay=0", b(2)));
                }
                all_rejected &= !step(ses, sut, format!("shuffle who={} pay=500000000", b(1)));
            }
            all_rejected &= !step(ses, sut, format!("burn_remaining who={ADMIN}"));
            if all_rejected {
                ses.mark(format!("tour:{k}:all-rejected-at-zero"));
            }
            if step(ses, sut, format!("purge who={STRANGER}")) {
                ses.mark(format!("tour:{k}:purge:ok"));
            }
            surface(ses, sut, "at-zero");
            if !buyer_mint(ses, sut, &mut src, b(5)) {
                ses.mark(format!("tour:{k}:mint-after-surface-at-zero:err"));
            }
        }
        ses.end_case();
    }
}

fn header_for(rng: &mut Rng, kind: MinterKind, n_choice: Option<u32>) -> String {
    let ns = [1u32, 2, 3, 7, 50, 51, 101];
    let pick_n = |rng: &mut Rng| -> u32 {
        match n_choice {
            Some(n) => n,
            None => {
                // small collections often, the window-crossing sizes regularly
                if rng.chance(6, 10) { *rng.pick(&ns[..4]) } else { *rng.pick(&ns[4..]) }
            }
        }
    };
    let air = if rng.chance(1, 2) { 0 } else { 10_000_000 };
    let shf = *rng.pick(&[500_000_000u128, 1_000_000]);
    let idx = kind.idx();
    if kind.is_vending() || kind == MinterKind::TokenMerge {
        let n = pick_n(rng);
        let pal = rng.range(1, 3);
        let wl = kind.is_vending() && rng.chance(4, 10);
        let need = if kind == MinterKind::TokenMerge { rng.range(1, 2) } else { 1 };
        let fmax = *rng.pick(&[n, n + 1, 10_000]);
        format!("case fam=fixed kind={idx} n={n} fmax={fmax} pal={pal} wl={} air={air} shf={shf} need={need}", wl as u8)
    } else if kind == MinterKind::Base {
        format!("case fam=seq kind={idx} num=- fmax=10000 end=0 pal=1 wl=0 air=0 shf=0 need=1")
    } else {
        // open edition: configured cap, or none (then an end time is mandatory and the airdrop price must be non-zero)
        let capped = rng.chance(7, 10);
        let wl = rng.chance(3, 10);
        if capped {
            let n = pick_n(rng);
            let fmax = *rng.pick(&[n, n + 1, 10_000]);
            let pal = rng.range(1, 50).min(50);
            format!("case fam=seq kind={idx} num={n} fmax={fmax} end={} pal={pal} wl={} air={air} shf=0 need=1", rng.below(2), wl as u8)
        } else {
            let fmax = *rng.pick(&[1u32, 2, 3, 7, 50, 51]);
            let pal = rng.range(1, 50);
            format!("case fam=seq kind={idx} num=- fmax={fmax} end=1 pal={pal} wl={} air=10000000 shf=0 need=1", wl as u8)
        }
    }
}

/// every op sequence of a fixed length over a small alphabet, on tiny collections (model validation)
fn exhaustive(ses: &mut Session, sut: &mut S, kind: MinterKind, n: u32, depth: usize) {
    let fixed = kind.is_vending() || kind == MinterKind::TokenMerge;
    let b0 = BUYER0 + 5;
    let b1 = BUYER0 + 6;
    let mid = (n + 1) / 2;
    let alphabet: Vec<String> = if fixed {
        let first = if kind == MinterKind::TokenMerge { format!("deposit who={ADMIN} to={b0} src=@ coll=0") } else { format!("mint who={b0} pay={PRICE}") };
        vec![
            first,
            format!("mint_to who={ADMIN} to={b1} pay=0"),
            format!("mint_for who={ADMIN} to={b0} id=1 pay=0"),
            format!("mint_for who={ADMIN} to={b0} id={mid} pay=0"),
            format!("mint_for who={ADMIN} to={b0} id={n} pay=0"),
            format!("shuffle who={ADMIN} pay=500000000"),
            format!("burn_remaining who={ADMIN}"),
            format!("purge who={b1}"),
            format!("coll_burn who={b0} id=1"),
            format!("noise who={ADMIN} what=migrate arg=0"),
        ]
    } else {
        vec![
            format!("mint who={b0} pay={PRICE}"),
            format!("mint who={b1} pay={PRICE}"),
            format!("mint_to who={ADMIN} to={b1} pay=0"),
            format!("burn_remaining who={ADMIN}"),
            format!("purge who={b1}"),
            format!("coll_burn who={b0} id=1"),
            format!("noise who={ADMIN} what=fmax arg=1"),
            format!("noise who={ADMIN} what=migrate arg=0"),
        ]
    };
    let k = alphabet.len();
    let total = k.pow(depth as u32);
    let header = if fixed {
        format!("case fam=fixed kind={} n={n} fmax=10000 pal=3 wl=0 air=0 shf=500000000 need=1 exhaustive=1", kind.idx())
    } else {
        format!("case fam=seq kind={} num={n} fmax=10000 end=0 pal=3 wl=0 air=0 shf=0 need=1 exhaustive=1", kind.idx())
    };
    for code in 0..total {
        ses.begin_case(sut, &header);
        step(ses, sut, format!("t ns={}", START + 1));
        let mut c = code;
        let mut src = 0u64;
        for _ in 0..depth {
            let mut l = alphabet[c % k].clone();
            c /= k;
            if l.contains("src=@") {
                src += 1;
                l = l.replace("src=@", &format!("src={src}"));
            }
            step(ses, sut, l);
        }
        ses.end_case();
    }
    ses.mark(format!("exhaustive:{}:n{n}:depth{depth}", kind.name()));
    ses.note(format!("exhaustive: all {total} op sequences of length {depth} over {k} ops on {} with n={n}", kind.name()));
}

fn main() {
    let mut ses = Session::new("C01");
    let mut sut = S::new();
    if ses.maybe_replay(&mut sut) {
        ses.finish(&mut sut);
    }
    let mut rng = ses.rng.fork();

    // 0. the message surface, enumerated at run time from the crates' JSON schemas; deterministic tour; coverage floor
    let sudo_vs: Vec<String> = schema_variants(&sudo_schema()).into_iter().map(|x| x.0).collect();
    assert!(!sudo_vs.is_empty(), "no SudoMsg variants found in the schema");
    for kind in ALL_MINTERS {
        let k = kind.name();
        let vs: Vec<String> = schema_variants(&exec_schema(kind)).into_iter().map(|x| x.0).collect();
        assert!(vs.iter().any(|v| v == "mint" || v == "receive_nft"), "schema enumeration of {k} found no mint variant: {:?}", vs);
        for v in &vs {
            ses.require(format!("sent:{k}:{v};"));
            if !KNOWN_EXEC.contains(&v.as_str()) {
                ses.mark(format!("unknown-variant:{k}:{v}"));
                ses.note(format!("ExecuteMsg variant `{v}` of {k} is not known to the C01 harness: sent as raw JSON built from the schema (noise what=x:{v}) under all monitors"));
            }
        }
        for v in &sudo_vs {
            ses.require(format!("sent:{k}:sudo:{v};"));
            if !KNOWN_SUDO.contains(&v.as_str()) {
                ses.mark(format!("unknown-variant:{k}:sudo:{v}"));
                ses.note(format!("SudoMsg variant `{v}` is not known to the C01 harness: sent as raw JSON (noise what=sx:{v})"));
            }
        }
        ses.require(format!("sent:{k}:migrate;"));
        ses.require(format!("tour:{k}:mint:ok"));
        ses.require(format!("tour:{k}:coll_burn:ok"));
        if kind == MinterKind::Base {
            ses.require(format!("tour:{k}:mint-after-holder-burn:ok"));
        } else {
            for c in ["mint_to:ok", "burn_remaining:ok", "purge:ok", "sold-out", "all-rejected-at-zero", "mint-after-surface-at-zero:err", "migrate-by-admin:ok", "status:ok:mid-sale"] {
                ses.require(format!("tour:{k}:{c}"));
            }
        }
        if kind.is_vending() || kind == MinterKind::TokenMerge {
            for c in ["shuffle:ok", "mint_for:ok", "mint_for-sold:err", "mint_for-invalid:err", "mint_for-burnt-by-holder:err"] {
                ses.require(format!("tour:{k}:{c}"));
            }
        }
        if kind.is_vending() || kind.is_open_edition() {
            ses.require(format!("tour:{k}:setwl:ok:before-start"));
        }
        tour(&mut ses, &mut sut, kind);
    }
    ses.count(&format!("surface:exec-variants-total:{}", ALL_MINTERS.iter().map(|k| schema_variants(&exec_schema(*k)).len()).sum::<usize>()));

    // 1. every minter kind × every collection size of the window logic, sold out completely
    let sizes: [u32; 7] = [1, 2, 3, 7, 50, 51, 101];
    let big_rounds = ses.scale(2, 12);
    for _round in 0..big_rounds {
        for kind in ALL_MINTERS {
            if kind == MinterKind::Base {
                continue;
            }
            for &n in &sizes {
                let h = header_for(&mut rng, kind, Some(n));
                run_case(&mut ses, &mut sut, &mut rng, &h, 12 * n as usize + 40);
            }
        }
    }
    // 2. random configurations (incl. uncapped open editions with a tiny factory cap, base minter)
    let n_random = ses.scale(700, 12000);
    for _ in 0..n_random {
        let kind = *rng.pick(&ALL_MINTERS);
        let h = header_for(&mut rng, kind, None);
        run_case(&mut ses, &mut sut, &mut rng, &h, 400);
    }
    // 3. exhaustive small scopes
    if ses.tier() == Tier::Thorough {
        exhaustive(&mut ses, &mut sut, MinterKind::Vending, 3, 3);
        exhaustive(&mut ses, &mut sut, MinterKind::VendingFeatured, 2, 3);
        exhaustive(&mut ses, &mut sut, MinterKind::VendingFlex, 2, 3);
        exhaustive(&mut ses, &mut sut, MinterKind::VendingFlexFeatured, 3, 3);
        exhaustive(&mut ses, &mut sut, MinterKind::VendingMerkle, 3, 3);
        exhaustive(&mut ses, &mut sut, MinterKind::VendingMerkleFeatured, 2, 3);
        exhaustive(&mut ses, &mut sut, MinterKind::TokenMerge, 3, 3);
        exhaustive(&mut ses, &mut sut, MinterKind::OpenEdition, 2, 4);
        exhaustive(&mut ses, &mut sut, MinterKind::OpenEditionFlex, 2, 4);
        exhaustive(&mut ses, &mut sut, MinterKind::OpenEditionMerkle, 2, 4);
    } else {
        exhaustive(&mut ses, &mut sut, MinterKind::Vending, 3, 2);
        exhaustive(&mut ses, &mut sut, MinterKind::VendingFlexFeatured, 3, 2);
        exhaustive(&mut ses, &mut sut, MinterKind::TokenMerge, 3, 2);
        exhaustive(&mut ses, &mut sut, MinterKind::OpenEdition, 2, 2);
    }
    // 4. diagnostics that never change the verdict
    for d in source_divergence() {
        println!("DRIFT property=C01 outside-projection variant-source {d}");
        ses.note(format!("variant-source drift (one model for seven crates): {d}"));
    }
    if sut.eff_surprises > 0 {
        println!("DRIFT property=C01 outside-projection token-merge deposits whose completion differed from the harness' own requirement bookkeeping (last case): {}", sut.eff_surprises);
    }
    ses.note("collection sizes n ∈ {1,2,3,7,50,51,101} (first/last-50 pick window crossed); open editions with configured cap, with the factory cap captured at creation (tiny factory limits), and uncapped (-wl-flex); whitelist (plain/flex/merkle) stages before the public start; exact instants start-1ns/start/start+1ns, wl start/end, end-1/end/end+1 for mint + BurnRemaining");
    ses.note("gate witness: `ok || ghost_rejects` — ghost_rejects is computed BEFORE the call from the harness' own bookkeeping (ids it minted, what it burned, successful mints, owners), never from an error text; error texts only feed the DRIFT field sup=");
    ses.note("message surface: every ExecuteMsg / SudoMsg variant found in the crates' JSON schemas at run time + migrate must have been sent (coverage floor sent:<kind>:<variant>;), unknown variants as raw JSON built from the schema");
    ses.finish(&mut sut);
}
