//! compsysoe2 — differential correspondence of the open-edition SYSTEM composite 2 `LP.SysOE2`
//! (lean/LaunchpadModel/Model/LaunchpadSystemOE2.lean, driver `drv_compsysoe2`) against the REAL open-edition-factory + the three
//! open-edition minter crates + the seven whitelist crates + the four sg721 collection crates under cw-multi-test.
//! `LP.SysOE2` = `LP.SysOE` (compsysoe.rs) with the simplified collection interface replaced by the full collection model `LP.CF`
//! (compcoll.rs), exactly as compsys2.rs does for the vending family: the minter's `Mint` / `UpdateStartTradingTime` sub-messages
//! and the sg721 `instantiate` are executed by the collection model, and EVERY collection message by any sender (holders, creator,
//! strangers, the minter address itself), both collection migrations and the stored-version environment op are protocol lines.
//! Every answer carries the complete observable state of all contracts (`T … F … M … C=… B … W …`), also on `err`; collection
//! queries with parameters are separate `q_*` lines. Witnesses: allocated addresses (`maddr=`, `caddr=`, `self=`), `Url::parse` of
//! the strings on the line (`iv=`, `ev=`) and what the receiver stub outside the system answers to `ReceiveNft` (`recv=`) — all
//! computed BEFORE the call. No monitors: all output is primary. Protocol: docs/COMPOSITE_SYSTEM_OE2.md, Driver/CompSysOe2.lean.
//! (Sut / generators: compsysoe.rs with the collection side of compsys2.rs.)
use cosmwasm_schema::cw_serde;
use cosmwasm_std::{to_json_binary, Addr, Binary, BlockInfo, Decimal, Deps, DepsMut, Empty, Env, MessageInfo, Order, Response, StdError, StdResult, Timestamp, Uint128};
use cw_multi_test::ContractWrapper;
use cw_storage_plus::Item;
use lp_harness::boxes::Boxed;
use lp_harness::minters::*;
use lp_harness::world::{denom, denom_id};
use lp_harness::*;
use serde_json::{json, Map, Value};
use std::collections::{BTreeMap, BTreeSet, HashMap};
use std::sync::OnceLock;

const ADMIN: u64 = 10;
const WLADMIN: u64 = 11;
const PAYEE: u64 = 12;
/// `dev_fee_address` of the factory params
const DEV: u64 = 13;
const BUYERS: [u64; 4] = [20, 21, 22, 23];
const STRANGER: u64 = 30;
/// royalty payees of the collection traffic
const PAYEES: [u64; 2] = [40, 41];
/// ids 900..=999: strings `MockApi::addr_validate` rejects (the collection model's convention, `Sg721.validAddr`)
const BADADDR: [u64; 4] = [900, 901, 902, 903];
/// the receiver stub (a contract OUTSIDE the system that implements `ReceiveNft`): second contract of every case
const STUB: u64 = 1001;
const ACCTS: [u64; 16] = [1, 2, 3, 4, 10, 11, 12, 13, 20, 21, 22, 23, 30, 40, 41, 1001];
/// the addresses every whitelist is asked about after every op (`HasMember`, `Member`, `StageMemberInfo`, `CanExecute`, …);
/// 90001 renders as a string `MockApi::addr_validate` rejects
const UNI: [u64; 7] = [20, 21, 22, 23, 30, 11, 90001];
const INVALID: u64 = 90001;
const SEC: u64 = 1_000_000_000;
const DAY_NS: u64 = 86_400_000_000_000;
/// first block height of a case
const H0: u64 = 100;
/// a string `addr_validate` rejects
const BAD_ADDR: &str = "X";

// ------------------------------------------------------------------------------------------------ names (cached)

fn sg1() -> &'static (String, String, String) {
    static C: OnceLock<(String, String, String)> = OnceLock::new();
    C.get_or_init(lp_harness::world::sg1_addrs)
}
fn ad(id: u64) -> String {
    match id {
        1 => sg1().0.clone(),
        2 => sg1().1.clone(),
        3 => sg1().2.clone(),
        4 => "fairburn_pool".to_string(),
        n if (900..1000).contains(&n) => match n % 4 {
            0 => "ab".to_string(),        // too short
            1 => format!("Acct{:05}", n), // not normalised (upper case)
            2 => "x".repeat(100),         // too long
            _ => String::new(),           // empty
        },
        n if n >= 90000 => format!("z{}", n - 90000),
        n if n >= 1000 => format!("contract{}", n - 1000),
        n => format!("acct{:05}", n),
    }
}
fn aid(s: &str) -> u64 {
    let (f, l, q) = sg1();
    if s == f {
        return 1;
    }
    if s == l {
        return 2;
    }
    if s == q {
        return 3;
    }
    if s == "fairburn_pool" {
        return 4;
    }
    for n in BADADDR {
        if s == ad(n) {
            return n;
        }
    }
    if let Some(k) = s.strip_prefix("contract") {
        if let Ok(k) = k.parse::<u64>() {
            return 1000 + k;
        }
    }
    if let Some(k) = s.strip_prefix("acct") {
        if let Ok(k) = k.parse::<u64>() {
            return k;
        }
    }
    if let Some(k) = s.strip_prefix('z') {
        if let Ok(k) = k.parse::<u64>() {
            return 90000 + k;
        }
    }
    900_000_000
}

// ------------------------------------------------------------------------------------------------ receiver stub (outside the system)

#[cw_serde]
pub enum StubExec {
    /// cw721 receiver hook; refuses the token when the payload is `fail`
    ReceiveNft(cw721::Cw721ReceiveMsg),
}
fn stub_instantiate(_d: DepsMut, _e: Env, _i: MessageInfo, _m: Empty) -> StdResult<Response> {
    Ok(Response::new())
}
fn stub_execute(_d: DepsMut, _e: Env, _i: MessageInfo, m: StubExec) -> StdResult<Response> {
    match m {
        StubExec::ReceiveNft(r) => {
            if r.msg.as_slice() == b"fail" {
                Err(StdError::generic_err("stub refuses this token"))
            } else {
                Ok(Response::new())
            }
        }
    }
}
fn stub_query(_d: Deps, _e: Env, _m: Empty) -> StdResult<Binary> {
    to_json_binary(&Empty {})
}
fn stub_box() -> Boxed {
    Box::new(ContractWrapper::new(stub_execute, stub_instantiate, stub_query))
}

// ------------------------------------------------------------------------------------------------ collection strings (as compcoll.rs)

fn url_str(id: u64) -> String {
    let n = id / 6;
    match id % 6 {
        0 => format!("https://example.com/{n}"),
        1 => format!("ipfs://bafy{n}/img.png"),
        2 => format!("not-a-url-{n}"),
        3 => format!("//missing-scheme/{n}"),
        4 => format!("http://[::1/{n}"),
        _ => format!("data:text/plain,{n}"),
    }
}
fn url_valid(id: u64) -> bool {
    url::Url::parse(&url_str(id)).is_ok()
}
fn url_ids() -> &'static HashMap<String, u64> {
    static C: OnceLock<HashMap<String, u64>> = OnceLock::new();
    C.get_or_init(|| (0..60).map(|i| (url_str(i), i)).collect())
}
fn url_id(s: &str) -> u64 {
    *url_ids().get(s).unwrap_or(&999_999)
}
fn desc_str(id: u64, len: u64) -> String {
    let len = len as usize;
    if len < 6 {
        return "x".repeat(len);
    }
    let head = format!("{:06}", id % 1_000_000);
    let rest = len - 6;
    let s = if id % 2 == 1 && rest % 2 == 0 { head + &"é".repeat(rest / 2) } else { head + &"x".repeat(rest) };
    assert_eq!(s.len(), len);
    s
}
fn desc_back(s: &str) -> (u64, u64) {
    let len = s.len() as u64;
    let id = if s.len() >= 6 { s.get(..6).and_then(|h| h.parse::<u64>().ok()).unwrap_or(999_999) } else { 0 };
    (id, len)
}
fn tok_uri_str(id: u64) -> String {
    format!("ipfs://meta/{id}.json")
}
/// `token_uri` string -> interned id: `ipfs://meta/<n>.json` (holders' / creator's messages) is `n`; `<base_token_uri>/<id>` (what the
/// minter writes) is `URI_BASE + id`
fn uri_back(s: &str, base: &str) -> u64 {
    if let Some(n) = s.strip_prefix("ipfs://meta/").and_then(|r| r.strip_suffix(".json")).and_then(|n| n.parse::<u64>().ok()) {
        return n;
    }
    // what an off-chain edition writes: `nft_data.token_uri` = `ipfs://edition/<turi>.json`
    let _ = base;
    if let Some(n) = s.strip_prefix("ipfs://edition/").and_then(|r| r.strip_suffix(".json")).and_then(|n| n.parse::<u64>().ok()) {
        return n;
    }
    999_999
}
fn exp_json(e: &str) -> Value {
    match e {
        "-" => Value::Null,
        "n" => json!({"never": {}}),
        x if x.starts_with('h') => json!({"at_height": x[1..].parse::<u64>().unwrap_or(0)}),
        x if x.starts_with('t') => json!({"at_time": x[1..].to_string()}),
        _ => Value::Null,
    }
}
fn exp_back(e: &cw_utils::Expiration) -> String {
    match e {
        cw_utils::Expiration::Never {} => "n".into(),
        cw_utils::Expiration::AtHeight(h) => format!("h{h}"),
        cw_utils::Expiration::AtTime(t) => format!("t{}", t.nanos()),
    }
}
fn exp_of_json(v: &Value) -> String {
    serde_json::from_value::<cw_utils::Expiration>(v.clone()).map(|e| exp_back(&e)).unwrap_or("?".into())
}
fn parse_exp(e: &str) -> Option<(char, u64)> {
    if e == "n" || e == "-" || e.len() < 2 {
        None
    } else {
        Some((e.chars().next().unwrap(), e[1..].parse().ok()?))
    }
}
fn share_str(atomics: u128) -> String {
    Decimal::new(Uint128::new(atomics)).to_string()
}
fn kind_of_name(n: &str) -> String {
    match n {
        "crates.io:sg721-base" | "sg721-base" => "base",
        "crates.io:sg721-nt" => "nt",
        "crates.io:sg721-updatable" | "sg721-updatable" => "updatable",
        "crates.io:sg721-metadata-onchain" => "onchain",
        x => x,
    }
    .to_string()
}
const KINDS: [&str; 4] = ["base", "updatable", "nt", "onchain"];
fn dash(v: Vec<String>, sep: &str) -> String {
    if v.is_empty() {
        "-".to_string()
    } else {
        v.join(sep)
    }
}
fn ob(b: &Option<bool>) -> &'static str {
    match b {
        None => "-",
        Some(true) => "1",
        Some(false) => "0",
    }
}
/// approvals of a cw721 answer, canonical: sorted by spender id, `sp@exp+…`
fn approvals_of(v: &Value) -> Vec<(u64, String)> {
    let mut a: Vec<(u64, String)> = v.as_array().map(|x| x.iter().map(|ap| (aid(ap["spender"].as_str().unwrap_or("?")), exp_of_json(&ap["expires"]))).collect()).unwrap_or_default();
    a.sort();
    a
}
fn render_approvals(a: &[(u64, String)]) -> String {
    dash(a.iter().map(|(s, e)| format!("{s}@{e}")).collect(), "+")
}

#[derive(Clone, PartialEq, Debug, Default)]
struct Tok {
    id: u64,
    owner: u64,
    uri: Option<u64>,
    ext: u64,
    approvals: Vec<(u64, String)>,
    live: Vec<u64>,
}
/// the complete observable state of the collection contract (as compcoll.rs)
#[derive(Clone, PartialEq, Debug, Default)]
struct Obs {
    this: u64,
    kind: String,
    ver: String,
    nm: (u64, u64),
    owner: Option<u64>,
    pending: Option<u64>,
    pexp: Option<String>,
    leg: Option<u64>,
    fz: bool,
    rua: u64,
    creator: u64,
    desc: (u64, u64),
    img: u64,
    ext: Option<u64>,
    ec: Option<bool>,
    stt: Option<u64>,
    roy: Option<(u64, u128)>,
    n: u64,
    toks: Vec<Tok>,
    /// (granter, operator, expiry, not expired in the current block)
    ops: Vec<(u64, u64, String, bool)>,
    fm: bool,
    ue: bool,
}
impl Obs {
    fn tok(&self, id: u64) -> Option<&Tok> {
        self.toks.iter().find(|t| t.id == id)
    }
    fn render(&self) -> String {
        let toks: Vec<String> = self
            .toks
            .iter()
            .map(|t| format!("{}/{}/{}/{}/{}/{}", t.id, t.owner, fmt_opt(&t.uri), t.ext, render_approvals(&t.approvals), dash(t.live.iter().map(|s| s.to_string()).collect(), "+")))
            .collect();
        let ops: Vec<String> = self.ops.iter().map(|(o, p, e, l)| format!("{o}>{p}@{e}/{}", *l as u8)).collect();
        format!(
            "C={} k={} v={} nm={}/{} own={}/{}/{} leg={} fz={} rua={} cr={} desc={}:{} img={} ext={} ec={} stt={} roy={} n={} toks={} ops={} fm={} ue={}",
            self.this,
            self.kind,
            self.ver,
            self.nm.0,
            self.nm.1,
            fmt_opt(&self.owner),
            fmt_opt(&self.pending),
            self.pexp.clone().unwrap_or("-".into()),
            fmt_opt(&self.leg),
            self.fz as u8,
            self.rua,
            self.creator,
            self.desc.0,
            self.desc.1,
            self.img,
            fmt_opt(&self.ext),
            ob(&self.ec),
            fmt_opt(&self.stt),
            self.roy.map(|(p, s)| format!("{p}:{s}")).unwrap_or("-".into()),
            self.n,
            dash(toks, ";"),
            dash(ops, ","),
            self.fm as u8,
            self.ue as u8
        )
    }
}

// ------------------------------------------------------------------------------------------------ merkle trees (as c04)

type LeafT = (Option<u64>, u64, Option<u64>);

fn hash(tiered: bool, data: &[u8]) -> Vec<u8> {
    if tiered {
        blake3::hash(data).as_bytes()[..16].to_vec()
    } else {
        use sha2::Digest;
        sha2::Sha256::digest(data).to_vec()
    }
}
fn leaf_string(l: &LeafT) -> String {
    format!("{}{}{}", l.0.map(|s| s.to_string()).unwrap_or_default(), ad(l.1), l.2.map(|s| s.to_string()).unwrap_or_default())
}
#[derive(Clone, Debug, Default)]
struct Tree {
    layers: Vec<Vec<Vec<u8>>>,
}
impl Tree {
    fn build(tiered: bool, leaves: &[LeafT]) -> Tree {
        let mut layers = vec![leaves.iter().map(|l| hash(tiered, leaf_string(l).as_bytes())).collect::<Vec<_>>()];
        while layers.last().unwrap().len() > 1 {
            let cur = layers.last().unwrap();
            let mut next = vec![];
            for ch in cur.chunks(2) {
                if ch.len() == 2 {
                    let mut pair = [ch[0].clone(), ch[1].clone()];
                    pair.sort();
                    next.push(hash(tiered, &pair.concat()));
                } else {
                    next.push(ch[0].clone());
                }
            }
            layers.push(next);
        }
        Tree { layers }
    }
    fn root_hex(&self, tiered: bool) -> String {
        match self.layers.last().and_then(|l| l.first()) {
            Some(r) => hex::encode(r),
            None => hex::encode(hash(tiered, b"empty-tree")),
        }
    }
    fn proof(&self, mut idx: usize) -> Vec<String> {
        let mut out = vec![];
        for layer in &self.layers[..self.layers.len().saturating_sub(1)] {
            let sib = idx ^ 1;
            if sib < layer.len() {
                out.push(hex::encode(&layer[sib]));
            }
            idx /= 2;
        }
        out
    }
}

// ------------------------------------------------------------------------------------------------ whitelist bookkeeping

#[derive(Clone, Debug, Default)]
struct StageInfo {
    start: u64,
    end: u64,
    price: u128,
    per_addr: u64,
    cnt_limit: Option<u64>,
    members: Vec<(u64, u64)>,
    leaves: Vec<LeafT>,
}
#[derive(Clone, Debug)]
struct WlRec {
    addr: String,
    kind: WlKind,
    denom: u64,
    stages: Vec<StageInfo>,
    trees: Vec<Tree>,
}
fn wl_kind_idx(k: WlKind) -> usize {
    ALL_WL.iter().position(|x| *x == k).unwrap()
}
fn is_tiered(k: WlKind) -> bool {
    matches!(k, WlKind::Tiered | WlKind::TieredFlex | WlKind::TieredMerkle)
}
fn is_merkle(k: WlKind) -> bool {
    matches!(k, WlKind::Merkle | WlKind::TieredMerkle)
}
fn is_flex(k: WlKind) -> bool {
    matches!(k, WlKind::Flex | WlKind::TieredFlex)
}
fn ox<T: std::fmt::Display>(x: &Option<T>) -> String {
    match x {
        Some(v) => v.to_string(),
        None => "x".into(),
    }
}
fn parse_ox(s: &str) -> Option<u64> {
    if s == "x" || s == "-" {
        None
    } else {
        s.parse().ok()
    }
}
impl WlRec {
    /// generator-side notion of the stage in force (only used to choose plausible buyers / proofs)
    fn active_stage(&self, now: u64) -> Option<usize> {
        if self.kind == WlKind::Immutable {
            return None;
        }
        if is_tiered(self.kind) {
            self.stages.iter().position(|s| s.start <= now && now <= s.end)
        } else {
            self.stages.first().and_then(|s| if s.start <= now && now < s.end { Some(0) } else { None })
        }
    }
}
/// `wl kind= denom= st=<start:end:price:per:cl;…> mem=<a:c,…;…> lv=<stage|x:who:alloc|x,…;…>`
fn parse_wl_line(line: &str) -> Option<(WlKind, u64, Vec<StageInfo>)> {
    let kind = *ALL_WL.get(kv_u64(line, "kind")? as usize)?;
    let denom = kv_u64(line, "denom")?;
    let groups = |key: &str| -> Vec<String> {
        match kv(line, key) {
            None | Some("-") | Some("") => vec![],
            Some(v) => v.split(';').map(String::from).collect(),
        }
    };
    let mut stages = vec![];
    let mems = groups("mem");
    let lvs = groups("lv");
    for (i, g) in groups("st").iter().enumerate() {
        let p: Vec<&str> = g.split(':').collect();
        if p.len() != 5 {
            return None;
        }
        let members: Vec<(u64, u64)> = match mems.get(i).map(|s| s.as_str()) {
            None | Some("-") | Some("") => vec![],
            Some(m) => m.split(',').filter_map(|x| x.split_once(':')).filter_map(|(a, b)| Some((a.parse().ok()?, b.parse().ok()?))).collect(),
        };
        let leaves: Vec<LeafT> = match lvs.get(i).map(|s| s.as_str()) {
            None | Some("-") | Some("") => vec![],
            Some(m) => m
                .split(',')
                .filter_map(|x| {
                    let q: Vec<&str> = x.split(':').collect();
                    if q.len() != 3 {
                        return None;
                    }
                    Some((parse_ox(q[0]), q[1].parse().ok()?, parse_ox(q[2])))
                })
                .collect(),
        };
        stages.push(StageInfo { start: p[0].parse().ok()?, end: p[1].parse().ok()?, price: p[2].parse().ok()?, per_addr: p[3].parse().ok()?, cnt_limit: parse_ox(p[4]), members, leaves });
    }
    Some((kind, denom, stages))
}

/// what a whitelist contract answers to the sender-independent queries of a minter — GENERATOR AID ONLY (phase-aware op
/// choice); nothing of it reaches the model
#[derive(Clone, Debug, PartialEq, Default)]
struct WInfo {
    kind: usize,
    active: bool,
    pd: u64,
    pa: u128,
    limit: u64,
    mcfg: bool,
    sid: u64,
    slim: Option<u64>,
}

// ------------------------------------------------------------------------------------------------ whitelist line format (as compwl.rs)

fn uri_str(id: u64) -> String {
    format!("https://example.com/tree/{id}")
}
fn uri_id(s: &str) -> u64 {
    s.strip_prefix("https://example.com/tree/").and_then(|k| k.parse().ok()).unwrap_or(999_999)
}
fn stage_name(n: u64) -> String {
    format!("stage{n}")
}
fn stage_name_id(s: &str) -> u64 {
    s.strip_prefix("stage").and_then(|k| k.parse().ok()).unwrap_or(999_999)
}
fn wnanos(v: &Value) -> u64 {
    v.as_str().and_then(|x| x.parse().ok()).unwrap_or(0)
}
fn b01(b: bool) -> &'static str {
    if b {
        "1"
    } else {
        "0"
    }
}
fn rob(v: Result<Value, String>, key: &str) -> String {
    match v {
        Ok(v) => match v[key].as_bool() {
            Some(b) => b01(b).to_string(),
            None => "e".into(),
        },
        Err(_) => "e".into(),
    }
}
#[derive(Clone, Debug, Default)]
struct StageT {
    name: u64,
    start: u64,
    end: u64,
    denom: u64,
    price: u128,
    pal: u64,
    mcl: Option<u64>,
}
impl StageT {
    fn render(&self) -> String {
        format!("{}:{}:{}:{}:{}:{}:{}", self.name, self.start, self.end, self.denom, self.price, self.pal, fmt_opt(&self.mcl))
    }
    fn parse(s: &str) -> Option<StageT> {
        let p: Vec<&str> = s.split(':').collect();
        if p.len() != 7 {
            return None;
        }
        Some(StageT {
            name: p[0].parse().ok()?,
            start: p[1].parse().ok()?,
            end: p[2].parse().ok()?,
            denom: p[3].parse().ok()?,
            price: p[4].parse().ok()?,
            pal: p[5].parse().ok()?,
            mcl: if p[6] == "-" { None } else { Some(p[6].parse().ok()?) },
        })
    }
    fn json(&self, flex: bool) -> Value {
        let mut v = json!({"name": stage_name(self.name), "start_time": self.start.to_string(), "end_time": self.end.to_string(),
            "mint_price": {"denom": denom(self.denom), "amount": self.price.to_string()}, "mint_count_limit": self.mcl});
        if !flex {
            v["per_address_limit"] = json!(self.pal);
        }
        v
    }
    fn of_json(v: &Value) -> StageT {
        StageT {
            name: stage_name_id(v["name"].as_str().unwrap_or("?")),
            start: wnanos(&v["start_time"]),
            end: wnanos(&v["end_time"]),
            denom: denom_id(v["mint_price"]["denom"].as_str().unwrap_or("?")),
            price: v["mint_price"]["amount"].as_str().and_then(|x| x.parse().ok()).unwrap_or(0),
            pal: v["per_address_limit"].as_u64().unwrap_or(0),
            mcl: v["mint_count_limit"].as_u64(),
        }
    }
}
fn render_stages(l: &[StageT]) -> String {
    if l.is_empty() {
        "-".into()
    } else {
        l.iter().map(|s| s.render()).collect::<Vec<_>>().join(";")
    }
}
fn parse_stages(s: &str) -> Vec<StageT> {
    if s == "-" {
        vec![]
    } else {
        s.split(';').filter_map(StageT::parse).collect()
    }
}
fn parse_lists(s: &str) -> Vec<Vec<(u128, u128)>> {
    if s == "~" {
        return vec![];
    }
    s.split('|')
        .map(|p| {
            if p == "-" || p.is_empty() {
                vec![]
            } else {
                p.split(',').filter_map(|x| { let (a, b) = x.split_once(':')?; Some((a.parse().ok()?, b.parse().ok()?)) }).collect()
            }
        })
        .collect()
}
fn render_lists(l: &[Vec<(u64, u64)>]) -> String {
    if l.is_empty() {
        "~".into()
    } else {
        l.iter().map(|x| fmt_pairs(x)).collect::<Vec<_>>().join("|")
    }
}
fn members_json(flex: bool, ms: &[(u128, u128)]) -> Value {
    if flex {
        Value::Array(ms.iter().map(|(a, c)| json!({"address": ad(*a as u64), "mint_count": *c as u64})).collect())
    } else {
        Value::Array(ms.iter().map(|(a, _)| json!(ad(*a as u64))).collect())
    }
}
fn str_list(line: &str, key: &str) -> Vec<String> {
    match kv(line, key) {
        None | Some("-") => vec![],
        Some(v) => v.split(',').map(|x| x.to_string()).collect(),
    }
}
fn kflex(k: usize) -> bool {
    matches!(k, 1 | 3)
}
fn inst_json(k: usize, line: &str) -> Value {
    let admins: Vec<String> = kv_list(line, "admins").unwrap_or_default().iter().map(|a| ad(*a as u64)).collect();
    let mu = kv_bool(line, "mut").unwrap_or(true);
    let start = kv_u64(line, "start").unwrap_or(0).to_string();
    let end = kv_u64(line, "end").unwrap_or(0).to_string();
    let price = kv_pairs(line, "price").unwrap_or_default().first().cloned().unwrap_or((0, 0));
    let price = json!({"denom": denom(price.0 as u64), "amount": price.1.to_string()});
    let pal = kv_u64(line, "pal").unwrap_or(0);
    let limit = kv_u64(line, "limit").unwrap_or(0);
    let whale = kv_opt_u64(line, "whale").unwrap_or(None);
    let members = kv_pairs(line, "members").unwrap_or_default();
    let stages = parse_stages(kv(line, "stages").unwrap_or("-"));
    let sm = parse_lists(kv(line, "smembers").unwrap_or("~"));
    let roots = str_list(line, "roots");
    let uriok = kv_bool(line, "uriok").unwrap_or(true);
    let uris: Option<Vec<String>> = match kv(line, "uris") {
        Some("none") | None => None,
        Some(_) => Some(kv_list(line, "uris").unwrap_or_default().iter().map(|u| uri_str(*u as u64)).collect()),
    };
    let dbps = kv_opt_u64(line, "dbps").unwrap_or(None);
    let flex = kflex(k);
    match k {
        0 => json!({"members": members_json(false, &members), "start_time": start, "end_time": end, "mint_price": price,
            "per_address_limit": pal, "member_limit": limit, "admins": admins, "admins_mutable": mu}),
        1 => json!({"members": members_json(true, &members), "start_time": start, "end_time": end, "mint_price": price,
            "member_limit": limit, "admins": admins, "admins_mutable": mu, "whale_cap": whale}),
        2 | 3 => {
            let mut v = json!({"members": sm.iter().map(|l| members_json(flex, l)).collect::<Vec<_>>(),
                "stages": stages.iter().map(|s| s.json(flex)).collect::<Vec<_>>(), "member_limit": limit, "admins": admins, "admins_mutable": mu});
            if flex {
                v["whale_cap"] = json!(whale);
            }
            v
        }
        4 => {
            let uri: Value = if !uriok {
                json!("::not a url::")
            } else {
                match &uris {
                    Some(l) if !l.is_empty() => json!(l[0]),
                    _ => Value::Null,
                }
            };
            json!({"merkle_root": roots.first().cloned().unwrap_or_default(), "merkle_tree_uri": uri, "start_time": start, "end_time": end,
                "mint_price": price, "per_address_limit": pal, "admins": admins, "admins_mutable": mu})
        }
        5 => {
            let uris: Value = if !uriok {
                let mut l = uris.clone().unwrap_or_default();
                l.push("::not a url::".to_string());
                json!(l)
            } else {
                json!(uris)
            };
            json!({"stages": stages.iter().map(|s| s.json(false)).collect::<Vec<_>>(), "merkle_roots": roots, "merkle_tree_uris": uris,
                "admins": admins, "admins_mutable": mu})
        }
        _ => json!({"addresses": members.iter().map(|(a, _)| ad(*a as u64)).collect::<Vec<_>>(), "per_address_limit": pal, "mint_discount_bps": dbps}),
    }
}
fn exec_json(k: usize, op: &str, line: &str) -> Value {
    let flex = kflex(k);
    let tiered_list = k == 2 || k == 3;
    match op {
        "upd_start" => json!({"update_start_time": kv_u64(line, "t").unwrap_or(0).to_string()}),
        "upd_end" => json!({"update_end_time": kv_u64(line, "t").unwrap_or(0).to_string()}),
        "add" => {
            let mut m = json!({"to_add": members_json(flex, &kv_pairs(line, "members").unwrap_or_default())});
            if tiered_list {
                m["stage_id"] = json!(kv_u64(line, "stage").unwrap_or(0));
            }
            json!({ "add_members": m })
        }
        "rm" => {
            let mut m = json!({"to_remove": kv_list(line, "addrs").unwrap_or_default().iter().map(|a| ad(*a as u64)).collect::<Vec<_>>()});
            if tiered_list {
                m["stage_id"] = json!(kv_u64(line, "stage").unwrap_or(0));
            }
            json!({ "remove_members": m })
        }
        "upd_pal" => json!({"update_per_address_limit": kv_u64(line, "n").unwrap_or(0)}),
        "inc" => json!({"increase_member_limit": kv_u64(line, "limit").unwrap_or(0)}),
        "upd_admins" => json!({"update_admins": {"admins": kv_list(line, "admins").unwrap_or_default().iter().map(|a| ad(*a as u64)).collect::<Vec<_>>()}}),
        "freeze" => json!({"freeze": {}}),
        "add_stage" => {
            let st = StageT::parse(kv(line, "stage").unwrap_or("")).unwrap_or_default();
            json!({"add_stage": {"stage": st.json(flex), "members": members_json(flex, &kv_pairs(line, "members").unwrap_or_default())}})
        }
        "rm_stage" => json!({"remove_stage": {"stage_id": kv_u64(line, "id").unwrap_or(0)}}),
        "upd_stage" => {
            let t = |key: &str| -> Value {
                match kv_opt_u64(line, key).unwrap_or(None) {
                    Some(n) => json!(n.to_string()),
                    None => Value::Null,
                }
            };
            let price = match kv(line, "price") {
                Some("-") | None => Value::Null,
                Some(_) => {
                    let p = kv_pairs(line, "price").unwrap_or_default().first().cloned().unwrap_or((0, 0));
                    json!({"denom": denom(p.0 as u64), "amount": p.1.to_string()})
                }
            };
            let mut m = json!({"stage_id": kv_u64(line, "id").unwrap_or(0),
                "name": kv_opt_u64(line, "name").unwrap_or(None).map(stage_name), "start_time": t("start"), "end_time": t("end"),
                "mint_price": price, "mint_count_limit": kv_opt_u64(line, "mcl").unwrap_or(None)});
            if !flex {
                m["per_address_limit"] = json!(kv_opt_u64(line, "pal").unwrap_or(None));
            }
            json!({ "update_stage_config": m })
        }
        _ => {
            let name = kv(line, "name").unwrap_or("no_such_message");
            if name == "update_merkle_tree" {
                if k == 5 {
                    json!({"update_merkle_tree": {"merkle_roots": ["00".repeat(16)], "merkle_tree_uris": null}})
                } else {
                    json!({"update_merkle_tree": {"merkle_root": "00".repeat(32), "merkle_tree_uri": null}})
                }
            } else {
                json!({ name: {} })
            }
        }
    }
}


// ------------------------------------------------------------------------------------------------ the system under test

fn nanos(v: &Value) -> Option<u64> {
    v.as_str().and_then(|s| s.parse().ok())
}
fn coin_of(v: &Value) -> (u64, u128) {
    (denom_id(v["denom"].as_str().unwrap_or("?")), v["amount"].as_str().and_then(|x| x.parse().ok()).unwrap_or(0))
}
fn rc(c: (u64, u128)) -> String {
    format!("{}:{}", c.0, c.1)
}
fn roc(v: &Value) -> String {
    if v.is_null() {
        "-".into()
    } else {
        rc(coin_of(v))
    }
}
fn funds_of(line: &str) -> Vec<(u64, u128)> {
    kv_pairs(line, "funds").unwrap_or_default().into_iter().map(|(d, a)| (d as u64, a)).collect()
}
fn coin_kv(line: &str, key: &str) -> Option<(u64, u128)> {
    let v = kv_pairs(line, key)?;
    if v.len() == 1 {
        Some((v[0].0 as u64, v[0].1))
    } else {
        None
    }
}

// ------------------------------------------------------------------------------------------------ collection message surface (run time, as compcoll.rs)

fn exec_schema(kind: &str) -> Value {
    use cosmwasm_schema::schema_for;
    let r = match kind {
        "base" => schema_for!(sg721::ExecuteMsg<cw721_base::Extension, Empty>),
        "onchain" => schema_for!(sg721::ExecuteMsg<sg_metadata::Metadata, Empty>),
        "nt" => schema_for!(sg721_nt::msg::ExecuteMsg<cw721_base::Extension>),
        _ => schema_for!(sg721_updatable::msg::ExecuteMsg<cw721_base::Extension, Empty>),
    };
    serde_json::to_value(&r).expect("schema to json")
}
/// (variant name, schema of its payload; None for a unit variant serialised as a bare string)
fn schema_variants(root: &Value) -> Vec<(String, Option<Value>)> {
    let mut out = vec![];
    let mut alts: Vec<Value> = vec![];
    for k in ["oneOf", "anyOf"] {
        if let Some(a) = root[k].as_array() {
            alts.extend(a.iter().cloned());
        }
    }
    if alts.is_empty() {
        alts.push(root.clone());
    }
    for alt in alts {
        if let Some(en) = alt["enum"].as_array() {
            for e in en {
                if let Some(s) = e.as_str() {
                    out.push((s.to_string(), None));
                }
            }
        } else if let Some(req) = alt["required"].as_array() {
            if let Some(name) = req.first().and_then(|x| x.as_str()) {
                out.push((name.to_string(), Some(alt["properties"][name].clone())));
            }
        }
    }
    out.sort_by(|a, b| a.0.cmp(&b.0));
    out.dedup_by(|a, b| a.0 == b.0);
    out
}
/// protocol op(s) of a schema variant
fn known_variant(name: &str) -> Option<&'static [&'static str]> {
    Some(match name {
        "transfer_nft" => &["transfer"],
        "send_nft" => &["send"],
        "approve" => &["approve"],
        "revoke" => &["revoke"],
        "approve_all" => &["approve_all"],
        "revoke_all" => &["revoke_all"],
        "mint" => &["mint"],
        "burn" => &["burn"],
        "extension" => &["extension"],
        "update_collection_info" => &["uci"],
        "update_start_trading_time" => &["ustt"],
        "freeze_collection_info" => &["freeze"],
        "update_ownership" => &["own_transfer", "own_accept", "own_renounce"],
        "freeze_token_metadata" => &["freeze_meta"],
        "update_token_metadata" => &["utm"],
        "enable_updatable" => &["enable"],
        _ => return None,
    })
}
const ALL_OPS: [&str; 18] = [
    "transfer", "send", "approve", "revoke", "approve_all", "revoke_all", "mint", "burn", "extension", "uci", "ustt", "freeze", "own_transfer", "own_accept",
    "own_renounce", "freeze_meta", "utm", "enable",
];
#[derive(Clone, Default)]
struct Surface {
    /// per kind: protocol ops whose variant exists in that kind's `ExecuteMsg` schema
    has: BTreeMap<String, BTreeSet<String>>,
    /// per kind: variants the protocol has no name for
    unknown: BTreeMap<String, Vec<String>>,
    uci_field: BTreeMap<String, String>,
    freeze_unit: BTreeMap<String, bool>,
}
impl Surface {
    fn load() -> Surface {
        let mut s = Surface::default();
        for kind in KINDS {
            let root = exec_schema(kind);
            let vars = schema_variants(&root);
            let mut has = BTreeSet::new();
            let mut unk = vec![];
            for (n, _) in &vars {
                match known_variant(n) {
                    Some(ops) => has.extend(ops.iter().map(|x| x.to_string())),
                    None => unk.push(n.clone()),
                }
            }
            s.has.insert(kind.into(), has);
            s.unknown.insert(kind.into(), unk);
            let uf = vars
                .iter()
                .find(|(n, _)| n == "update_collection_info")
                .and_then(|(_, p)| p.as_ref())
                .and_then(|p| p["required"].as_array().and_then(|r| r.first()).and_then(|x| x.as_str()).map(String::from))
                .unwrap_or_else(|| "collection_info".into());
            s.uci_field.insert(kind.into(), uf);
            s.freeze_unit.insert(kind.into(), vars.iter().any(|(n, p)| n == "freeze_collection_info" && p.is_none()));
        }
        s
    }
}
fn opt_s(line: &str, key: &str) -> Option<String> {
    let v = kv(line, key)?;
    if v == "-" {
        None
    } else {
        Some(v.to_string())
    }
}
fn roy_json(line: &str) -> Value {
    match opt_s(line, "roy") {
        None => Value::Null,
        Some(v) => match v.split_once(':') {
            Some((p, sh)) => json!({"payment_address": ad(p.parse().unwrap_or(0)), "share": share_str(sh.parse().unwrap_or(0))}),
            None => Value::Null,
        },
    }
}
fn ec_json(line: &str) -> Value {
    match kv(line, "ec").unwrap_or("-") {
        "-" => Value::Null,
        "1" => json!(true),
        _ => json!(false),
    }
}
fn desc_of(line: &str) -> Option<String> {
    opt_s(line, "desc").and_then(|v| {
        let (x, y) = v.split_once(':')?;
        Some(desc_str(x.parse().ok()?, y.parse().ok()?))
    })
}
/// JSON of the collection message for protocol line `x_<op> …`, as a client of the collection kind `cur_kind` would encode it
fn build_msg(op: &str, line: &str, cur_kind: &str, sf: &Surface) -> Option<Value> {
    let id = || kv_u64(line, "id").map(|i| i.to_string());
    let adr = |key: &str| kv_u64(line, key).map(ad);
    let msg: Value = match op {
        "transfer" => json!({"transfer_nft": {"recipient": adr("to")?, "token_id": id()?}}),
        "send" => {
            let fail = kv_u64(line, "payload")? == 0;
            json!({"send_nft": {"contract": adr("to")?, "token_id": id()?, "msg": Binary::from(if fail { &b"fail"[..] } else { &b"fine"[..] })}})
        }
        "approve" => json!({"approve": {"spender": adr("sp")?, "token_id": id()?, "expires": exp_json(kv(line, "exp")?)}}),
        "revoke" => json!({"revoke": {"spender": adr("sp")?, "token_id": id()?}}),
        "approve_all" => json!({"approve_all": {"operator": adr("op")?, "expires": exp_json(kv(line, "exp")?)}}),
        "revoke_all" => json!({"revoke_all": {"operator": adr("op")?}}),
        "mint" => {
            let ext = kv_u64(line, "ext")?;
            let extension = if cur_kind == "onchain" {
                if ext > 0 {
                    json!({"name": format!("n{ext}")})
                } else {
                    json!({})
                }
            } else {
                Value::Null
            };
            json!({"mint": {"token_id": id()?, "owner": adr("owner")?, "token_uri": kv_opt_u64(line, "uri")?.map(tok_uri_str), "extension": extension}})
        }
        "burn" => json!({"burn": {"token_id": id()?}}),
        "extension" => json!({"extension": {"msg": {}}}),
        "uci" => {
            let ci = json!({
                "description": desc_of(line),
                "image": kv_opt_u64(line, "image")?.map(url_str),
                "external_link": kv_opt_u64(line, "ext")?.map(url_str),
                "explicit_content": ec_json(line),
                "royalty_info": roy_json(line),
                "creator": kv_opt_u64(line, "creator")?.map(ad),
            });
            let mut inner = Map::new();
            inner.insert(sf.uci_field.get(cur_kind).cloned().unwrap_or_else(|| "collection_info".into()), ci);
            json!({"update_collection_info": Value::Object(inner)})
        }
        "ustt" => json!({"update_start_trading_time": kv_opt_u64(line, "t")?.map(|t| t.to_string())}),
        "freeze" => {
            if sf.freeze_unit.get(cur_kind).copied().unwrap_or(false) {
                json!("freeze_collection_info")
            } else {
                json!({"freeze_collection_info": {}})
            }
        }
        "own_transfer" => json!({"update_ownership": {"transfer_ownership": {"new_owner": adr("to")?, "expiry": exp_json(kv(line, "exp")?)}}}),
        "own_accept" => json!({"update_ownership": "accept_ownership"}),
        "own_renounce" => json!({"update_ownership": "renounce_ownership"}),
        "freeze_meta" => json!({"freeze_token_metadata": {}}),
        "utm" => json!({"update_token_metadata": {"token_id": id()?, "token_uri": kv_opt_u64(line, "uri")?.map(tok_uri_str)}}),
        "enable" => json!({"enable_updatable": {}}),
        "raw" => {
            let mut m = Map::new();
            m.insert(kv(line, "v").unwrap_or("?").to_string(), json!({}));
            Value::Object(m)
        }
        _ => return None,
    };
    Some(msg)
}
/// witness fields that depend on the line alone (computed before the call)
fn line_witness(op: &str, line: &str) -> String {
    match op {
        "x_send" => {
            let to = kv_u64(line, "to").unwrap_or(0);
            let fail = kv_u64(line, "payload").unwrap_or(1) == 0;
            format!(" recv={}", (to == STUB && !fail) as u8)
        }
        "x_uci" | "create" => {
            let iv = kv_opt_u64(line, "image").unwrap_or(None).map(url_valid).unwrap_or(true);
            let ev = kv_opt_u64(line, "ext").unwrap_or(None).map(url_valid).unwrap_or(true);
            format!(" iv={} ev={}", iv as u8, ev as u8)
        }
        _ => String::new(),
    }
}

#[derive(Clone, Debug)]
struct MinterRec {
    addr: String,
    coll: String,
    /// index into the case's minter code table (0..5) of the code the factory instantiated
    v: usize,
    /// index into the collection code table
    ck: usize,
    /// the wasm admin of the collection (= `collection_params.info.creator` at creation): who may migrate it
    cadmin: u64,
    /// `config.extension.base_token_uri` as the minter stored it
    base_uri: String,
}

/// parsed copy of the last observation (used by the generators; never by the comparison)
#[derive(Clone, Debug, Default)]
struct Last {
    now: u64,
    height: u64,
    /// the collection contract, complete (None: no minter yet)
    c: Option<Obs>,
    // factory
    f_code: u64,
    f_allowed: Vec<u64>,
    f_frozen: bool,
    cfee: (u64, u128),
    minp: (u64, u128),
    feebps: u64,
    offset: u64,
    maxtok: u64,
    maxper: u64,
    airp: (u64, u128),
    airbps: u64,
    dev: Option<u64>,
    // minter
    exists: bool,
    v: usize,
    ck: usize,
    maddr: u64,
    caddr: u64,
    admin: u64,
    ntok: Option<u64>,
    limit: u64,
    start: u64,
    end: Option<u64>,
    price: (u64, u128),
    wl: Option<u64>,
    oc: bool,
    left: Option<u64>,
    cur: Option<(u64, u128)>,
    idx: u64,
    total: u64,
    /// MINTER_ADDRS
    ma: Vec<(u64, u64)>,
    /// stage totals (`wlfsmc`, `wlssmc`, `wltsmc`)
    tot: [u64; 3],
    toks: Vec<(u64, u64)>,
    trading: Option<u64>,
    owner: Option<u64>,
    pending: Option<u64>,
    creator: u64,
}

struct S {
    w: World,
    accts: Vec<u64>,
    uni: Vec<u64>,
    probe: Vec<u64>,
    mcodes: Vec<u64>,
    ccodes: Vec<u64>,
    factory: String,
    minter: Option<MinterRec>,
    n_contracts: u64,
    /// the whitelist contracts of the case by address id (kind + the generator's own ground truth: leaves, trees)
    wls: BTreeMap<u64, WlRec>,
    /// generator knowledge about the whitelist the next `w_inst` line creates (absent in replay mode)
    pending: Option<WlRec>,
    wcur: BTreeMap<u64, WInfo>,
    last: Last,
    trace: bool,
    sf: Surface,
    panics: u64,
}

fn instantiated(res: &cw_multi_test::AppResponse) -> Vec<String> {
    res.events
        .iter()
        .filter(|e| e.ty == "instantiate")
        .filter_map(|e| e.attributes.iter().find(|at| at.key == "_contract_address" || at.key == "_contract_addr").map(|at| at.value.clone()))
        .collect()
}

impl S {
    fn new() -> S {
        S {
            w: World::new(GENESIS),
            accts: vec![],
            uni: vec![],
            probe: vec![],
            mcodes: vec![],
            ccodes: vec![],
            factory: String::new(),
            minter: None,
            n_contracts: 0,
            wls: BTreeMap::new(),
            pending: None,
            wcur: BTreeMap::new(),
            last: Last::default(),
            trace: std::env::var("COMPSYSOE_TRACE").is_ok(),
            sf: Surface::load(),
            panics: 0,
        }
    }

    // ---------------------------------------------------------------- whitelist interface (W=)
    fn read_wl(&self, a: &str, kind: WlKind) -> WInfo {
        let mut i = WInfo { kind: wl_kind_idx(kind), ..Default::default() };
        if kind == WlKind::Immutable {
            return i; // `{config: …}`: none of the fields a minter reads is there
        }
        let c = self.w.query(a, &json!({"config":{}})).unwrap_or(Value::Null);
        i.active = c["is_active"].as_bool().unwrap_or(false);
        if !c["mint_price"].is_null() {
            let p = coin_of(&c["mint_price"]);
            i.pd = p.0;
            i.pa = p.1;
        }
        i.limit = c["per_address_limit"].as_u64().unwrap_or(0);
        i.mcfg = c["member_limit"].as_u64() == Some(0) && c["num_members"].as_u64() == Some(0);
        i.sid = self.w.query(a, &json!({"active_stage_id":{}})).ok().and_then(|r| r.as_u64()).unwrap_or(0);
        if i.sid >= 1 {
            i.slim = self.w.query(a, &json!({"stage":{"stage_id": i.sid - 1}})).ok().and_then(|r| r["stage"]["mint_count_limit"].as_u64());
        }
        i
    }
    /// re-read every whitelist (generator aid only)
    fn refresh_w(&mut self) {
        let keys: Vec<(u64, String, WlKind)> = self.wls.iter().map(|(k, r)| (*k, r.addr.clone(), r.kind)).collect();
        for (k, a, kind) in keys {
            let i = self.read_wl(&a, kind);
            self.wcur.insert(k, i);
        }
    }

    /// refresh our description of a whitelist from what the real contract reports (leaves: our own ground truth)
    fn observe(&mut self, k: u64) {
        let Some(mut info) = self.wls.get(&k).cloned() else { return };
        let a = info.addr.clone();
        let members_of = |m: &Value| -> Vec<(u64, u64)> {
            m["members"]
                .as_array()
                .map(|arr| {
                    arr.iter()
                        .map(|x| match x.as_str() {
                            Some(s) => (aid(s), 0),
                            None => (aid(x["address"].as_str().unwrap_or("")), x["mint_count"].as_u64().unwrap_or(0)),
                        })
                        .collect()
                })
                .unwrap_or_default()
        };
        match info.kind {
            WlKind::Immutable => {}
            WlKind::Plain | WlKind::Flex | WlKind::Merkle => {
                let Ok(c) = self.w.query(&a, &json!({"config":{}})) else { return };
                let (d, p) = coin_of(&c["mint_price"]);
                info.denom = d;
                if info.stages.is_empty() {
                    info.stages.push(StageInfo::default());
                }
                let st = &mut info.stages[0];
                st.start = nanos(&c["start_time"]).unwrap_or(0);
                st.end = nanos(&c["end_time"]).unwrap_or(0);
                st.price = p;
                st.per_addr = c["per_address_limit"].as_u64().unwrap_or(0);
                if info.kind != WlKind::Merkle {
                    if let Ok(m) = self.w.query(&a, &json!({"members":{"limit":100}})) {
                        st.members = members_of(&m);
                    }
                }
            }
            WlKind::Tiered | WlKind::TieredFlex | WlKind::TieredMerkle => {
                let Ok(r) = self.w.query(&a, &json!({"stages":{}})) else { return };
                let arr = r["stages"].as_array().cloned().unwrap_or_default();
                let old = info.stages.clone();
                info.stages.clear();
                for (i, s) in arr.iter().enumerate() {
                    let sg = if s["stage"].is_null() { s } else { &s["stage"] };
                    let (d, p) = coin_of(&sg["mint_price"]);
                    info.denom = d;
                    let mut st = StageInfo {
                        start: nanos(&sg["start_time"]).unwrap_or(0),
                        end: nanos(&sg["end_time"]).unwrap_or(0),
                        price: p,
                        per_addr: sg["per_address_limit"].as_u64().unwrap_or(0),
                        cnt_limit: sg["mint_count_limit"].as_u64(),
                        members: vec![],
                        leaves: old.get(i).map(|o| o.leaves.clone()).unwrap_or_default(),
                    };
                    if info.kind != WlKind::TieredMerkle {
                        if let Ok(m) = self.w.query(&a, &json!({"members":{"limit":100, "stage_id": i}})) {
                            st.members = members_of(&m);
                        }
                    }
                    info.stages.push(st);
                }
            }
        }
        self.wls.insert(k, info);
    }

    // ---------------------------------------------------------------- whitelist contracts (as compwl.rs, addressed by `k=`)
    fn wl_kind(&self, k: u64) -> usize {
        self.wls.get(&k).map(|r| wl_kind_idx(r.kind)).unwrap_or(0)
    }
    fn wl_addr(&self, k: u64) -> String {
        self.wls.get(&k).map(|r| r.addr.clone()).unwrap_or_else(|| ad(k))
    }

    /// `w_inst …`: instantiate a whitelist contract with the attached funds, by the named sender; witness `self=`
    fn wl_inst(&mut self, line: &str) -> (String, bool) {
        let k = (kv_u64(line, "v").unwrap_or(0) as usize).min(6);
        let sender = ad(kv_u64(line, "sender").unwrap_or(0));
        let funds = funds_of(line);
        let code = self.w.codes.wl[k];
        let msg = inst_json(k, line);
        let predicted = 1000 + self.n_contracts;
        let r = self.w.instantiate(code, &sender, &msg, &funds, None);
        let pending = self.pending.take();
        match r {
            Ok(a) => {
                self.n_contracts += 1;
                let id = aid(&a);
                let rec = match pending {
                    Some(mut p) => {
                        p.addr = a.clone();
                        p
                    }
                    None => WlRec { addr: a.clone(), kind: ALL_WL[k], denom: 0, stages: vec![], trees: vec![] },
                };
                self.wls.insert(id, rec);
                self.observe(id);
                (format!(" self={id}"), true)
            }
            Err(e) => {
                if self.trace {
                    eprintln!("TRACE w_inst failed: {}", e.lines().last().unwrap_or(""));
                }
                (format!(" self={predicted}"), false)
            }
        }
    }

    /// `w_<op> k= sender= funds= …`: one `ExecuteMsg` to the whitelist at `k`
    fn wl_exec(&mut self, op: &str, line: &str) -> bool {
        let k = kv_u64(line, "k").unwrap_or(0);
        let sender = ad(kv_u64(line, "sender").unwrap_or(0));
        let funds = funds_of(line);
        let kind = self.wl_kind(k);
        let addr = self.wl_addr(k);
        let msg = exec_json(kind, &op[2..], line);
        let r = self.w.exec(&sender, &addr, &msg, &funds);
        if self.trace {
            if let Err(e) = &r {
                eprintln!("TRACE {line} failed: {}", e.lines().last().unwrap_or(""));
            }
        }
        if self.wls.contains_key(&k) {
            self.observe(k);
        }
        r.is_ok()
    }

    fn wq(&self, addr: &str, msg: Value) -> Result<Value, String> {
        self.w.query(addr, &msg)
    }
    /// one `Members` query
    fn page(&self, addr: &str, k: usize, stage: u64, after: Option<u64>, limit: Option<u64>) -> Option<Vec<(u64, u64)>> {
        let mut m = json!({"start_after": after.map(ad), "limit": limit});
        if k == 2 || k == 3 {
            m["stage_id"] = json!(stage);
        }
        let v = self.wq(addr, json!({ "members": m })).ok()?;
        let arr = v["members"].as_array()?;
        Some(
            arr.iter()
                .map(|x| match x {
                    Value::String(s) => (aid(s), 0),
                    o => (aid(o["address"].as_str().unwrap_or("?")), o["mint_count"].as_u64().unwrap_or(u64::MAX)),
                })
                .collect(),
        )
    }
    fn walk(&self, addr: &str, k: usize, stage: u64) -> String {
        let mut out: Vec<(u64, u64)> = vec![];
        let mut after = None;
        for _ in 0..1000 {
            match self.page(addr, k, stage, after, Some(100)) {
                None => return "e".into(),
                Some(p) if p.is_empty() => break,
                Some(p) => {
                    let last = p.last().unwrap().0;
                    out.extend(p);
                    if after == Some(last) {
                        break;
                    }
                    after = Some(last);
                }
            }
        }
        fmt_pairs(&out)
    }

    /// the complete observable state of one whitelist contract (every public query; as compwl.rs)
    fn obs_wl(&self, addr: &str, k: usize) -> String {
        let q = |m: Value| self.wq(addr, m);
        let tiered = matches!(k, 2 | 3 | 5);
        let list = k < 4;
        let merkle = matches!(k, 4 | 5);
        let adm = match q(json!({"admin_list": {}})) {
            Ok(v) => {
                let l: Vec<u64> = v["admins"].as_array().map(|a| a.iter().map(|x| aid(x.as_str().unwrap_or("?"))).collect()).unwrap_or_default();
                format!("adm={} mut={}", fmt_list(&l), b01(v["mutable"].as_bool().unwrap_or(false)))
            }
            Err(_) => "adm=e mut=e".into(),
        };
        let flags = format!("hs={} he={} ia={}", rob(q(json!({"has_started": {}})), "has_started"), rob(q(json!({"has_ended": {}})), "has_ended"), rob(q(json!({"is_active": {}})), "is_active"));
        let cfg = match q(json!({"config": {}})) {
            Ok(v) if v.get("num_members").is_some() => {
                let pal = match v.get("per_address_limit") {
                    Some(x) => x.as_u64().map(|n| n.to_string()).unwrap_or("?".into()),
                    None => "-".into(),
                };
                let whale = match v.get("whale_cap") {
                    None => "-".to_string(),
                    Some(Value::Null) => "n".to_string(),
                    Some(x) => x.as_u64().map(|n| n.to_string()).unwrap_or("?".into()),
                };
                format!(
                    "{}:{}:{}:{}:{}:{}:{}:{}:{}",
                    v["num_members"].as_u64().unwrap_or(u64::MAX),
                    pal,
                    v["member_limit"].as_u64().unwrap_or(u64::MAX),
                    wnanos(&v["start_time"]),
                    wnanos(&v["end_time"]),
                    denom_id(v["mint_price"]["denom"].as_str().unwrap_or("?")),
                    v["mint_price"]["amount"].as_str().unwrap_or("?"),
                    b01(v["is_active"].as_bool().unwrap_or(false)),
                    whale
                )
            }
            _ => "e".into(),
        };
        let tier = if tiered {
            let asid = match q(json!({"active_stage_id": {}})) {
                Ok(v) => v.as_u64().map(|n| n.to_string()).unwrap_or("e".into()),
                Err(_) => "e".into(),
            };
            let as_ = match q(json!({"active_stage": {}})) {
                Ok(Value::Null) => "n".to_string(),
                Ok(v) => StageT::of_json(&v).render(),
                Err(_) => "e".into(),
            };
            let one = |v: &Value| -> String {
                let st = StageT::of_json(&v["stage"]).render();
                if merkle {
                    format!("{}/{}", st, v["merkle_root"].as_str().unwrap_or("?"))
                } else {
                    format!("{}/{}", st, v["member_count"].as_u64().unwrap_or(u64::MAX))
                }
            };
            let st = (0..4u64)
                .map(|i| match q(json!({"stage": {"stage_id": i}})) {
                    Ok(v) => one(&v),
                    Err(_) => "e".into(),
                })
                .collect::<Vec<_>>()
                .join("|");
            let sts = match q(json!({"stages": {}})) {
                Ok(v) => v["stages"].as_array().map(|a| a.iter().map(&one).collect::<Vec<_>>().join(";")).unwrap_or("e".into()),
                Err(_) => "e".into(),
            };
            format!("asid={asid} as={as_} st={st} sts={sts}")
        } else {
            "asid=- as=- st=- sts=-".into()
        };
        let mem = if list && tiered { (0..4u64).map(|i| self.walk(addr, k, i)).collect::<Vec<_>>().join("|") } else { self.walk(addr, k, 0) };
        let has: String = self.uni.iter().map(|a| rob(q(json!({"has_member": {"member": ad(*a)}})), "has_member")).collect();
        let mc = self
            .uni
            .iter()
            .map(|a| match q(json!({"member": {"member": ad(*a)}})) {
                Ok(v) => v["mint_count"].as_u64().map(|n| n.to_string()).unwrap_or("x".into()),
                Err(_) => "x".into(),
            })
            .collect::<Vec<_>>()
            .join(",");
        let smi_one = |v: &Value| -> String { format!("{}:{}", b01(v["is_member"].as_bool().unwrap_or(false)), v["per_address_limit"].as_u64().unwrap_or(u64::MAX)) };
        let (smi, asmi) = if list && tiered {
            let smi = (0..4u64)
                .map(|i| {
                    self.uni
                        .iter()
                        .map(|a| match q(json!({"stage_member_info": {"stage_id": i, "member": ad(*a)}})) {
                            Ok(v) => smi_one(&v),
                            Err(_) => "e".into(),
                        })
                        .collect::<Vec<_>>()
                        .join(",")
                })
                .collect::<Vec<_>>()
                .join("|");
            let asmi = self
                .uni
                .iter()
                .map(|a| match q(json!({"all_stage_member_info": {"member": ad(*a)}})) {
                    Ok(v) => match v["all_stage_member_info"].as_array() {
                        Some(l) if l.is_empty() => ".".to_string(),
                        Some(l) => l.iter().map(&smi_one).collect::<Vec<_>>().join("+"),
                        None => "e".into(),
                    },
                    Err(_) => "e".into(),
                })
                .collect::<Vec<_>>()
                .join(",");
            (smi, asmi)
        } else {
            ("-".to_string(), "-".to_string())
        };
        let mk = if merkle {
            let (rq, rk, uq, uk) = if tiered { ("merkle_roots", "merkle_roots", "merkle_tree_u_r_is", "merkle_tree_uris") } else { ("merkle_root", "merkle_root", "merkle_tree_u_r_i", "merkle_tree_uri") };
            let roots = match q(json!({ rq: {} })) {
                Ok(v) => match &v[rk] {
                    Value::String(s) => s.clone(),
                    Value::Array(a) => {
                        if a.is_empty() {
                            "-".into()
                        } else {
                            a.iter().map(|x| x.as_str().unwrap_or("?").to_string()).collect::<Vec<_>>().join(",")
                        }
                    }
                    _ => "e".into(),
                },
                Err(_) => "e".into(),
            };
            let uris = match q(json!({ uq: {} })) {
                Ok(v) => match &v[uk] {
                    Value::Null => "n".to_string(),
                    Value::String(s) => uri_id(s).to_string(),
                    Value::Array(a) => fmt_list(&a.iter().map(|x| uri_id(x.as_str().unwrap_or("?"))).collect::<Vec<_>>()),
                    _ => "e".into(),
                },
                Err(_) => "e".into(),
            };
            format!("roots={roots} uris={uris}")
        } else {
            "roots=- uris=-".into()
        };
        let can: String = self
            .uni
            .iter()
            .map(|a| rob(q(json!({"can_execute": {"sender": ad(*a), "msg": {"bank": {"send": {"to_address": ad(ADMIN), "amount": []}}}}})), "can_execute"))
            .collect();
        let im = if k == 6 {
            let c = match q(json!({"config": {}})) {
                Ok(v) => {
                    let c = &v["config"];
                    format!("{}:{}:{}", aid(c["admin"].as_str().unwrap_or("?")), c["per_address_limit"].as_u64().unwrap_or(u64::MAX), c["mint_discount_bps"].as_u64().map(|n| n.to_string()).unwrap_or("n".into()))
                }
                Err(_) => "e".into(),
            };
            let inc: String = self
                .uni
                .iter()
                .map(|a| match q(json!({"includes_address": {"address": ad(*a)}})) {
                    Ok(v) => v.as_bool().map(|b| b01(b).to_string()).unwrap_or("e".into()),
                    Err(_) => "e".into(),
                })
                .collect();
            let num = |m: Value| -> String {
                match q(m) {
                    Ok(v) => v.as_u64().map(|n| n.to_string()).unwrap_or("e".into()),
                    Err(_) => "e".into(),
                }
            };
            let iadm = match q(json!({"admin": {}})) {
                Ok(v) => v.as_str().map(|s| aid(s).to_string()).unwrap_or("e".into()),
                Err(_) => "e".into(),
            };
            format!("im={c} inc={inc} iadm={iadm} cnt={} ipal={}", num(json!({"address_count": {}})), num(json!({"per_address_limit": {}})))
        } else {
            "im=-".into()
        };
        let raw = if merkle {
            "-".to_string()
        } else {
            let (mns, cns): (&[u8], Option<&[u8]>) = match k {
                0 => (sg_whitelist::state::WHITELIST.namespace(), None),
                1 => (sg_whitelist_flex::state::WHITELIST.namespace(), None),
                2 => (sg_tiered_whitelist::state::WHITELIST_STAGES.namespace(), Some(sg_tiered_whitelist::state::MEMBER_COUNT.namespace())),
                3 => (sg_tiered_whitelist_flex::state::WHITELIST_STAGES.namespace(), Some(sg_tiered_whitelist_flex::state::MEMBER_COUNT.namespace())),
                _ => (whitelist_immutable::state::WHITELIST.namespace(), None),
            };
            let pre = |ns: &[u8]| -> Vec<u8> {
                let mut p = vec![(ns.len() >> 8) as u8, (ns.len() & 255) as u8];
                p.extend_from_slice(ns);
                p
            };
            let dump = self.w.dump(addr);
            let mp = pre(mns);
            let entries = dump.iter().filter(|(key, _)| key.starts_with(&mp)).count();
            let counts = match cns {
                Some(c) => {
                    let cp = pre(c);
                    dump.iter().filter(|(key, _)| key.starts_with(&cp)).count()
                }
                None => 0,
            };
            format!("{entries}/{counts}")
        };
        format!("W v={k} self={} {adm} {flags} cfg={cfg} {tier} mem={mem} raw={raw} has={has} mc={mc} smi={smi} asmi={asmi} {mk} can={can} {im}", aid(addr))
    }


    // ---------------------------------------------------------------- the collection contract (as compcoll.rs `observe`)
    fn set_block(&mut self, h: u64, t: u64) {
        let chain_id = self.w.app.block_info().chain_id;
        self.w.app.set_block(BlockInfo { height: h, time: Timestamp::from_nanos(t), chain_id });
    }
    fn cq(&self, coll: &str, msg: Value) -> Value {
        self.w.query(coll, &msg).unwrap_or(Value::Null)
    }
    fn cw2_of(&self, coll: &str) -> Option<(String, String)> {
        let st = self.w.app.contract_storage(&Addr::unchecked(coll));
        cw2::get_contract_version(&*st).ok().map(|v| (v.contract, v.version))
    }
    fn observe_coll(&self, coll: &str, base_uri: &str) -> Option<Obs> {
        let mut o = Obs::default();
        o.this = aid(coll);
        let (cname, cver) = self.cw2_of(coll)?;
        o.kind = kind_of_name(&cname);
        o.ver = cver;
        let mut owners: BTreeSet<String> = BTreeSet::new();
        {
            let st = self.w.app.contract_storage(&Addr::unchecked(coll));
            let own = cw_ownable::get_ownership(&*st).ok()?;
            o.owner = own.owner.as_ref().map(|a| aid(a.as_str()));
            o.pending = own.pending_owner.as_ref().map(|a| aid(a.as_str()));
            o.pexp = own.pending_expiry.as_ref().map(exp_back);
            let c = sg721_base::Sg721Contract::<cw721_base::Extension>::default();
            o.fz = c.frozen_collection_info.load(&*st).ok()?;
            o.rua = c.royalty_updated_at.load(&*st).ok()?.nanos();
            for r in c.parent.operators.range(&*st, None, None, Order::Ascending) {
                let ((ow, op), e) = r.ok()?;
                owners.insert(ow.to_string());
                o.ops.push((aid(ow.as_str()), aid(op.as_str()), exp_back(&e), false));
            }
            o.leg = Item::<Addr>::new("minter").may_load(&*st).ok().flatten().map(|a| aid(a.as_str()));
        }
        // which operator grants are alive in this block: the contract's own `AllOperators {include_expired: false}`
        for ow in owners {
            let r = self.cq(coll, json!({"all_operators": {"owner": ow, "include_expired": false, "limit": 100}}));
            for x in r["operators"].as_array().cloned().unwrap_or_default() {
                let (g, p) = (aid(&ow), aid(x["spender"].as_str().unwrap_or("?")));
                for e in o.ops.iter_mut().filter(|e| e.0 == g && e.1 == p) {
                    e.3 = true;
                }
            }
        }
        o.ops.sort();
        if o.kind == "updatable" {
            o.fm = self.cq(coll, json!({"freeze_token_metadata": {}}))["frozen"].as_bool().unwrap_or(false);
            o.ue = self.cq(coll, json!({"enable_updatable": {}}))["enabled"].as_bool().unwrap_or(false);
        }
        let ci = self.cq(coll, json!({"collection_info": {}}));
        o.creator = aid(ci["creator"].as_str().unwrap_or("?"));
        o.desc = desc_back(ci["description"].as_str().unwrap_or(""));
        o.img = url_id(ci["image"].as_str().unwrap_or("?"));
        o.ext = ci["external_link"].as_str().map(url_id);
        o.ec = ci["explicit_content"].as_bool();
        o.stt = ci["start_trading_time"].as_str().and_then(|s| s.parse().ok());
        o.roy = if ci["royalty_info"].is_null() {
            None
        } else {
            let sh: Decimal = ci["royalty_info"]["share"].as_str().unwrap_or("0").parse().unwrap_or_default();
            Some((aid(ci["royalty_info"]["payment_address"].as_str().unwrap_or("?")), sh.atomics().u128()))
        };
        let cinfo = self.cq(coll, json!({"contract_info": {}}));
        let num = |s: &str, p: &str| s.strip_prefix(p).and_then(|n| n.parse::<u64>().ok()).unwrap_or(999_999);
        o.nm = (num(cinfo["name"].as_str().unwrap_or("?"), "Collection"), num(cinfo["symbol"].as_str().unwrap_or("?"), "SYM"));
        o.n = self.cq(coll, json!({"num_tokens": {}}))["count"].as_u64().unwrap_or(u64::MAX);
        // `Minter {}` must agree with the typed ownership item
        let mq = self.cq(coll, json!({"minter": {}}))["minter"].as_str().map(aid);
        if mq != o.owner {
            o.owner = Some(888_888);
        }
        let mut ids: Vec<String> = vec![];
        let mut after: Option<String> = None;
        loop {
            let r = self.cq(coll, json!({"all_tokens": {"start_after": after, "limit": 100}}));
            let page: Vec<String> = r["tokens"].as_array().map(|a| a.iter().filter_map(|x| x.as_str().map(String::from)).collect()).unwrap_or_default();
            if page.is_empty() {
                break;
            }
            after = page.last().cloned();
            ids.extend(page);
        }
        for tid in ids {
            let ow = self.cq(coll, json!({"owner_of": {"token_id": tid, "include_expired": true}}));
            let lv = self.cq(coll, json!({"owner_of": {"token_id": tid}}));
            let ni = self.cq(coll, json!({"nft_info": {"token_id": tid}}));
            let ext = ni["extension"]["name"].as_str().and_then(|s| s.strip_prefix('n')).and_then(|n| n.parse().ok()).unwrap_or(0);
            o.toks.push(Tok {
                id: tid.parse().unwrap_or(999_999),
                owner: aid(ow["owner"].as_str().unwrap_or("?")),
                uri: ni["token_uri"].as_str().map(|u| uri_back(u, base_uri)),
                ext,
                approvals: approvals_of(&ow["approvals"]),
                live: approvals_of(&lv["approvals"]).into_iter().map(|x| x.0).collect(),
            });
        }
        o.toks.sort_by_key(|t| t.id);
        Some(o)
    }
    fn cur_kind(&self) -> String {
        self.last.c.as_ref().map(|o| o.kind.clone()).unwrap_or("base".into())
    }
    /// one parametrised collection query (as compcoll.rs `query_line`)
    fn query_line(&self, op: &str, line: &str) -> Option<String> {
        let Some(mi) = self.minter.as_ref() else { return Some("q err".into()) };
        let coll = mi.coll.clone();
        let base = mi.base_uri.clone();
        let q = |m: Value| self.w.query(&coll, &m);
        let ie = || kv_bool(line, "ie");
        let tid = || kv_u64(line, "id").map(|i| i.to_string());
        let access = |v: &Value| format!("{}/{}", aid(v["owner"].as_str().unwrap_or("?")), render_approvals(&approvals_of(&v["approvals"])));
        let nft = |v: &Value| {
            let ext: u64 = v["extension"]["name"].as_str().and_then(|s| s.strip_prefix('n')).and_then(|n| n.parse().ok()).unwrap_or(0);
            format!("{}/{}", fmt_opt(&v["token_uri"].as_str().map(|u| uri_back(u, &base))), ext)
        };
        let ids = |v: &Value| fmt_list(&v["tokens"].as_array().cloned().unwrap_or_default().iter().map(|x| x.as_str().unwrap_or("?").parse::<u64>().unwrap_or(999_999)).collect::<Vec<_>>());
        let wrap = |r: Result<Value, String>, f: &dyn Fn(&Value) -> String| match r {
            Ok(v) => format!("q ok {}", f(&v)),
            Err(_) => "q err".to_string(),
        };
        Some(match op {
            "q_owner_of" => wrap(q(json!({"owner_of": {"token_id": tid()?, "include_expired": ie()?}})), &access),
            "q_approval" => wrap(q(json!({"approval": {"token_id": tid()?, "spender": ad(kv_u64(line, "sp")?), "include_expired": ie()?}})), &|v| {
                format!("{}@{}", aid(v["approval"]["spender"].as_str().unwrap_or("?")), exp_of_json(&v["approval"]["expires"]))
            }),
            "q_approvals" => wrap(q(json!({"approvals": {"token_id": tid()?, "include_expired": ie()?}})), &|v| render_approvals(&approvals_of(&v["approvals"]))),
            "q_operators" => wrap(
                q(json!({"all_operators": {"owner": ad(kv_u64(line, "owner")?), "include_expired": ie()?,
                    "start_after": kv_opt_u64(line, "after")?.map(ad), "limit": kv_opt_u64(line, "limit")?}})),
                &|v| dash(v["operators"].as_array().cloned().unwrap_or_default().iter().map(|x| format!("{}@{}", aid(x["spender"].as_str().unwrap_or("?")), exp_of_json(&x["expires"]))).collect(), ","),
            ),
            "q_nft_info" => wrap(q(json!({"nft_info": {"token_id": tid()?}})), &nft),
            "q_all_nft_info" => wrap(q(json!({"all_nft_info": {"token_id": tid()?, "include_expired": ie()?}})), &|v| format!("{}/{}", access(&v["access"]), nft(&v["info"]))),
            "q_tokens" => wrap(
                q(json!({"tokens": {"owner": ad(kv_u64(line, "owner")?), "start_after": kv_opt_u64(line, "after")?.map(|x| x.to_string()), "limit": kv_opt_u64(line, "limit")?}})),
                &ids,
            ),
            "q_all_tokens" => wrap(q(json!({"all_tokens": {"start_after": kv_opt_u64(line, "after")?.map(|x| x.to_string()), "limit": kv_opt_u64(line, "limit")?}})), &ids),
            "q_ownership" => wrap(q(json!({"ownership": {}})), &|v| {
                format!(
                    "{}/{}/{}",
                    fmt_opt(&v["owner"].as_str().map(aid)),
                    fmt_opt(&v["pending_owner"].as_str().map(aid)),
                    if v["pending_expiry"].is_null() { "-".to_string() } else { exp_of_json(&v["pending_expiry"]) }
                )
            }),
            "q_upd" => {
                let e = q(json!({"enable_updatable": {}}));
                let f = q(json!({"freeze_token_metadata": {}}));
                let fee = q(json!({"enable_updatable_fee": {}}));
                match (e, f, fee) {
                    (Ok(e), Ok(f), Ok(fee)) => format!("q ok e={} f={} fee={}", e["enabled"].as_bool()? as u8, f["frozen"].as_bool()? as u8, fee.as_str()?),
                    _ => "q err".into(),
                }
            }
            "q_payout" => {
                let ci: sg721_base::msg::CollectionInfoResponse = self.w.app.wrap().query_wasm_smart(coll.clone(), &json!({"collection_info": {}})).ok()?;
                let mut res: Response = Response::new();
                let r = ci.royalty_payout(Addr::unchecked(coll.clone()), Uint128::new(kv_u128(line, "pay")?), Uint128::new(kv_u128(line, "fee")?), kv_opt_u128(line, "fin")?.map(Uint128::new), &mut res);
                match r {
                    Ok(amt) => format!("q ok {} {}", amt.u128(), dash(res.messages.iter().map(|m| lp_harness::world::render_msg(&m.msg)).collect(), ",")),
                    Err(_) => "q err".into(),
                }
            }
            _ => return None,
        })
    }

    // ---------------------------------------------------------------- observations
    fn obs(&mut self) -> String {
        let mut l = Last { now: self.w.time(), height: self.w.app.block_info().height, ..Default::default() };
        let cobs = self.minter.as_ref().and_then(|mi| self.observe_coll(&mi.coll, &mi.base_uri));
        let w = &self.w;
        // ---- F
        let p = w.query(&self.factory, &json!({"params":{}})).map(|v| v["params"].clone()).unwrap_or(Value::Null);
        let ext = &p["extension"];
        l.f_code = p["code_id"].as_u64().unwrap_or(u64::MAX);
        l.f_allowed = p["allowed_sg721_code_ids"].as_array().map(|a| a.iter().filter_map(|x| x.as_u64()).collect()).unwrap_or_default();
        l.f_frozen = p["frozen"].as_bool().unwrap_or(false);
        l.cfee = coin_of(&p["creation_fee"]);
        l.minp = coin_of(&p["min_mint_price"]);
        l.feebps = p["mint_fee_bps"].as_u64().unwrap_or(u64::MAX);
        l.offset = p["max_trading_offset_secs"].as_u64().unwrap_or(u64::MAX);
        l.maxtok = ext["max_token_limit"].as_u64().unwrap_or(u64::MAX);
        l.maxper = ext["max_per_address_limit"].as_u64().unwrap_or(u64::MAX);
        l.airp = coin_of(&ext["airdrop_mint_price"]);
        l.airbps = ext["airdrop_mint_fee_bps"].as_u64().unwrap_or(u64::MAX);
        // `dev_fee_address` is a free string in the contract: one of our account names, or `x`
        l.dev = ext["dev_fee_address"].as_str().map(aid).filter(|a| *a != 900_000_000);
        let probe: String = self
            .probe
            .iter()
            .map(|c| match w.query(&self.factory, &json!({"allowed_collection_code_id": c})) {
                Ok(v) => {
                    if v["allowed"].as_bool() == Some(true) {
                        "1"
                    } else {
                        "0"
                    }
                }
                Err(_) => "?",
            })
            .collect();
        let f = format!(
            "F code={} allowed={} frozen={} cfee={} minp={} feebps={} offset={} maxtok={} maxper={} airp={} airbps={} dev={} probe={}",
            l.f_code, fmt_list(&l.f_allowed), l.f_frozen as u8, rc(l.cfee), rc(l.minp), l.feebps, l.offset, l.maxtok, l.maxper, rc(l.airp), l.airbps, ox(&l.dev), probe
        );
        // ---- M, C
        let mut extra: Vec<u64> = vec![];
        let (m, c) = match &self.minter {
            None => ("M -".to_string(), "C=-".to_string()),
            Some(mi) => {
                l.exists = true;
                l.v = mi.v;
                l.ck = mi.ck;
                l.maddr = aid(&mi.addr);
                let cfg = w.query(&mi.addr, &json!({"config":{}})).unwrap_or(Value::Null);
                let dump = w.dump(&mi.addr);
                let raw_item = |key: &[u8]| -> Option<Vec<u8>> { dump.iter().find(|(k, _)| k.as_slice() == key).map(|(_, v)| v.clone()) };
                let pay = cfg["payment_address"].as_str().map(aid);
                l.admin = cfg["admin"].as_str().map(aid).unwrap_or(u64::MAX);
                l.ntok = cfg["num_tokens"].as_u64();
                l.limit = cfg["per_address_limit"].as_u64().unwrap_or(u64::MAX);
                l.start = nanos(&cfg["start_time"]).unwrap_or(u64::MAX);
                l.end = nanos(&cfg["end_time"]);
                l.price = coin_of(&cfg["mint_price"]);
                l.wl = cfg["whitelist"].as_str().map(aid);
                l.oc = cfg["nft_data"]["nft_data_type"].as_str() == Some("on_chain_metadata");
                let fac = cfg["factory"].as_str().map(aid).unwrap_or(u64::MAX);
                let ccode = cfg["sg721_code_id"].as_u64().unwrap_or(u64::MAX);
                let sg721 = cfg["sg721_address"].as_str().map(aid).unwrap_or(u64::MAX);
                l.caddr = sg721;
                l.left = w.query(&mi.addr, &json!({"mintable_num_tokens":{}})).ok().and_then(|v| v["count"].as_u64());
                let mp = match w.query(&mi.addr, &json!({"mint_price":{}})) {
                    Ok(v) => {
                        l.cur = Some(coin_of(&v["current_price"]));
                        format!("{}/{}/{}/{}", rc(coin_of(&v["public_price"])), rc(coin_of(&v["airdrop_price"])), roc(&v["whitelist_price"]), rc(coin_of(&v["current_price"])))
                    }
                    Err(_) => "err".to_string(),
                };
                let st = match w.query(&mi.addr, &json!({"status":{}})) {
                    Ok(v) => {
                        let s = &v["status"];
                        format!("{}{}{}", s["is_verified"].as_bool().unwrap_or(false) as u8, s["is_blocked"].as_bool().unwrap_or(false) as u8, s["is_explicit"].as_bool().unwrap_or(false) as u8)
                    }
                    Err(_) => "???".into(),
                };
                // raw counter maps
                let names: [&[u8]; 5] = [b"ma", b"wlma", b"wlfsma", b"wlssma", b"wltsma"];
                let mut maps: Vec<Vec<(u64, u64)>> = vec![vec![]; 5];
                for (k, v) in &dump {
                    if k.len() > 2 && k[0] == 0 {
                        let n = k[1] as usize;
                        if k.len() >= 2 + n {
                            if let Some(i) = names.iter().position(|x| *x == &k[2..2 + n]) {
                                let a = String::from_utf8_lossy(&k[2 + n..]).to_string();
                                let val: u64 = std::str::from_utf8(v).ok().and_then(|s| s.trim().parse().ok()).unwrap_or(888_888);
                                if val != 0 {
                                    maps[i].push((aid(&a), val));
                                }
                            }
                        }
                    }
                }
                for mm in maps.iter_mut() {
                    mm.sort();
                }
                l.ma = maps[0].clone();
                let item_n = |key: &[u8]| -> u64 { raw_item(key).and_then(|v| String::from_utf8_lossy(&v).trim().trim_matches('"').parse().ok()).unwrap_or(0) };
                l.idx = item_n(b"token_index");
                l.tot = [item_n(b"wlfsmc"), item_n(b"wlssmc"), item_n(b"wltsmc")];
                l.total = w.query(&mi.addr, &json!({"total_mint_count":{}})).ok().and_then(|v| v["count"].as_u64()).unwrap_or(u64::MAX);
                let cnt: Vec<String> = self
                    .accts
                    .iter()
                    .map(|a| match w.query(&mi.addr, &json!({"mint_count":{"address": ad(*a)}})) {
                        Ok(v) => format!("{}:{}:{}", a, v["count"].as_u64().map(|x| x.to_string()).unwrap_or("?".into()), v["whitelist_count"].as_u64().map(|x| x.to_string()).unwrap_or("-".into())),
                        Err(_) => format!("{a}:?:?"),
                    })
                    .collect();
                let m = format!(
                    "M addr={} admin={} pay={} ntok={} limit={} start={} end={} price={} wl={} fac={} ccode={} sg721={} oc={} left={} mp={} st={} idx={} total={} ma={} wlma={} fs={} ss={} ts={} tot={},{},{} air={} cnt={}",
                    l.maddr, l.admin, fmt_opt(&pay), fmt_opt(&l.ntok), l.limit, l.start, fmt_opt(&l.end), rc(l.price), fmt_opt(&l.wl), fac, ccode, sg721, l.oc as u8, fmt_opt(&l.left), mp, st,
                    l.idx, l.total, fmt_pairs(&maps[0]), fmt_pairs(&maps[1]), fmt_pairs(&maps[2]), fmt_pairs(&maps[3]), fmt_pairs(&maps[4]),
                    item_n(b"wlfsmc"), item_n(b"wlssmc"), item_n(b"wltsmc"), item_n(b"airdrop_count"), cnt.join(",")
                );
                // ---- C (the collection contract, complete)
                let c = match &cobs {
                    Some(o) => {
                        l.toks = o.toks.iter().map(|t| (t.id, t.owner)).collect();
                        l.trading = o.stt;
                        l.creator = o.creator;
                        l.owner = o.owner;
                        l.pending = o.pending;
                        o.render()
                    }
                    None => "C=?".to_string(),
                };
                extra = vec![l.maddr, sg721];
                (m, c)
            }
        };
        // ---- B
        let bals = w.all_balances();
        let d0 = denom(0);
        let d1 = denom(1);
        let mut sup = [0u128; 2];
        let mut by: BTreeMap<&str, [u128; 2]> = BTreeMap::new();
        for ((who, dn), amt) in &bals {
            let i = if *dn == d0 {
                0
            } else if *dn == d1 {
                1
            } else {
                continue;
            };
            sup[i] += *amt;
            by.entry(who.as_str()).or_insert([0, 0])[i] += *amt;
        }
        let mut who: Vec<u64> = self.accts.clone();
        who.push(aid(&self.factory));
        who.extend(extra);
        who.extend(self.wls.keys().cloned());
        let b: Vec<String> = who
            .iter()
            .map(|a| {
                let x = by.get(ad(*a).as_str()).cloned().unwrap_or([0, 0]);
                format!("{}:{}:{}", a, x[0], x[1])
            })
            .collect();
        l.c = cobs;
        let (hh, tt) = (l.height, l.now);
        self.last = l;
        let wtxt = if self.wls.is_empty() {
            "W -".to_string()
        } else {
            self.wls.iter().map(|(_, r)| self.obs_wl(&r.addr, wl_kind_idx(r.kind))).collect::<Vec<_>>().join(" ")
        };
        format!("T {hh}/{tt} {f} {m} {c} B {} sup={}:{} {wtxt}", b.join(","), sup[0], sup[1])
    }

    fn dbg(&self, line: &str, r: &Result<cw_multi_test::AppResponse, String>) {
        if self.trace {
            if let Err(e) = r {
                eprintln!("TRACE {line} => {}", e.lines().last().unwrap_or("").rsplit("}: ").next().unwrap_or(""));
            }
        }
    }

    /// executes one family op; returns (witness suffix, ok)
    fn run_op(&mut self, op: &str, line: &str) -> Option<(String, bool)> {
        let sender = kv_u64(line, "sender").unwrap_or(0);
        let funds = funds_of(line);
        let who = ad(sender);
        let mi = self.minter.clone();
        Some(match op {
            "fund" => {
                let a = kv_u64(line, "a")?;
                let d = kv_u64(line, "d")?;
                let amt = kv_u128(line, "amt")?;
                self.w.fund(&ad(a), d, amt);
                (String::new(), true)
            }
            "create" => {
                let maddr = 1000 + self.n_contracts;
                let caddr = maddr + 1;
                let wit = format!(" maddr={maddr} caddr={caddr}");
                if mi.is_some() {
                    return Some((wit, false)); // one minter per case (never generated)
                }
                let code = kv_u64(line, "code")?;
                let creator = kv_u64(line, "creator")?;
                let wl = kv_opt_u64(line, "wl")?;
                let wlvalid = kv_bool(line, "wlvalid").unwrap_or(true);
                let nftok = kv_bool(line, "nftok")?;
                let onchain = kv_bool(line, "onchain")?;
                let uri = kv_bool(line, "uri")?;
                let a = CreateArgs {
                    creator,
                    sg721_code_id: code,
                    num_tokens: kv_opt_u64(line, "ntok")?.map(|n| n as u32),
                    per_address_limit: kv_u64(line, "limit")? as u32,
                    start_time: kv_u64(line, "start")?,
                    end_time: kv_opt_u64(line, "end")?,
                    mint_price: coin_kv(line, "price")?,
                    payment_address: kv_opt_u64(line, "pay")?,
                    whitelist: wl.map(|k| if wlvalid { ad(k) } else { BAD_ADDR.to_string() }),
                    start_trading_time: kv_opt_u64(line, "trading")?,
                    royalty: None,
                    mint_tokens: vec![],
                    funds: funds.clone(),
                };
                let mut msg = create_minter_json(MinterKind::OpenEdition, &a);
                // interned `nft_data` payloads of the line
                let good_uri = format!("ipfs://edition/{}.json", kv_u64(line, "turi")?);
                let good_uri = good_uri.as_str();
                let meta = json!({"image": if uri { "https://example.com/edition.png" } else { "not a url" }, "image_data": null,
                    "external_url": "https://example.com/", "description": "an edition", "name": format!("n{}", kv_u64(line, "text")?),
                    "attributes": [{"display_type": null, "trait_type": "kind", "value": "open"}], "background_color": null,
                    "animation_url": null, "youtube_url": null});
                // the real `collection_params`: name, symbol and the `CollectionInfo` fields of the line
                {
                    let cp = &mut msg["create_minter"]["collection_params"];
                    cp["name"] = json!(format!("Collection{}", kv_u64(line, "nm")?));
                    cp["symbol"] = json!(format!("SYM{}", kv_u64(line, "sym")?));
                    cp["info"]["description"] = json!(desc_of(line).unwrap_or_default());
                    cp["info"]["image"] = json!(url_str(kv_u64(line, "image")?));
                    cp["info"]["external_link"] = json!(kv_opt_u64(line, "ext")?.map(url_str));
                    cp["info"]["explicit_content"] = ec_json(line);
                    cp["info"]["royalty_info"] = roy_json(line);
                }
                // `NftData::valid_nft_data`: exactly the field that belongs to the declared type
                msg["create_minter"]["init_msg"]["nft_data"] = match (onchain, nftok) {
                    (false, true) => json!({"nft_data_type": "off_chain_metadata", "extension": null, "token_uri": if uri { good_uri } else { "not a url" }}),
                    (true, true) => json!({"nft_data_type": "on_chain_metadata", "extension": meta, "token_uri": null}),
                    // off-chain without a token_uri
                    (false, false) => json!({"nft_data_type": "off_chain_metadata", "extension": null, "token_uri": null}),
                    // both set
                    (true, false) => json!({"nft_data_type": "on_chain_metadata", "extension": meta, "token_uri": good_uri}),
                };
                let fcode = self.w.query(&self.factory, &json!({"params":{}})).ok().and_then(|v| v["params"]["code_id"].as_u64()).unwrap_or(0);
                let r = self.w.exec(&who, &self.factory.clone(), &msg, &funds);
                self.dbg(line, &r);
                match r {
                    Ok(res) => {
                        let addrs = instantiated(&res);
                        if addrs.len() != 2 || aid(&addrs[0]) != maddr || aid(&addrs[1]) != caddr {
                            return Some((format!(" maddr={maddr} caddr={caddr} MISPREDICTED={:?}", addrs), true));
                        }
                        self.n_contracts += 2;
                        let v = self.mcodes.iter().position(|c| *c == fcode).unwrap_or(99);
                        let ck = self.ccodes.iter().position(|c| *c == code).unwrap_or(99);
                        let base_uri = String::new();
                        self.minter = Some(MinterRec { addr: addrs[0].clone(), coll: addrs[1].clone(), v, ck, cadmin: creator, base_uri });
                        (wit, true)
                    }
                    Err(_) => (wit, false),
                }
            }
            "inst_direct" => {
                let v = kv_u64(line, "v").unwrap_or(0) as usize % 3;
                let p = self.w.default_params(MinterKind::OpenEdition);
                let mut a = self.w.default_create(MinterKind::OpenEdition, &p);
                a.creator = sender;
                let msg = create_minter_json(MinterKind::OpenEdition, &a)["create_minter"].clone();
                let code = self.mcodes[v];
                let r = self.w.instantiate(code, &who, &msg, &[], None);
                if r.is_ok() {
                    self.n_contracts += 2;
                }
                (String::new(), r.is_ok())
            }
            "sudo_params" => {
                let c = |key: &str| -> Value {
                    match coin_kv(line, key) {
                        Some(x) => jcoin(x),
                        None => Value::Null,
                    }
                };
                let l = |key: &str| -> Value {
                    match kv_list(line, key) {
                        Some(x) => json!(x.iter().map(|y| *y as u64).collect::<Vec<u64>>()),
                        None => Value::Null,
                    }
                };
                let dev = match kv(line, "dev") {
                    None => Value::Null,
                    Some("x") => json!(BAD_ADDR),
                    Some(a) => json!(ad(a.parse().ok()?)),
                };
                let msg = json!({"update_params": {
                    "code_id": kv_u64(line, "code"), "add_sg721_code_ids": l("addc"), "rm_sg721_code_ids": l("rmc"),
                    "frozen": kv_bool(line, "frozen"), "creation_fee": c("cfee"), "min_mint_price": c("minp"),
                    "mint_fee_bps": kv_u64(line, "feebps"), "max_trading_offset_secs": kv_u64(line, "offset"),
                    "extension": {"max_token_limit": kv_u64(line, "maxtok"), "max_per_address_limit": kv_u64(line, "maxper"),
                        "min_mint_price": c("xminp"), "airdrop_mint_price": c("airp"), "airdrop_mint_fee_bps": kv_u64(line, "airbps"),
                        "dev_fee_address": dev}}});
                let r = self.w.sudo(&self.factory.clone(), &msg);
                self.dbg(line, &r);
                (String::new(), r.is_ok())
            }
            "mint" => {
                let stage = kv_opt_u64(line, "stage").unwrap_or(None);
                let alloc = kv_opt_u64(line, "alloc").unwrap_or(None);
                // `proof=~` absent, `proof=-` the empty list, else the strings themselves
                let ph: Option<Vec<String>> = match kv(line, "proof") {
                    None | Some("~") => None,
                    Some("-") => Some(vec![]),
                    Some(v) => Some(v.split(',').map(String::from).collect()),
                };
                let Some(mi) = mi else { return Some((String::new(), false)) };
                let msg = if mi.v == 2 {
                    json!({"mint": {"stage": stage, "proof_hashes": ph, "allocation": alloc}})
                } else {
                    let mut o = serde_json::Map::new();
                    if let Some(s) = stage {
                        o.insert("stage".into(), json!(s));
                    }
                    if let Some(p) = &ph {
                        o.insert("proof_hashes".into(), json!(p));
                    }
                    if let Some(a) = alloc {
                        o.insert("allocation".into(), json!(a));
                    }
                    json!({"mint": Value::Object(o)})
                };
                let r = self.w.exec(&who, &mi.addr, &msg, &funds);
                self.dbg(line, &r);
                (String::new(), r.is_ok())
            }
            "mint_to" => {
                let Some(mi) = mi else { return Some((String::new(), false)) };
                let rcpt = kv_u64(line, "rcpt")?;
                let r = self.w.exec(&who, &mi.addr, &json!({"mint_to": {"recipient": ad(rcpt)}}), &funds);
                self.dbg(line, &r);
                (String::new(), r.is_ok())
            }
            "sudo_status" => {
                let Some(mi) = mi else { return Some((String::new(), false)) };
                let r = self.w.sudo(&mi.addr, &json!({"update_status": {"is_verified": kv_bool(line, "v")?, "is_blocked": kv_bool(line, "b")?, "is_explicit": kv_bool(line, "e")?}}));
                (String::new(), r.is_ok())
            }
            "set_wl" | "purge" | "burn" | "upd_price" | "upd_start" | "upd_end" | "upd_trading" | "upd_limit" => {
                let Some(mi) = mi else { return Some((String::new(), false)) };
                let msg = match op {
                    "set_wl" => {
                        let wl = kv_u64(line, "wl")?;
                        let valid = kv_bool(line, "valid").unwrap_or(true);
                        json!({"set_whitelist": {"whitelist": if valid { ad(wl) } else { BAD_ADDR.to_string() }}})
                    }
                    "purge" => json!({"purge": {}}),
                    "burn" => json!({"burn_remaining": {}}),
                    "upd_price" => json!({"update_mint_price": {"price": kv_u128(line, "price")?.to_string()}}),
                    "upd_start" => json!({"update_start_time": jtime(kv_u64(line, "t")?)}),
                    "upd_end" => json!({"update_end_time": jtime(kv_u64(line, "t")?)}),
                    "upd_trading" => json!({"update_start_trading_time": jopt_time(kv_opt_u64(line, "t")?)}),
                    _ => json!({"update_per_address_limit": {"per_address_limit": kv_u64(line, "n")?}}),
                };
                let r = self.w.exec(&who, &mi.addr, &msg, &funds);
                self.dbg(line, &r);
                (String::new(), r.is_ok())
            }
            "c_transfer" | "c_burn" | "c_trading" | "c_creator" | "c_freeze" | "c_own" => {
                let Some(mi) = mi else { return Some((String::new(), false)) };
                let msg = match op {
                    "c_transfer" => json!({"transfer_nft": {"recipient": ad(kv_u64(line, "to")?), "token_id": kv_u64(line, "id")?.to_string()}}),
                    "c_burn" => json!({"burn": {"token_id": kv_u64(line, "id")?.to_string()}}),
                    "c_trading" => json!({"update_start_trading_time": jopt_time(kv_opt_u64(line, "t")?)}),
                    "c_creator" => {
                        let info = json!({"creator": ad(kv_u64(line, "new")?)});
                        let mut inner = Map::new();
                        inner.insert(self.sf.uci_field.get(&self.cur_kind()).cloned().unwrap_or_else(|| "collection_info".into()), info);
                        json!({"update_collection_info": Value::Object(inner)})
                    }
                    "c_freeze" => {
                        if self.sf.freeze_unit.get(&self.cur_kind()).copied().unwrap_or(false) {
                            json!("freeze_collection_info")
                        } else {
                            json!({"freeze_collection_info": {}})
                        }
                    }
                    _ => match kv(line, "act")? {
                        "transfer" => json!({"update_ownership": {"transfer_ownership": {"new_owner": ad(kv_u64(line, "new")?), "expiry": null}}}),
                        "accept" => json!({"update_ownership": "accept_ownership"}),
                        "renounce" => json!({"update_ownership": "renounce_ownership"}),
                        _ => return None,
                    },
                };
                let r = self.w.exec(&who, &mi.coll, &msg, &[]);
                self.dbg(line, &r);
                (String::new(), r.is_ok())
            }
            "x_migrate_upd" | "x_migrate_self" => {
                let Some(mi) = mi else { return Some((String::new(), false)) };
                let to = if op == "x_migrate_upd" { "updatable".to_string() } else { self.cur_kind() };
                let code = self.ccodes[KINDS.iter().position(|k| *k == to)?];
                let r = self.w.migrate(&ad(mi.cadmin), &mi.coll, code, &json!({}));
                if let Err(e) = &r {
                    if e.starts_with("panic") {
                        self.panics += 1;
                    }
                    if self.trace {
                        eprintln!("TRACE {line} => {}", e.lines().last().unwrap_or(""));
                    }
                }
                (String::new(), r.is_ok())
            }
            "x_setver" => {
                let Some(mi) = mi else { return Some((String::new(), false)) };
                let v = kv(line, "v")?;
                let (nm, _) = self.cw2_of(&mi.coll)?;
                let mut st = self.w.app.contract_storage_mut(&Addr::unchecked(mi.coll.clone()));
                cw2::set_contract_version(&mut *st, nm, v).ok()?;
                (String::new(), true)
            }
            o if o.starts_with("x_") => {
                let Some(mi) = mi else { return Some((String::new(), false)) };
                let sender = ad(kv_u64(line, "s")?);
                let msg = build_msg(&o[2..], line, &self.cur_kind(), &self.sf)?;
                let r = self.w.exec(&sender, &mi.coll, &msg, &funds);
                if let Err(e) = &r {
                    if e.starts_with("panic") {
                        self.panics += 1;
                    }
                }
                self.dbg(line, &r);
                (String::new(), r.is_ok())
            }
            _ => return None,
        })
    }
}

impl Sut for S {
    fn begin(&mut self, header: &str) -> (String, String) {
        let now = kv_u64(header, "now").expect("now");
        let h0 = kv_u64(header, "h").expect("h");
        let mut w = World::new(now);
        let l64 = |key: &str| -> Vec<u64> { kv_list(header, key).unwrap_or_default().iter().map(|x| *x as u64).collect() };
        let mcodes = l64("mcodes");
        let ccodes = l64("ccodes");
        let real_m: Vec<u64> = w.codes.minters[6..9].to_vec();
        let real_c = vec![w.codes.sg721_base, w.codes.sg721_updatable, w.codes.sg721_nt, w.codes.sg721_metadata_onchain];
        assert!(mcodes == real_m && ccodes == real_c, "header code tables {:?} {:?} differ from the world's {:?} {:?}", mcodes, ccodes, real_m, real_c);
        let p = FactoryParams {
            code_id: kv_u64(header, "code").expect("code"),
            allowed_sg721_code_ids: l64("allowed"),
            frozen: kv_bool(header, "frozen").expect("frozen"),
            creation_fee: coin_kv(header, "cfee").expect("cfee"),
            min_mint_price: coin_kv(header, "minp").expect("minp"),
            mint_fee_bps: kv_u64(header, "feebps").expect("feebps"),
            max_trading_offset_secs: kv_u64(header, "offset").expect("offset"),
            max_token_limit: kv_u64(header, "maxtok").expect("maxtok") as u32,
            max_per_address_limit: kv_u64(header, "maxper").expect("maxper") as u32,
            airdrop_mint_price: coin_kv(header, "airp").expect("airp"),
            airdrop_mint_fee_bps: kv_u64(header, "airbps").expect("airbps"),
            shuffle_fee: (0, 0),
            dev_fee_address: 0,
        };
        // EXACTLY the header's params (the factory's `instantiate` validates nothing, not even `dev_fee_address`)
        let mut pj = p.to_json(FactoryKind::OpenEdition);
        pj["extension"]["dev_fee_address"] = match kv(header, "dev").expect("dev") {
            "x" => json!(BAD_ADDR),
            a => json!(ad(a.parse().expect("dev id"))),
        };
        let fcode = w.codes.open_edition_factory;
        let factory = w.instantiate(fcode, &ad(90), &json!({"params": pj}), &[], None).expect("factory");
        assert_eq!(aid(&factory), kv_u64(header, "fac").expect("fac"), "factory address");
        // the receiver stub: a contract OUTSIDE the system (second contract of the case)
        let stub_code = w.app.store_code(stub_box());
        let stub = w.instantiate(stub_code, &ad(90), &json!({}), &[], None).expect("stub");
        assert_eq!(aid(&stub), STUB, "stub address");
        self.w = w;
        self.set_block(h0, now);
        self.accts = l64("accts");
        self.uni = l64("uni");
        self.probe = l64("probe");
        self.mcodes = mcodes;
        self.ccodes = ccodes;
        self.factory = factory;
        self.minter = None;
        self.n_contracts = 2;
        self.wls.clear();
        self.pending = None;
        self.wcur.clear();
        (header.to_string(), format!("case {}", self.obs()))
    }

    fn exec(&mut self, line: &str) -> (String, String) {
        let op = line.split_whitespace().next().unwrap_or("").to_string();
        let fin = |s: &mut S, model_line: String, ok: bool| -> (String, String) {
            s.refresh_w();
            (model_line, format!("{} {}", if ok { "ok" } else { "err" }, s.obs()))
        };
        match op.as_str() {
            "t" => {
                let Some(t) = kv_u64(line, "now") else { return (line.to_string(), "bad-op".into()) };
                if t < self.w.time() {
                    return fin(self, line.to_string(), false);
                }
                let h = self.w.app.block_info().height;
                self.set_block(h, t);
                fin(self, line.to_string(), true)
            }
            "blk" => {
                let (Some(h), Some(t)) = (kv_u64(line, "h"), kv_u64(line, "t")) else { return (line.to_string(), "bad-op".into()) };
                if t < self.w.time() {
                    return fin(self, line.to_string(), false);
                }
                self.set_block(h, t);
                fin(self, line.to_string(), true)
            }
            "w_inst" => {
                let (wit, ok) = self.wl_inst(line);
                fin(self, format!("{line}{wit}"), ok)
            }
            "q_has" => {
                let k = kv_u64(line, "k").unwrap_or(0);
                let member = kv(line, "m").and_then(|h| hex::decode(h).ok()).map(|b| String::from_utf8_lossy(&b).to_string()).unwrap_or_default();
                let proof = str_list(line, "proof");
                let out = match self.wq(&self.wl_addr(k), json!({"has_member": {"member": member, "proof_hashes": proof}})) {
                    Ok(v) => match v["has_member"].as_bool() {
                        Some(b) => format!("ok {}", b01(b)),
                        None => "err".into(),
                    },
                    Err(_) => "err".into(),
                };
                (line.to_string(), out)
            }
            o if o.starts_with("w_") => {
                let ok = self.wl_exec(o, line);
                fin(self, line.to_string(), ok)
            }
            o if o.starts_with("q_") => {
                let out = catch(|| self.query_line(o, line)).ok().flatten().unwrap_or("bad-op".into());
                (line.to_string(), out)
            }
            _ => {
                let lw = line_witness(&op, line);
                match self.run_op(&op, line) {
                    Some((wit, ok)) => fin(self, format!("{line}{lw}{wit}"), ok),
                    None => (format!("{line}{lw}"), "bad-op".to_string()),
                }
            }
        }
    }
}

// ------------------------------------------------------------------------------------------------ generators
//GEN-BEGIN
struct G {
    rng: Rng,
    mc: Vec<u64>,
    cc: Vec<u64>,
    /// code ids that exist but are no open-edition minter (a collection, the factory itself, a whitelist, a vending minter)
    non_minter: Vec<u64>,
}

#[derive(Clone, Debug)]
struct Hdr {
    now: u64,
    code: u64,
    allowed: Vec<u64>,
    frozen: bool,
    cfee: (u64, u128),
    minp: (u64, u128),
    feebps: u64,
    offset: u64,
    maxtok: u64,
    maxper: u64,
    airp: (u64, u128),
    airbps: u64,
    dev: Option<u64>,
}
impl Hdr {
    fn std(now: u64, code: u64, cc: &[u64]) -> Hdr {
        Hdr { now, code, allowed: cc.to_vec(), frozen: false, cfee: (0, 5_000_000_000), minp: (0, 50_000_000), feebps: 1000, offset: 604_800, maxtok: 10_000, maxper: 50, airp: (0, 5_000_000), airbps: 10_000, dev: Some(DEV) }
    }
    fn line(&self, g: &G, tag: &str) -> String {
        format!(
            "case h={H0} now={} fac=1000 mcodes={} ccodes={} accts={} uni={} probe={},1,9999 code={} allowed={} frozen={} cfee={} minp={} feebps={} offset={} maxtok={} maxper={} airp={} airbps={} dev={} {tag}",
            self.now, fmt_list(&g.mc), fmt_list(&g.cc), fmt_list(&ACCTS), fmt_list(&UNI), fmt_list(&g.cc), self.code, fmt_list(&self.allowed), self.frozen as u8, rc(self.cfee), rc(self.minp),
            self.feebps, self.offset, self.maxtok, self.maxper, rc(self.airp), self.airbps, ox(&self.dev)
        )
    }
}

fn rel(now: u64, t: u64) -> &'static str {
    if now < t {
        "lt"
    } else if now == t {
        "eq"
    } else {
        "gt"
    }
}
/// generator-side copy of `LP.OE.mintParses` (only used to choose plausible collection kinds; never by the comparison)
fn mint_parses(onchain: bool, ck: usize) -> bool {
    onchain || ck != 3
}

/// `ses.mark`; with COMPOE_DUMP set every class is also counted (so that the report's distribution lists them)
fn mk(ses: &mut Session, class: String) {
    static DUMP: OnceLock<bool> = OnceLock::new();
    if *DUMP.get_or_init(|| std::env::var("COMPOE_DUMP").is_ok()) {
        ses.count(&format!("class:{class}"));
    }
    ses.mark(class);
}

fn classify(ses: &mut Session, sut: &S, pre: &Last, line: &str, out: &str) {
    let op = line.split_whitespace().next().unwrap_or("?");
    let oc = out.split_whitespace().next().unwrap_or("?");
    let post = &sut.last;
    let v = if pre.exists { pre.v.to_string() } else { sut.mcodes.iter().position(|c| *c == pre.f_code).map(|x| x.to_string()).unwrap_or("x".into()) };
    let left_class = |l: Option<u64>| match l {
        None => "x",
        Some(0) => "0",
        Some(1) => "1",
        _ => "n",
    };
    let st = if !pre.exists {
        "nominter".to_string()
    } else {
        format!("start-{}-end-{}-left-{}", rel(pre.now, pre.start), pre.end.map(|e| rel(pre.now, e)).unwrap_or("x"), left_class(pre.left))
    };
    let ed = if !pre.exists { "-".to_string() } else { format!("{}{}", if pre.ntok.is_some() { "cap" } else { "unc" }, if pre.oc { "-oc" } else { "" }) };
    let kind_of = |k: Option<u64>| -> String {
        match k {
            None => "-".into(),
            Some(k) => sut.wls.get(&k).map(|r| wl_kind_idx(r.kind).to_string()).unwrap_or("?".into()),
        }
    };
    match op {
        "mint" => {
            let wk = kind_of(pre.wl);
            let act = pre.wl.and_then(|k| sut.wcur.get(&k)).map(|i| i.active);
            let pf = match kv(line, "proof") {
                None | Some("~") => "n",
                Some("-") => "e",
                Some(p) if p.starts_with("zz") => "b",
                _ => "h",
            };
            mk(ses, format!("v{v}/mint/{oc}/{st}/wl{wk}-act{}/pf{pf}/{ed}", act.map(|a| (a as u8).to_string()).unwrap_or("x".into())));
            let k = pre.c.as_ref().map(|o| o.kind.clone()).unwrap_or("none".into());
            let own = match &pre.c {
                Some(o) if o.owner == Some(pre.maddr) => "own",
                Some(_) => "handed",
                None => "none",
            };
            ses.mark(format!("sub/{k}/mint/{oc}/{own}/oc{}", pre.oc as u8));
            if oc == "ok" && act == Some(true) {
                mk(ses, format!("wlmint-ok/wl{wk}/v{v}"));
                ses.count(&format!("wlmint-ok:wl{wk}:v{v}"));
            }
            if oc == "err" && act == Some(true) && pre.exists && pre.v == 2 && pf == "n" {
                mk(ses, format!("merkle-missing-proof/wl{wk}"));
            }
        }
        "create" | "set_wl" => {
            let target = kv_opt_u64(line, "wl").unwrap_or(None);
            let wk = kind_of(target);
            mk(ses, format!("v{v}/{op}/{oc}/{st}/wl{wk}"));
            if target.is_some() && kv(line, "wlvalid") != Some("0") && kv(line, "valid") != Some("0") {
                mk(ses, format!("attach/wl{wk}/{op}/{oc}/v{v}"));
            }
            if op == "create" {
                let ck = kv_u64(line, "code").and_then(|c| sut.ccodes.iter().position(|x| *x == c)).map(|x| x.to_string()).unwrap_or("x".into());
                mk(ses, format!(
                    "create/{oc}/v{v}/ck{ck}/oc{}/nft{}/ntok{}/end{}",
                    kv(line, "onchain").unwrap_or("?"),
                    kv(line, "nftok").unwrap_or("?"),
                    if kv(line, "ntok") == Some("-") { "x" } else { "n" },
                    if kv(line, "end") == Some("-") { "x" } else { "t" }
                ));
                if oc == "ok" && post.exists && post.ntok.is_none() {
                    mk(ses, format!("edition/uncapped/create/ok/v{v}"));
                }
            }
        }
        "c_transfer" | "c_burn" | "c_trading" | "c_creator" | "c_freeze" | "c_own" => {
            mk(ses, format!("v{v}/{op}/{oc}/ck{}/{}", pre.ck, kv(line, "act").unwrap_or("-")));
        }
        "x_migrate_upd" | "x_migrate_self" | "x_setver" => {
            let k = pre.c.as_ref().map(|o| o.kind.clone()).unwrap_or("none".into());
            ses.mark(format!("coll/{k}/{}/{oc}", &op[2..]));
        }
        o if o.starts_with("x_") => {
            let k = pre.c.as_ref().map(|o| o.kind.clone()).unwrap_or("none".into());
            let sd = kv_u64(line, "s");
            let who = match &pre.c {
                Some(o) if sd.is_some() && sd == o.owner => "minter",
                Some(o) if sd == Some(o.creator) => "creator",
                Some(o) if sd.is_some() && sd == o.pending => "pending",
                _ => "other",
            };
            let opn = if o == "x_raw" { format!("raw-{}", kv(line, "v").unwrap_or("?")) } else { o[2..].to_string() };
            ses.mark(format!("coll/{k}/{opn}/{oc}"));
            let (fz, fm) = pre.c.as_ref().map(|o| (o.fz as u8, o.fm as u8)).unwrap_or((9, 9));
            ses.mark(format!("coll/{k}/{opn}/{oc}/{who}/fz{fz}/fm{fm}/funds{}", (kv(line, "funds").unwrap_or("-") != "-") as u8));
        }
        "blk" => ses.mark(format!("blk/{oc}/{st}")),
        o if o.starts_with("q_") && o != "q_has" => {
            let k = pre.c.as_ref().map(|o| o.kind.clone()).unwrap_or("none".into());
            ses.mark(format!("q/{k}/{o}/{}", out.split_whitespace().nth(1).unwrap_or("?")));
        }
        "mint_to" | "upd_trading" => {
            let k = pre.c.as_ref().map(|o| o.kind.clone()).unwrap_or("none".into());
            let own = match &pre.c {
                Some(o) if o.owner == Some(pre.maddr) => "own",
                Some(_) => "handed",
                None => "none",
            };
            ses.mark(format!("sub/{k}/{op}/{oc}/{own}/oc{}", pre.oc as u8));
            if op == "mint_to" {
                mk(ses, format!("v{v}/{op}/{oc}/{st}/{ed}"));
            } else {
                mk(ses, format!("v{v}/{op}/{oc}/{st}"));
            }
        }
        "sudo_params" => {
            let keys: Vec<&str> = line.split_whitespace().skip(1).filter_map(|w| w.split_once('=').map(|x| x.0)).collect();
            mk(ses, format!("v{v}/sudo_params/{oc}/{}", keys.join("+")));
        }
        "w_inst" => {
            let k = kv_u64(line, "v").unwrap_or(9);
            mk(ses, format!("w_inst/k{k}/{oc}"));
        }
        o if o.starts_with("w_") => {
            let k = kv_u64(line, "k").unwrap_or(0);
            let wk = kind_of(Some(k));
            let who = match kv_u64(line, "sender") {
                Some(WLADMIN) => "admin",
                _ => "other",
            };
            let act = sut.wcur.get(&k).map(|i| i.active as u8).unwrap_or(9);
            let attached = pre.wl == Some(k);
            mk(ses, format!("wl{wk}/{o}/{oc}/{who}/act{act}/att{}", attached as u8));
        }
        "purge" | "burn" | "upd_price" | "upd_end" => mk(ses, format!("v{v}/{op}/{oc}/{st}/{ed}")),
        _ => mk(ses, format!("v{v}/{op}/{oc}/{st}")),
    }
    if (op == "mint" || op == "mint_to") && oc == "ok" && pre.exists {
        if pre.ntok.is_none() {
            mk(ses, format!("edition/uncapped/mint/ok/v{v}"));
        }
        if pre.oc {
            mk(ses, format!("edition/onchain/mint/ok/v{v}/ck{}", pre.ck));
        }
        if pre.ntok.is_some() && post.left == Some(0) {
            mk(ses, format!("edition/capped/soldout/v{v}"));
        }
        if pre.ntok.is_none() && post.left == Some(0) {
            mk(ses, format!("edition/uncapped/factory-cap-reached/v{v}"));
        }
    }
    if (op == "mint" || op == "mint_to") && pre.exists {
        mk(ses, format!("mintparse/{oc}/oc{}/ck{}", pre.oc as u8, pre.ck));
        ses.count(&format!("mintparse:oc{}:ck{}:{oc}", pre.oc as u8, pre.ck));
    }
}

/// the proof strings for a generator-side proof spec: `-` no `proof_hashes` at all (`~`), `e` the empty list (`-`), `b` not hex,
/// `j` well-formed junk, `p.<wl>.<stage idx>.<stage|x>.<who>.<alloc|x>` the proof of that leaf in the tree the generator built
/// for that whitelist stage (one junk hash when there is no such leaf)
fn proof_str(sut: &S, spec: &str) -> String {
    let junk = |tiered: bool, b: u8| hex::encode(vec![b; if tiered { 16 } else { 32 }]);
    match spec {
        "-" => "~".into(),
        "e" => "-".into(),
        "b" => "zz-not-hex,1234".into(),
        "j" => {
            let tiered = sut.last.wl.and_then(|k| sut.wls.get(&k)).map(|i| is_tiered(i.kind)).unwrap_or(false);
            format!("{},{}", junk(tiered, 0xab), junk(tiered, 0x17))
        }
        p => {
            let q: Vec<&str> = p.split('.').collect();
            if q.len() != 6 {
                return "-".into();
            }
            let k: u64 = q[1].parse().unwrap_or(0);
            let i: usize = q[2].parse().unwrap_or(0);
            let leaf: LeafT = (parse_ox(q[3]), q[4].parse().unwrap_or(0), parse_ox(q[5]));
            let Some(info) = sut.wls.get(&k) else { return "-".into() };
            let Some(st) = info.stages.get(i) else { return "-".into() };
            match st.leaves.iter().position(|l| *l == leaf) {
                Some(pos) if i < info.trees.len() => {
                    let pr = info.trees[i].proof(pos);
                    if pr.is_empty() {
                        "-".into()
                    } else {
                        pr.join(",")
                    }
                }
                _ => junk(is_tiered(info.kind), 1),
            }
        }
    }
}

/// the `w_inst` line (sender WLADMIN, exact fee, member limit 1000) for a generator-side whitelist description
/// `wl kind= denom= st=<start:end:price:per:cl;…> mem=<a:c,…;…> lv=<stage|x:who:alloc|x,…;…>`; the description itself becomes
/// `sut.pending` (the generator's ground truth about leaves and trees)
fn inst_from_spec(sut: &mut S, line: &str) -> String {
    let Some((kind, dn, mut stages)) = parse_wl_line(line) else { return format!("w_inst v=0 sender={WLADMIN} funds=- BAD-SPEC") };
    let k = wl_kind_idx(kind);
    let tiered = is_tiered(kind);
    if stages.is_empty() && kind != WlKind::Immutable {
        stages.push(StageInfo { start: 0, end: 0, price: 0, per_addr: 1, cnt_limit: None, members: vec![(20, 1)], leaves: vec![] });
    }
    let trees: Vec<Tree> = stages.iter().map(|s| Tree::build(tiered, &s.leaves)).collect();
    let limit: u64 = kv_u64(line, "limit").unwrap_or(if k < 4 { 1000 } else { 0 });
    let fee = World::wl_fee(kind, limit as u32);
    let funds = if fee > 0 { format!("0:{fee}") } else { "-".to_string() };
    let s0 = stages.first().cloned().unwrap_or_default();
    let st_t: Vec<StageT> = stages.iter().enumerate().map(|(i, s)| StageT { name: i as u64 + 1, start: s.start, end: s.end, denom: dn, price: s.price, pal: s.per_addr, mcl: s.cnt_limit }).collect();
    let (members, stg, sm) = match k {
        0 | 1 => (fmt_pairs(&s0.members), "-".to_string(), "~".to_string()),
        2 | 3 => ("-".to_string(), render_stages(&st_t), render_lists(&stages.iter().map(|s| s.members.clone()).collect::<Vec<_>>())),
        5 => ("-".to_string(), render_stages(&st_t), "~".to_string()),
        6 => ("20:0,21:0".to_string(), "-".to_string(), "~".to_string()),
        _ => ("-".to_string(), "-".to_string(), "~".to_string()),
    };
    let roots = if is_merkle(kind) { trees.iter().map(|t| t.root_hex(tiered)).collect::<Vec<_>>().join(",") } else { "-".to_string() };
    let roots = if roots.is_empty() { "-".to_string() } else { roots };
    sut.pending = Some(WlRec { addr: String::new(), kind, denom: dn, stages: if kind == WlKind::Immutable { vec![] } else { stages }, trees });
    format!(
        "w_inst v={k} sender={WLADMIN} funds={funds} admins={WLADMIN} mut=1 start={} end={} price={dn}:{} pal={} limit={limit} whale=- members={members} stages={stg} smembers={sm} roots={roots} uriok=1 uris=none dbps=-",
        s0.start, s0.end, s0.price, if k == 1 { 0 } else { s0.per_addr.max(if k == 6 { 1 } else { 0 }) }
    )
}

/// generator shorthands → protocol lines (every protocol line is executable from its text alone)
fn xlate(sut: &mut S, line: &str) -> String {
    let op = line.split_whitespace().next().unwrap_or("");
    match op {
        "wl" => inst_from_spec(sut, line),
        "mint" => {
            let spec = kv(line, "proof").unwrap_or("-").to_string();
            let words: Vec<String> = line.split_whitespace().map(|w| if w.starts_with("proof=") { format!("proof={}", proof_str(sut, &spec)) } else { w.to_string() }).collect();
            words.join(" ")
        }
        "wl_time" | "wl_stage" | "wl_add" | "wl_rm" => {
            let k = kv_u64(line, "a").unwrap_or(0);
            let kind = sut.wls.get(&k).map(|r| r.kind).unwrap_or(WlKind::Plain);
            let stage = kv_u64(line, "stage").unwrap_or(0);
            let sender = kv_u64(line, "sender").unwrap_or(WLADMIN);
            let funds = kv(line, "funds").unwrap_or("-");
            let head = format!("k={k} sender={sender} funds={funds}");
            match op {
                "wl_time" => format!("w_upd_{} {head} t={}", if kv(line, "which") == Some("start") { "start" } else { "end" }, kv_u64(line, "t").unwrap_or(0)),
                "wl_stage" => format!("w_upd_stage {head} id={stage} name=- start={} end={} price=- pal=- mcl=-", fmt_opt(&kv_u64(line, "start")), fmt_opt(&kv_u64(line, "end"))),
                "wl_add" => format!("w_add {head} stage={stage} members={}:{}", kv_u64(line, "m").unwrap_or(0), if is_flex(kind) { kv_u64(line, "c").unwrap_or(1) } else { 0 }),
                _ => format!("w_rm {head} stage={stage} addrs={}", kv_u64(line, "m").unwrap_or(0)),
            }
        }
        _ => line.to_string(),
    }
}

fn step(ses: &mut Session, sut: &mut S, line: &str) -> bool {
    let pre = sut.last.clone();
    let line = &xlate(sut, line);
    let out = ses.step(sut, line);
    sut.pending = None;
    if sut.trace {
        eprintln!("TRACE {line} => {}", &out[..out.len().min(3)]);
    }
    classify(ses, sut, &pre, line, &out);
    out.starts_with("ok")
}
fn expect_ok(ses: &mut Session, sut: &mut S, line: &str) {
    if !step(ses, sut, line) {
        eprintln!("TOUR-UNEXPECTED err: {line}");
        ses.count("tour-unexpected-err");
    }
}
fn funds_str(c: Option<(u64, u128)>) -> String {
    match c {
        Some((_, 0)) | None => "-".into(),
        Some((d, a)) => format!("{d}:{a}"),
    }
}
/// single-fault mutation of an attached payment
fn mut_funds(rng: &mut Rng, base: (u64, u128)) -> String {
    let (d, a) = base;
    match rng.below(7) {
        0 => format!("{d}:{}", a + 1),
        1 if a > 0 => format!("{d}:{}", a - 1),
        2 => format!("{}:{}", 1 - d.min(1), a.max(1)),
        3 => format!("{d}:{},{}:5", a.max(1), 1 - d.min(1)),
        4 if a > 0 => "-".into(),
        5 => format!("{d}:0"),
        _ => format!("{d}:{}", a + 1),
    }
}
/// stage windows relative to the mint start S (as c04)
fn windows(shape: u64, s: u64) -> Vec<(u64, u64)> {
    match shape % 8 {
        0 => vec![(s - 600, s - 400), (s - 400, s - 200), (s - 150, s - 100)],
        1 => vec![(s - 300, s + 300)],
        2 => vec![(s + 100, s + 300), (s + 305, s + 400)],
        3 => vec![(s - 200, s)],
        4 => vec![(s, s + 200)],
        5 => vec![(s - 400, s - 100), (s - 100, s + 100), (s + 100, s + 250)],
        6 => vec![(s - 500, s - 499)],
        _ => vec![(s - 50, s + 900), (s + 950, s + 1200)],
    }
}
fn wl_line(kind: WlKind, denom: u64, wins: &[(u64, u64)], base_price: u128, rng: &mut Rng, tag: u64) -> String {
    let n = if is_tiered(kind) { wins.len().min(3) } else { 1 };
    let mut st = vec![];
    let mut mem = vec![];
    let mut lv = vec![];
    for i in 0..n {
        let (a, b) = wins[i];
        let per = if is_flex(kind) { 0 } else { 1 + rng.below(3) };
        let cl = if is_tiered(kind) && rng.chance(1, 3) { (1 + rng.below(3)).to_string() } else { "x".into() };
        st.push(format!("{a}:{b}:{}:{per}:{cl}", base_price + 1000 * i as u128));
        let ms: Vec<u64> = BUYERS.iter().cloned().filter(|m| (*m as usize + i) % 4 != 3).collect();
        if is_merkle(kind) {
            let mut leaves: Vec<String> = vec![format!("x:{}:x", 9000 + 10 * tag + i as u64)];
            for (j, m) in ms.iter().enumerate() {
                match (j + i) % 3 {
                    0 => leaves.push(format!("x:{m}:x")),
                    1 => leaves.push(format!("x:{m}:{}", 2 + j)),
                    _ => leaves.push(format!("{}:{m}:{}", i + 1, 1 + j)),
                }
            }
            lv.push(leaves.join(","));
            mem.push("-".to_string());
        } else {
            mem.push(ms.iter().map(|m| format!("{m}:{}", if is_flex(kind) { 1 + (m % 3) } else { 0 })).collect::<Vec<_>>().join(","));
            lv.push("-".to_string());
        }
    }
    if kind == WlKind::Immutable {
        return format!("wl kind={} denom={denom} st=- mem=- lv=-", wl_kind_idx(kind));
    }
    format!("wl kind={} denom={denom} st={} mem={} lv={}", wl_kind_idx(kind), st.join(";"), mem.join(";"), lv.join(";"))
}
/// the mint line a buyer would send (Merkle minter: proofs by the right / the wrong sender, other trees, junk)
fn mint_line(sut: &S, buyer: u64, funds: &str, mode: u64) -> String {
    let l = &sut.last;
    let merkle_minter = l.exists && l.v == 2;
    if !merkle_minter {
        // plain / flex `Mint {}` has no fields; rarely send some anyway (serde rejects them)
        return match mode % 40 {
            37 => format!("mint sender={buyer} funds={funds} stage=1 alloc=- proof=-"),
            38 => format!("mint sender={buyer} funds={funds} stage=- alloc=- proof=j"),
            39 => format!("mint sender={buyer} funds={funds} stage=- alloc=2 proof=-"),
            _ => format!("mint sender={buyer} funds={funds} stage=- alloc=- proof=-"),
        };
    }
    let now = l.now;
    let info = l.wl.and_then(|k| sut.wls.get(&k).map(|i| (k, i)));
    let mut stage = "-".to_string();
    let mut alloc = "-".to_string();
    let mut proof = "-".to_string();
    if let Some((k, i)) = info {
        if is_merkle(i.kind) && !i.stages.is_empty() {
            let ti = i.active_stage(now).unwrap_or(0);
            let own = i.stages[ti].leaves.iter().find(|l| l.1 == buyer).cloned();
            let other = i.stages[ti].leaves.iter().find(|l| l.1 != buyer && l.1 < 9000).cloned();
            let enc = |t: usize, l: &LeafT| format!("p.{k}.{t}.{}.{}.{}", ox(&l.0), l.1, ox(&l.2));
            match mode % 10 {
                0 | 1 | 2 => {
                    if let Some(l) = own.clone().or(other.clone()) {
                        stage = fmt_opt(&l.0);
                        alloc = fmt_opt(&l.2);
                        proof = enc(ti, &l);
                    }
                }
                3 => {
                    if let Some(l) = other {
                        proof = enc(ti, &l);
                        if let Some(o) = own {
                            stage = fmt_opt(&o.0);
                            alloc = fmt_opt(&o.2);
                        }
                    }
                }
                4 => {
                    if let Some(l) = own {
                        stage = fmt_opt(&l.0);
                        alloc = (l.2.unwrap_or(1) + 5).to_string();
                        proof = enc(ti, &l);
                    }
                }
                5 => {
                    let tj = (ti + 1) % i.stages.len();
                    if let Some(l) = i.stages[tj].leaves.iter().find(|l| l.1 == buyer).cloned() {
                        stage = fmt_opt(&l.0);
                        alloc = fmt_opt(&l.2);
                        proof = enc(tj, &l);
                    }
                }
                6 => proof = "j".into(),
                8 => {
                    if let Some((k2, i2)) = sut.wls.iter().find(|(k2, i2)| **k2 != k && is_merkle(i2.kind) && !i2.stages.is_empty()) {
                        if let Some(l) = i2.stages[0].leaves.iter().find(|l| l.1 == buyer).cloned() {
                            stage = fmt_opt(&l.0);
                            alloc = fmt_opt(&l.2);
                            proof = format!("p.{k2}.0.{}.{}.{}", ox(&l.0), l.1, ox(&l.2));
                        }
                    }
                }
                9 => {
                    let l: LeafT = (own.as_ref().and_then(|o| o.0), buyer, Some(own.as_ref().and_then(|o| o.2).unwrap_or(1) + 40));
                    stage = fmt_opt(&l.0);
                    alloc = fmt_opt(&l.2);
                    proof = enc(ti, &l);
                }
                _ => proof = if mode % 20 == 7 { "b".into() } else if mode % 20 == 17 { "e".into() } else { "-".into() },
            }
        } else if mode % 4 == 3 {
            proof = "j".into();
            alloc = "7".into();
        } else if mode % 4 == 2 {
            // a list whitelist behind a Merkle minter: the proof-carrying `HasMember` does not parse there
            proof = "e".into();
        }
    } else if mode % 9 == 8 {
        proof = "j".into();
        stage = "1".into();
    }
    format!("mint sender={buyer} funds={funds} stage={stage} alloc={alloc} proof={proof}")
}

#[derive(Clone, Debug)]
struct CreateSpec {
    sender: u64,
    funds: String,
    code: u64,
    creator: u64,
    trading: Option<u64>,
    nftok: bool,
    onchain: bool,
    uri: bool,
    pay: Option<u64>,
    start: u64,
    end: Option<u64>,
    ntok: Option<u64>,
    price: (u64, u128),
    limit: u64,
    wl: Option<u64>,
    wlvalid: bool,
    collok: bool,
    /// the real `collection_params`: `nm= sym= desc=<id:len> image= ext=<id|-> ec=<-|0|1> roy=<pay:share|->` (`collok=0`: a faulty copy)
    cp: String,
    /// interned `nft_data` payloads: `token_uri` = `ipfs://edition/<turi>.json`, `extension.name` = `n<text>`
    turi: u64,
    text: u64,
}
const CP_STD: &str = "nm=1 sym=2 desc=1:30 image=0 ext=7 ec=0 roy=-";
impl CreateSpec {
    fn line(&self) -> String {
        format!(
            "create sender={} funds={} code={} creator={} trading={} nftok={} onchain={} uri={} pay={} start={} end={} ntok={} price={} limit={} wl={} wlvalid={} collok={} {} turi={} text={}",
            self.sender, self.funds, self.code, self.creator, fmt_opt(&self.trading), self.nftok as u8, self.onchain as u8, self.uri as u8, fmt_opt(&self.pay), self.start, fmt_opt(&self.end), fmt_opt(&self.ntok), rc(self.price), self.limit, fmt_opt(&self.wl), self.wlvalid as u8, self.collok as u8, self.cp, self.turi, self.text
        )
    }
    /// a plain valid creation for the deterministic scenarios
    fn basic(code: u64, start: u64, end: Option<u64>, ntok: Option<u64>, wl: Option<u64>) -> CreateSpec {
        CreateSpec { sender: ADMIN, funds: "0:5000000000".into(), code, creator: ADMIN, trading: None, nftok: true, onchain: false, uri: true, pay: Some(PAYEE), start, end, ntok, price: (0, 100_000_000), limit: 2, wl, wlvalid: true, collok: true, cp: CP_STD.to_string(), turi: 1_000_000, text: 7 }
    }
}
/// random valid `collection_params` (as compcoll.rs `inst_line`)
fn rand_cp(rng: &mut Rng) -> String {
    let p = 10u128.pow(16);
    let dlen = *rng.pick(&[512u64, 30, 6, 100, 0, 5]);
    let desc = format!("{}:{dlen}", if dlen < 6 { 0 } else { rng.range(1, 40) });
    let image = *rng.pick(&[0u64, 1, 5, 6]);
    let ext = if rng.chance(1, 2) { (*rng.pick(&[0u64, 7, 11])).to_string() } else { "-".into() };
    let ec = *rng.pick(&["-", "0", "1"]);
    let roy = match rng.below(6) {
        0 | 1 => "-".to_string(),
        2 => format!("40:{}", 100 * p),
        3 => "41:0".to_string(),
        4 => format!("40:{}", 10 * p),
        _ => format!("40:{}", rng.below(10) as u128 * p),
    };
    format!("nm={} sym={} desc={desc} image={image} ext={ext} ec={ec} roy={roy}", rng.range(1, 9), rng.range(1, 9))
}
/// one single-fault copy of valid `collection_params`: the collection's own `instantiate` refuses
fn bad_cp(rng: &mut Rng) -> String {
    let p = 10u128.pow(16);
    match rng.below(6) {
        0 => "nm=1 sym=2 desc=4:513 image=0 ext=7 ec=0 roy=-".into(),
        1 => format!("nm=1 sym=2 desc=1:30 image={} ext=7 ec=0 roy=-", rng.pick(&[2u64, 3, 4])),
        2 => format!("nm=1 sym=2 desc=1:30 image=0 ext={} ec=0 roy=-", rng.pick(&[2u64, 3, 4])),
        3 => format!("nm=1 sym=2 desc=1:30 image=0 ext=7 ec=0 roy=40:{}", 100 * p + 1),
        4 => format!("nm=1 sym=2 desc=1:30 image=0 ext=- ec=- roy={}:{}", rng.pick(&BADADDR), 5 * p),
        _ => format!("nm=1 sym=2 desc=1:30 image=0 ext=7 ec=0 roy=40:{}", 200 * p),
    }
}
fn valid_create(sut: &S, g: &mut G, start: u64, end: Option<u64>, ntok: Option<u64>, wl: Option<u64>) -> CreateSpec {
    let l = &sut.last;
    let onchain = g.rng.chance(1, 3);
    let colls: Vec<u64> = l.f_allowed.iter().cloned().filter(|c| g.cc.contains(c)).collect();
    let good: Vec<u64> = colls.iter().cloned().filter(|c| mint_parses(onchain, g.cc.iter().position(|x| x == c).unwrap())).collect();
    // a collection that cannot take this edition's `Mint` never mints: keep it rare
    let mut code = if colls.is_empty() {
        g.cc[0]
    } else if !good.is_empty() && g.rng.chance(7, 8) {
        *g.rng.pick(&good)
    } else {
        *g.rng.pick(&colls)
    };
    if code == g.cc[2] && g.rng.chance(1, 3) && !good.is_empty() {
        code = *g.rng.pick(&good);
    }
    let limit = (1 + g.rng.below(3)).min(l.maxper.max(1));
    let price = (l.minp.0, if g.rng.chance(1, 6) { l.minp.1.max(if ntok.is_none() { 1 } else { 0 }) } else { l.minp.1 + 50_000_000 + g.rng.below(3) as u128 });
    CreateSpec {
        sender: ADMIN,
        funds: funds_str(Some(l.cfee)),
        code,
        creator: ADMIN,
        trading: None,
        nftok: true,
        onchain,
        uri: true,
        pay: if g.rng.chance(2, 3) { Some(PAYEE) } else { None },
        start,
        end,
        ntok,
        price,
        limit,
        wl,
        wlvalid: true,
        collok: true,
        cp: if g.rng.chance(1, 2) { CP_STD.to_string() } else { rand_cp(&mut g.rng) },
        turi: 1_000_000 + g.rng.below(5),
        text: g.rng.below(9),
    }
}

/// one single-fault (or boundary) mutation of an otherwise valid CreateMinter
fn mutate_create(sut: &S, g: &mut G, c: &mut CreateSpec) -> &'static str {
    let l = sut.last.clone();
    let bound_t = l.offset.saturating_mul(SEC).saturating_add(c.start);
    match g.rng.below(36) {
        0 => {
            c.funds = if l.cfee.1 > 1 { format!("{}:{}", l.cfee.0, l.cfee.1 - 1) } else { "-".into() };
            "fee-1"
        }
        1 => {
            c.funds = format!("{}:{}", l.cfee.0, l.cfee.1 + 1);
            "fee+1"
        }
        2 => {
            c.funds = format!("{}:{}", 1 - l.cfee.0.min(1), l.cfee.1.max(1));
            "fee-denom"
        }
        3 => {
            c.funds = format!("{}:{},{}:7", l.cfee.0, l.cfee.1.max(1), 1 - l.cfee.0.min(1));
            "fee-two-coins"
        }
        4 => {
            c.funds = "-".into();
            "fee-none"
        }
        5 => {
            c.code = *g.rng.pick(&[9999u64, g.mc[0], 1]);
            "code-not-allowed"
        }
        6 => {
            c.ntok = Some(0);
            "ntok-0"
        }
        7 => {
            c.ntok = Some(l.maxtok + 1);
            "ntok-max+1"
        }
        8 => {
            if l.maxtok <= 150 {
                c.ntok = Some(l.maxtok);
            }
            "ntok-max"
        }
        9 => {
            c.limit = 0;
            "limit-0"
        }
        10 => {
            c.limit = l.maxper + 1;
            "limit-max+1"
        }
        11 => {
            c.limit = l.maxper;
            "limit-max"
        }
        12 => {
            c.price.1 = l.minp.1.saturating_sub(1);
            "price-floor-1"
        }
        13 => {
            c.price.1 = l.minp.1;
            "price-floor"
        }
        14 => {
            c.price.0 = 1 - l.minp.0.min(1);
            "price-denom"
        }
        15 => {
            c.uri = false;
            "uri"
        }
        16 => {
            c.start = l.now - 1;
            "start-now-1"
        }
        17 => {
            c.start = l.now;
            "start-now"
        }
        18 => {
            c.start = l.now + 1;
            if let Some(e) = c.end {
                c.end = Some(e.max(c.start + 1));
            }
            "start-now+1"
        }
        19 => {
            c.trading = Some(bound_t + 1);
            "trading-bound+1"
        }
        20 => {
            c.trading = Some(bound_t);
            "trading-bound"
        }
        21 => {
            c.wl = Some(*g.rng.pick(&[799u64, 1000, 798]));
            "wl-no-contract"
        }
        22 => {
            c.wlvalid = false;
            if c.wl.is_none() {
                c.wl = Some(799);
            }
            "wl-invalid-string"
        }
        23 => {
            c.cp = bad_cp(&mut g.rng);
            "coll-bad"
        }
        24 => {
            c.sender = 31; // never funded
            "sender-poor"
        }
        25 => {
            c.creator = STRANGER;
            "creator-other"
        }
        26 => {
            c.trading = Some(c.start.saturating_sub(10));
            "trading-early"
        }
        27 => {
            c.nftok = false;
            "nft-invalid"
        }
        28 => {
            c.end = None;
            c.ntok = None;
            "neither-end-nor-cap"
        }
        29 => {
            c.end = Some(c.start);
            "end-eq-start"
        }
        30 => {
            c.end = Some(c.start + 1);
            "end-start+1"
        }
        31 => {
            c.end = Some(c.start - 1);
            "end-start-1"
        }
        32 => {
            c.price.1 = 0;
            "price-0"
        }
        33 => {
            c.onchain = !c.onchain;
            "flip-onchain"
        }
        34 => {
            c.ntok = None;
            if c.end.is_none() {
                c.end = Some(c.start + 700);
            }
            "uncapped"
        }
        _ => {
            c.end = Some(l.now);
            "end-now"
        }
    }
}

fn interesting_instants(sut: &S) -> Vec<u64> {
    let l = &sut.last;
    let mut v = vec![];
    if l.exists {
        v.push(l.start);
        if let Some(e) = l.end {
            v.push(e);
        }
        v.push(l.start.saturating_add(l.offset.saturating_mul(SEC)));
        if let Some(t) = l.trading {
            v.push(t);
        }
    }
    for i in sut.wls.values() {
        for st in &i.stages {
            v.push(st.start);
            v.push(st.end);
        }
    }
    v.sort();
    v.dedup();
    v
}

fn sender_or_stranger(g: &mut G, proper: u64) -> u64 {
    if g.rng.chance(1, 9) {
        *g.rng.pick(&[STRANGER, 21, PAYEE])
    } else {
        proper
    }
}
fn np_funds(g: &mut G) -> &'static str {
    if g.rng.chance(1, 14) {
        "0:1"
    } else {
        "-"
    }
}
/// a buyer with a good chance of being entitled right now
fn pick_buyer(sut: &S, g: &mut G) -> u64 {
    let l = &sut.last;
    let entitled: Vec<u64> = l
        .wl
        .and_then(|k| sut.wls.get(&k))
        .and_then(|i| i.active_stage(l.now).map(|si| if is_merkle(i.kind) { i.stages[si].leaves.iter().map(|x| x.1).filter(|a| *a < 9000).collect() } else { i.stages[si].members.iter().map(|m| m.0).collect() }))
        .unwrap_or_default();
    if !entitled.is_empty() && g.rng.chance(3, 4) {
        *g.rng.pick(&entitled)
    } else if g.rng.chance(1, 8) {
        *g.rng.pick(&[STRANGER, ADMIN])
    } else {
        let fresh: Vec<u64> = BUYERS.iter().cloned().filter(|b| l.ma.iter().find(|e| e.0 == *b).map(|e| e.1).unwrap_or(0) < l.limit).collect();
        if !fresh.is_empty() && g.rng.chance(4, 5) {
            *g.rng.pick(&fresh)
        } else {
            *g.rng.pick(&BUYERS)
        }
    }
}
fn do_mint(ses: &mut Session, sut: &mut S, g: &mut G, buyer: u64) -> bool {
    let cur = sut.last.cur.unwrap_or(sut.last.price);
    let funds = if g.rng.chance(1, 5) { mut_funds(&mut g.rng, cur) } else { funds_str(Some(cur)) };
    let mode = if g.rng.chance(2, 3) { g.rng.below(3) } else { g.rng.below(40) };
    let line = mint_line(sut, buyer, &funds, mode);
    step(ses, sut, &line)
}
fn do_time(ses: &mut Session, sut: &mut S, g: &mut G) {
    let now = sut.last.now;
    let inst = interesting_instants(sut);
    let mut cands: Vec<u64> = inst.iter().flat_map(|t| [t.saturating_sub(1), *t, t + 1]).filter(|t| *t > now).collect();
    cands.sort();
    cands.dedup();
    let t = if !cands.is_empty() && g.rng.chance(4, 5) {
        cands[(g.rng.below(4) as usize).min(cands.len() - 1)]
    } else if g.rng.chance(1, 10) {
        now.saturating_sub(1 + g.rng.below(5)) // the clock never runs backwards: refused on both sides
    } else if g.rng.chance(1, 10) {
        now // next block, same time
    } else {
        now + 1 + g.rng.below(300)
    };
    step(ses, sut, &format!("t now={t}"));
}
fn do_sudo_params(ses: &mut Session, sut: &mut S, g: &mut G) {
    let l = sut.last.clone();
    let line = match g.rng.below(23) {
        0 => format!("sudo_params feebps={}", g.rng.pick(&[0u64, 1, 500, 1000, 9999, 10_000, 10_001, 20_000])),
        1 => format!("sudo_params airp=0:{}", g.rng.pick(&[0u128, 1, 7_000_000, 50_000_000])),
        2 => format!("sudo_params airp=1:{}", g.rng.pick(&[0u128, 5, 4_000_000])), // any denom is accepted here
        3 => format!("sudo_params dev={}", g.rng.pick(&["x", "13", "13", "30", "10", "1"])),
        4 => format!("sudo_params xminp={}", g.rng.pick(&["0:1", "1:7", "0:900000000"])), // ignored by the code
        5 => format!("sudo_params cfee={}", g.rng.pick(&["1:1000", "0:5000000000", "0:2", "0:1", "0:0", "1:0"])),
        6 => format!("sudo_params minp=0:{}", g.rng.pick(&[0u128, 1, 50_000_000, 50_000_001, 100_000_000, 100_000_001, 49_999_999])),
        7 => "sudo_params minp=1:50000000".to_string(),
        8 => format!("sudo_params frozen={}", g.rng.below(2)),
        9 => {
            let c = *g.rng.pick(&[g.cc[0], g.cc[1], g.cc[2], g.cc[3], 9999, g.mc[1]]);
            format!("sudo_params addc={c},{c},{}", g.rng.pick(&[g.cc[0], 7777]))
        }
        10 => format!("sudo_params rmc={}", g.rng.pick(&[g.cc[0], g.cc[1], g.cc[3], 7777])),
        11 => format!("sudo_params addc={} rmc={}", g.cc[2], g.cc[2]),
        12 => format!("sudo_params offset={}", g.rng.pick(&[0u64, 1, 2, 60, 604_800])),
        13 => format!("sudo_params maxtok={}", g.rng.pick(&[1u64, 5, 12, 150, 10_000])),
        14 => format!("sudo_params maxper={}", g.rng.pick(&[1u64, 2, 3, 5, 50])),
        15 => format!("sudo_params airbps={}", g.rng.pick(&[0u64, 1, 5000, 10_000, 10_001])),
        16 => format!("sudo_params code={}", g.rng.pick(&[g.mc[0], g.mc[1], g.mc[2], 9999, g.non_minter[0], g.non_minter[3]])),
        17 => "sudo_params".to_string(),
        18 => format!("sudo_params feebps={} minp=1:9 maxtok=77 dev=x", l.feebps + 1), // one bad denom: nothing at all is saved
        19 => format!("sudo_params xminp=1:3 minp=0:{}", l.minp.1),
        20 => format!("sudo_params dev=x feebps={}", g.rng.pick(&[0u64, 1000])),
        21 => format!("sudo_params airp=0:0 airbps={}", g.rng.pick(&[0u64, 10_000])),
        _ => format!("sudo_params code={} frozen=0 cfee={} minp={} feebps={} offset={} maxtok={} maxper={} airp={} airbps={} dev={} addc=- rmc=-", l.f_code, rc(l.cfee), rc(l.minp), l.feebps, l.offset, l.maxtok, l.maxper, rc(l.airp), l.airbps, ox(&l.dev)),
    };
    step(ses, sut, &line);
}

/// one message to a whitelist contract: mostly by its admin, mostly without funds, every `ExecuteMsg` of every crate
/// (also the ones the addressed crate does not have), schedule edits around the current block and the stage edges
fn do_wl_admin(ses: &mut Session, sut: &mut S, g: &mut G) {
    let keys: Vec<u64> = sut.wls.keys().cloned().collect();
    if keys.is_empty() {
        step(ses, sut, &format!("w_freeze k=799 sender={WLADMIN} funds=-"));
        return;
    }
    // prefer the attached whitelist
    let k = match sut.last.wl {
        Some(a) if keys.contains(&a) && g.rng.chance(2, 3) => a,
        _ => *g.rng.pick(&keys),
    };
    let info = sut.wls[&k].clone();
    let ki = wl_kind_idx(info.kind);
    let now = sut.last.now;
    let nst = info.stages.len().max(1) as u64;
    let si = g.rng.below(nst);
    let st = info.stages.get(si as usize).cloned().unwrap_or_default();
    let ms = sut.last.start;
    let near = [now.saturating_sub(1), now, now + 1, now + 50, st.start + 1, st.end.saturating_sub(1), st.end, st.end + 1, ms, ms + 1];
    let sender = match g.rng.below(12) {
        0 => STRANGER,
        1 => ADMIN,
        _ => WLADMIN,
    };
    let funds = match g.rng.below(16) {
        0 => "0:5",
        1 => "0:0",
        2 => "1:3",
        _ => "-",
    };
    let head = format!("k={k} sender={sender} funds={funds}");
    let who = if g.rng.chance(1, 3) { STRANGER } else { *g.rng.pick(&BUYERS) };
    let cnt = if is_flex(info.kind) { 1 + g.rng.below(3) } else { 0 };
    let line = match g.rng.below(20) {
        0 | 1 => format!("w_upd_start {head} t={}", g.rng.pick(&near)),
        2 | 3 => format!("w_upd_end {head} t={}", g.rng.pick(&near)),
        4 | 5 | 6 => {
            let mut m = format!("{who}:{cnt}");
            if g.rng.chance(1, 6) {
                m = format!("{m},{}:{cnt}", g.rng.pick(&BUYERS));
            }
            if g.rng.chance(1, 15) {
                m = format!("{m},{INVALID}:0");
            }
            format!("w_add {head} stage={si} members={m}")
        }
        7 | 8 => format!("w_rm {head} stage={si} addrs={}", g.rng.pick(&BUYERS)),
        9 => format!("w_upd_pal {head} n={}", g.rng.pick(&[0u64, 1, 2, 3, 30, 31])),
        10 => {
            let (l, fee) = *g.rng.pick(&[(1000u64, 0u128), (1001, 100_000_000), (2000, 100_000_000), (999, 0), (2001, 200_000_000)]);
            let f = if g.rng.chance(1, 4) { "-".to_string() } else { funds_str(Some((0, fee))) };
            format!("w_inc k={k} sender={sender} funds={f} limit={l}")
        }
        11 => format!("w_upd_admins {head} admins={}", g.rng.pick(&["11", "11,10", "10", "11,90001", "-"])),
        12 => {
            if g.rng.chance(1, 3) {
                format!("w_freeze {head}")
            } else {
                format!("w_unknown {head} name={}", g.rng.pick(&["update_merkle_tree", "no_such_message"]))
            }
        }
        13 | 14 => {
            let last = info.stages.last().cloned().unwrap_or_default();
            let a = *g.rng.pick(&[last.end, last.end + 1, last.end + 10, now + 1]);
            let stg = StageT { name: 7, start: a, end: a + 1 + g.rng.below(200), denom: info.denom, price: st.price + 500, pal: if is_flex(info.kind) { 0 } else { 1 + g.rng.below(3) }, mcl: if g.rng.chance(1, 3) { Some(1 + g.rng.below(3)) } else { None } };
            format!("w_add_stage {head} stage={} members={who}:{cnt}", stg.render())
        }
        15 => format!("w_rm_stage {head} id={}", g.rng.below(nst + 1)),
        _ => {
            // update_stage_config: one or two fields
            let a = *g.rng.pick(&near);
            let (start, end) = match g.rng.below(4) {
                0 => (a.to_string(), (a + 1 + g.rng.below(300)).to_string()),
                1 => ("-".to_string(), g.rng.pick(&near).to_string()),
                2 => (a.to_string(), "-".to_string()),
                _ => ("-".to_string(), "-".to_string()),
            };
            let pal = if g.rng.chance(1, 2) { (1 + g.rng.below(4)).to_string() } else { "-".into() };
            let mcl = if g.rng.chance(1, 3) { (1 + g.rng.below(4)).to_string() } else { "-".into() };
            let price = if g.rng.chance(1, 4) { format!("{}:{}", info.denom, st.price + 1 + g.rng.below(5) as u128) } else { "-".into() };
            format!("w_upd_stage {head} id={si} name=- start={start} end={end} price={price} pal={pal} mcl={mcl}")
        }
    };
    let _ = ki;
    step(ses, sut, &line);
}
// ------------------------------------------------------------------------------------------------ collection traffic (as compcoll.rs, inside the system)

/// `EnableUpdatable` fee as the contract reports it (private constant of sg721-updatable)
fn enable_fee(sut: &S) -> u128 {
    sut.minter
        .as_ref()
        .and_then(|mi| sut.w.query(&mi.coll, &json!({"enable_updatable_fee": {}})).ok())
        .and_then(|v| v.as_str().and_then(|x| x.parse().ok()))
        .unwrap_or(1_500_000_000)
}
fn x_any_sender(g: &mut G, l: &Last) -> u64 {
    let all = [10u64, 11, 12, 20, 21, 22, 23, 30, 40, STUB, l.maddr];
    *g.rng.pick(&all)
}
fn x_any_target(g: &mut G, l: &Last) -> u64 {
    match g.rng.below(12) {
        0 => *g.rng.pick(&BADADDR),
        1 | 2 => STUB,
        3 => l.caddr,
        4 => l.maddr,
        5 => 10,
        _ => *g.rng.pick(&BUYERS),
    }
}
fn x_funds(g: &mut G) -> String {
    match g.rng.below(24) {
        0 => "0:5".into(),
        1 => "1:7".into(),
        2 => "0:0".into(),
        3 => "0:3,1:2".into(),
        4 => "0:0,1:1".into(),
        5 => "0:999999999999999999".into(),
        _ => "-".into(),
    }
}
fn x_exp(g: &mut G, l: &Last) -> String {
    let (h, t) = (l.height, l.now);
    match g.rng.below(10) {
        0 | 1 => "-".into(),
        2 => "n".into(),
        3 => format!("h{h}"),
        4 => format!("h{}", h + 1),
        5 => format!("h{}", h + g.rng.range(2, 6)),
        6 => format!("t{t}"),
        7 => format!("t{}", t + 1),
        8 => format!("t{}", t + g.rng.range(2, 5) * SEC),
        _ => format!("h{}", h.saturating_sub(1)),
    }
}
fn x_token_id(g: &mut G, o: &Obs, ntok: u64, want_existing: bool) -> u64 {
    if want_existing && !o.toks.is_empty() {
        let i = g.rng.below(o.toks.len() as u64) as usize;
        o.toks[i].id
    } else {
        let top = ntok.max(4) + 3;
        let free: Vec<u64> = (1..=top).filter(|i| o.tok(*i).is_none()).collect();
        if free.is_empty() || g.rng.chance(1, 10) {
            g.rng.range(1, top + 1)
        } else {
            *g.rng.pick(&free)
        }
    }
}
/// somebody who may move token `t`: owner, an approved spender, an operator of the owner
fn x_mover(g: &mut G, o: &Obs, t: &Tok) -> u64 {
    let mut c: Vec<u64> = vec![t.owner, t.owner];
    c.extend(t.approvals.iter().map(|x| x.0));
    c.extend(o.ops.iter().filter(|x| x.0 == t.owner).map(|x| x.1));
    *g.rng.pick(&c)
}
fn x_share(g: &mut G, o: &Obs) -> u128 {
    let p = 10u128.pow(16);
    let old = o.roy.map(|r| r.1).unwrap_or(0);
    let c = [old, old + 2 * p, old + 2 * p + 1, (old + 2 * p).saturating_sub(1), old.saturating_sub(p), 10 * p, 10 * p + 1, 10 * p - 1, 100 * p, 100 * p + 1, 0, old + p, g.rng.below(12) as u128 * p];
    *g.rng.pick(&c)
}
fn x_desc(g: &mut G) -> String {
    let len = match g.rng.below(10) {
        0 => 512,
        1 => 513,
        2 => 511,
        3 => 0,
        4 => 5,
        5 => 518,
        _ => g.rng.range(6, 80),
    };
    let id = if len < 6 { 0 } else { g.rng.range(1, 50) };
    format!("{id}:{len}")
}
fn x_url(g: &mut G) -> u64 {
    if !g.rng.chance(1, 8) {
        *g.rng.pick(&[0u64, 1, 5, 6, 7, 11, 12])
    } else {
        *g.rng.pick(&[2u64, 3, 4, 8, 9, 10])
    }
}
const VERSIONS: [&str; 12] = ["3.15.0", "3.1.0", "3.0.9", "3.0.5", "3.0.0", "2.9.9", "0.16.0", "0.15.9", "99.0.0", "3.1.1", "3.16.0", "3.16.1"];

/// one message to the collection contract by a holder / the creator / a stranger / the minter ADDRESS (cw-multi-test lets any
/// address sign; the minter contract itself has no message that would send these)
fn x_line(sut: &S, g: &mut G) -> String {
    let l = sut.last.clone();
    let Some(o) = l.c.clone() else { return format!("x_freeze s={ADMIN} funds=-") };
    let valid = g.rng.chance(7, 10);
    let minter = o.owner;
    let creator = o.creator;
    let f = x_funds(g);
    let upd = o.kind == "updatable";
    let unknown = sut.sf.unknown.get(&o.kind).cloned().unwrap_or_default();
    if !unknown.is_empty() && g.rng.chance(1, 12) {
        return format!("x_raw s={} funds=- v={}", x_any_sender(g, &l), g.rng.pick(&unknown));
    }
    let pick = g.rng.below(100);
    let existing = |g: &mut G| {
        let want = valid || g.rng.chance(1, 2);
        let id = x_token_id(g, &o, l.idx, want);
        let s = match o.tok(id) {
            Some(t) if valid => {
                let t = t.clone();
                x_mover(g, &o, &t)
            }
            _ => x_any_sender(g, &l),
        };
        (id, s)
    };
    if pick < 10 {
        let s = if valid && minter.is_some() { minter.unwrap() } else { x_any_sender(g, &l) };
        let dup = !valid && g.rng.chance(1, 2);
        // rarely an id the minter has not reached yet: claiming `TOKEN_INDEX + 1` directly makes every later mint fail (`Claimed`)
        // until that token is burned (the tours do this deterministically)
        let mut id = x_token_id(g, &o, l.idx, dup);
        if id > l.idx && !g.rng.chance(1, 8) {
            id = l.idx + 1000 + g.rng.below(3);
        }
        let owner = if !valid && g.rng.chance(1, 4) { *g.rng.pick(&BADADDR) } else { x_any_target(g, &l) };
        let uri = if g.rng.chance(1, 4) { "-".to_string() } else { g.rng.range(1, 30).to_string() };
        let s2 = if dup && minter.is_some() { minter.unwrap() } else { s };
        format!("x_mint s={s2} funds={f} id={id} owner={owner} uri={uri} ext={}", g.rng.below(4))
    } else if pick < 22 {
        let (id, s) = existing(g);
        format!("x_transfer s={s} funds={f} to={} id={id}", x_any_target(g, &l))
    } else if pick < 28 {
        let (id, s) = existing(g);
        let to = if valid { STUB } else { x_any_target(g, &l) };
        format!("x_send s={s} funds={f} to={to} id={id} payload={}", if g.rng.chance(1, 5) { 0 } else { 1 })
    } else if pick < 38 {
        let (id, mut s) = existing(g);
        if valid {
            if let Some(t) = o.tok(id) {
                if t.approvals.iter().any(|x| x.0 == s) && s != t.owner {
                    s = t.owner;
                }
            }
        }
        let sp = if g.rng.chance(1, 12) { *g.rng.pick(&BADADDR) } else { *g.rng.pick(&[21u64, 22, 23, 30, STUB]) };
        if g.rng.chance(2, 3) {
            format!("x_approve s={s} funds={f} sp={sp} id={id} exp={}", x_exp(g, &l))
        } else {
            format!("x_revoke s={s} funds={f} sp={sp} id={id}")
        }
    } else if pick < 46 {
        let s = if valid { *g.rng.pick(&BUYERS) } else { x_any_sender(g, &l) };
        let opr = if g.rng.chance(1, 12) { *g.rng.pick(&BADADDR) } else { *g.rng.pick(&[20u64, 21, 22, 30, STUB]) };
        if g.rng.chance(2, 3) {
            format!("x_approve_all s={s} funds={f} op={opr} exp={}", x_exp(g, &l))
        } else {
            format!("x_revoke_all s={s} funds={f} op={opr}")
        }
    } else if pick < 54 {
        let (id, s) = existing(g);
        format!("x_burn s={s} funds={f} id={id}")
    } else if pick < 67 {
        let s = if valid { creator } else { x_any_sender(g, &l) };
        let desc = if g.rng.chance(1, 2) { "-".to_string() } else { x_desc(g) };
        let image = if g.rng.chance(1, 2) { "-".to_string() } else { x_url(g).to_string() };
        let ext = if g.rng.chance(1, 2) { "-".to_string() } else { x_url(g).to_string() };
        let ec = *g.rng.pick(&["-", "0", "1"]);
        let roy = match g.rng.below(6) {
            0 | 1 | 2 => "-".to_string(),
            _ => {
                let payee = if g.rng.chance(1, 12) { *g.rng.pick(&BADADDR) } else { *g.rng.pick(&PAYEES) };
                format!("{payee}:{}", x_share(g, &o))
            }
        };
        let cr = match g.rng.below(8) {
            0 => "11".to_string(),
            1 => "10".to_string(),
            2 if !valid => g.rng.pick(&BADADDR).to_string(),
            _ => "-".to_string(),
        };
        format!("x_uci s={s} funds={f} desc={desc} image={image} ext={ext} ec={ec} roy={roy} creator={cr}")
    } else if pick < 71 {
        let s = if valid && minter.is_some() { minter.unwrap() } else { x_any_sender(g, &l) };
        let t = if g.rng.chance(1, 4) { "-".to_string() } else { (l.now + g.rng.below(100000)).to_string() };
        format!("x_ustt s={s} funds={f} t={t}")
    } else if pick < 75 {
        let s = if valid && (o.fz || g.rng.chance(1, 3)) { creator } else { x_any_sender(g, &l) };
        format!("x_freeze s={s} funds={f}")
    } else if pick < 83 {
        let r = if o.pending.is_some() && g.rng.chance(1, 2) { 3 } else { g.rng.below(6) };
        match r {
            0 | 1 | 2 => {
                let s = if valid && minter.is_some() { minter.unwrap() } else { x_any_sender(g, &l) };
                let to = if g.rng.chance(1, 10) { *g.rng.pick(&BADADDR) } else { *g.rng.pick(&[l.maddr, STUB, 20, 10, 30]) };
                format!("x_own_transfer s={s} funds={f} to={to} exp={}", x_exp(g, &l))
            }
            3 | 4 => {
                let s = if valid && o.pending.is_some() { o.pending.unwrap() } else { x_any_sender(g, &l) };
                format!("x_own_accept s={s} funds={f}")
            }
            _ => {
                let s = if valid && minter.is_some() && g.rng.chance(1, 4) { minter.unwrap() } else { x_any_sender(g, &l) };
                format!("x_own_renounce s={s} funds={f}")
            }
        }
    } else if pick < 93 {
        if !upd && g.rng.chance(2, 3) {
            let (id, s) = existing(g);
            return format!("x_transfer s={s} funds=- to={} id={id}", g.rng.pick(&BUYERS));
        }
        let fee = enable_fee(sut);
        match g.rng.below(10) {
            0 => {
                let s = if valid && (o.fm || g.rng.chance(1, 3)) { creator } else { x_any_sender(g, &l) };
                format!("x_freeze_meta s={s} funds={}", if valid { "-".to_string() } else { f.clone() })
            }
            1 | 2 | 3 => {
                let s = if valid { creator } else { x_any_sender(g, &l) };
                let ff = match g.rng.below(8) {
                    0 => format!("0:{}", fee - 1),
                    1 => format!("0:{}", fee + 1),
                    2 => format!("1:{fee}"),
                    3 => "-".to_string(),
                    4 => format!("0:{fee},1:5"),
                    _ => format!("0:{fee}"),
                };
                format!("x_enable s={s} funds={ff}")
            }
            _ => {
                let s = if valid { creator } else { x_any_sender(g, &l) };
                let want = valid || g.rng.chance(1, 2);
                let id = x_token_id(g, &o, l.idx, want);
                let uri = if g.rng.chance(1, 5) { "-".to_string() } else { g.rng.range(31, 60).to_string() };
                format!("x_utm s={s} funds={} id={id} uri={uri}", if valid { "-".to_string() } else { f.clone() })
            }
        }
    } else if pick < 94 {
        format!("x_extension s={} funds={f}", x_any_sender(g, &l))
    } else {
        match g.rng.below(7) {
            0 | 1 => format!("x_setver v={}", g.rng.pick(&VERSIONS)),
            2 | 3 | 4 => "x_migrate_upd".into(),
            _ => "x_migrate_self".into(),
        }
    }
}

fn x_query_line(sut: &S, g: &mut G) -> String {
    let l = &sut.last;
    let empty = Obs::default();
    let o = l.c.as_ref().unwrap_or(&empty);
    let ie = g.rng.below(2);
    let want = g.rng.chance(4, 5);
    let id = x_token_id(g, o, l.idx, want);
    let lim = match g.rng.below(6) {
        0 => "-".to_string(),
        1 => "0".into(),
        2 => "1".into(),
        3 => "200".into(),
        _ => g.rng.range(2, 12).to_string(),
    };
    let after_tok = if g.rng.chance(1, 2) { "-".to_string() } else { g.rng.range(0, 14).to_string() };
    let owner = if g.rng.chance(1, 12) { *g.rng.pick(&BADADDR) } else { *g.rng.pick(&[20u64, 21, 22, 23, 10, STUB]) };
    match g.rng.below(11) {
        0 => format!("q_owner_of id={id} ie={ie}"),
        1 => format!("q_approval id={id} sp={} ie={ie}", g.rng.pick(&[20u64, 21, 22, 23, 30, STUB, 900])),
        2 => format!("q_approvals id={id} ie={ie}"),
        3 => {
            let after = match g.rng.below(4) {
                0 => (*g.rng.pick(&[20u64, 21, 22, 30, STUB, 901])).to_string(),
                _ => "-".into(),
            };
            format!("q_operators owner={owner} ie={ie} after={after} limit={lim}")
        }
        4 => format!("q_nft_info id={id}"),
        5 => format!("q_all_nft_info id={id} ie={ie}"),
        6 => format!("q_tokens owner={owner} after={after_tok} limit={lim}"),
        7 | 8 => format!("q_all_tokens after={after_tok} limit={lim}"),
        9 => (*g.rng.pick(&["q_upd", "q_ownership"])).into(),
        _ => {
            let pay = *g.rng.pick(&[0u128, 1, 9, 10, 100, 1000, 999_999, 10u128.pow(20) + 7]);
            let fee = *g.rng.pick(&[0u128, 1, 10, pay / 2, pay, pay + 1]);
            let fin = match g.rng.below(3) {
                0 => "-".to_string(),
                1 => "0".into(),
                _ => (pay / 10).to_string(),
            };
            format!("q_payout pay={pay} fee={fee} fin={fin}")
        }
    }
}

/// next block: height and time, preferring the instants the collection state makes interesting (approval / operator / hand-over
/// expiries by height and by time, `royalty_updated_at + 24 h`) at −1 / 0 / +1
fn do_blk(ses: &mut Session, sut: &mut S, g: &mut G) {
    let l = sut.last.clone();
    let (mut h, mut t) = (l.height, l.now);
    let mut cands_t: Vec<u64> = vec![];
    let mut cands_h: Vec<u64> = vec![];
    if let Some(o) = &l.c {
        cands_t.push(o.rua + DAY_NS);
        let mut exps: Vec<String> = o.toks.iter().flat_map(|t| t.approvals.iter().map(|x| x.1.clone())).collect();
        exps.extend(o.ops.iter().map(|x| x.2.clone()));
        if let Some(e) = &o.pexp {
            exps.push(e.clone());
        }
        for e in exps {
            match parse_exp(&e) {
                Some(('h', v)) => cands_h.push(v),
                Some(('t', v)) => cands_t.push(v),
                _ => {}
            }
        }
    }
    let r = g.rng.below(10);
    if r < 4 && !cands_t.is_empty() {
        let c = *g.rng.pick(&cands_t);
        let d = *g.rng.pick(&[0i64, -1, 1]);
        let nt = (c as i64 + d) as u64;
        t = if nt >= t { nt } else { t + 1 };
        h += 1;
    } else if r < 7 && !cands_h.is_empty() {
        let c = *g.rng.pick(&cands_h);
        let d = *g.rng.pick(&[0i64, -1, 1]);
        let nh = (c as i64 + d).max(0) as u64;
        h = if nh >= h { nh } else { h + 1 };
        t += 5 * SEC;
    } else if r < 9 {
        h += 1;
        t += g.rng.range(1, 6) * SEC;
    } else {
        h += g.rng.range(1, 20000);
        t += g.rng.range(1, 2 * DAY_NS);
    }
    step(ses, sut, &format!("blk h={h} t={t}"));
}

/// one step of collection traffic: a message (sometimes repeated in the same block), a query, or the next block
fn do_x_op(ses: &mut Session, sut: &mut S, g: &mut G) {
    if sut.last.c.is_none() {
        step(ses, sut, &format!("x_freeze s={ADMIN} funds=-"));
        step(ses, sut, "q_all_tokens after=- limit=-");
        return;
    }
    match g.rng.below(10) {
        0 => do_blk(ses, sut, g),
        1 => {
            let q = x_query_line(sut, g);
            step(ses, sut, &q);
        }
        _ => {
            let line = x_line(sut, g);
            step(ses, sut, &line);
            if g.rng.chance(1, 15) {
                step(ses, sut, &line);
            }
        }
    }
}

fn do_coll_op(ses: &mut Session, sut: &mut S, g: &mut G) {
    let l = sut.last.clone();
    if !l.exists {
        step(ses, sut, &format!("c_freeze sender={ADMIN}"));
        return;
    }
    let owner_of_some = l.toks.first().cloned();
    match g.rng.below(12) {
        0 | 1 => {
            if let Some((id, o)) = if l.toks.is_empty() { None } else { Some(*g.rng.pick(&l.toks)) } {
                let s = if g.rng.chance(1, 5) { STRANGER } else { o };
                step(ses, sut, &format!("c_transfer sender={s} id={id} to={}", g.rng.pick(&[20u64, 21, 30, 12])));
            } else {
                step(ses, sut, &format!("c_transfer sender=20 id=1 to=21"));
            }
        }
        2 => {
            if let Some((id, o)) = owner_of_some {
                let s = if g.rng.chance(1, 3) { STRANGER } else { o };
                step(ses, sut, &format!("c_burn sender={s} id={id}"));
            } else {
                step(ses, sut, &format!("c_burn sender=20 id={}", 1 + g.rng.below(4)));
            }
        }
        3 | 4 => {
            let s = *g.rng.pick(&[l.maddr, l.maddr, ADMIN, STRANGER]);
            let t = match g.rng.below(4) {
                0 => "-".to_string(),
                1 => l.now.to_string(),
                2 => (l.now + 1000).to_string(),
                _ => l.now.saturating_sub(5).to_string(),
            };
            step(ses, sut, &format!("c_trading sender={s} t={t}"));
        }
        5 | 6 => {
            let s = *g.rng.pick(&[l.creator, l.creator, ADMIN, STRANGER]);
            step(ses, sut, &format!("c_creator sender={s} new={}", g.rng.pick(&[ADMIN, STRANGER, 21])));
        }
        7 => {
            let s = *g.rng.pick(&[l.creator, l.creator, STRANGER]);
            step(ses, sut, &format!("c_freeze sender={s}"));
        }
        _ => {
            // ownership of the collection: transfer by the minter (the cw_ownable owner), accept by the pending owner
            let own = l.owner.unwrap_or(l.maddr);
            match g.rng.below(6) {
                0 | 1 => {
                    let s = if g.rng.chance(1, 4) { STRANGER } else { own };
                    step(ses, sut, &format!("c_own sender={s} act=transfer new={}", g.rng.pick(&[STRANGER, 21, l.maddr])));
                }
                2 | 3 => {
                    let s = l.pending.unwrap_or(STRANGER);
                    step(ses, sut, &format!("c_own sender={s} act=accept new=0"));
                }
                4 => {
                    step(ses, sut, &format!("c_own sender={} act=accept new=0", 22));
                }
                _ => {
                    let s = if g.rng.chance(1, 2) { STRANGER } else { own };
                    if g.rng.chance(1, 3) {
                        step(ses, sut, &format!("c_own sender={s} act=renounce new=0"));
                    } else {
                        step(ses, sut, &format!("c_own sender={s} act=transfer new={}", l.maddr));
                    }
                }
            }
        }
    }
}
/// 0 no minter, 1 before the start, 2 running, 3 nothing left, 4 ended
fn phase_of(l: &Last) -> u8 {
    if !l.exists {
        0
    } else if matches!(l.end, Some(e) if l.now >= e) {
        4
    } else if l.left == Some(0) {
        3
    } else if l.now < l.start {
        1
    } else {
        2
    }
}

/// one random step of the walk
fn rand_op(ses: &mut Session, sut: &mut S, g: &mut G) {
    if sut.last.exists && g.rng.chance(2, 7) || g.rng.chance(1, 60) {
        do_x_op(ses, sut, g);
        return;
    }
    let l = sut.last.clone();
    let admin = if l.exists { l.admin } else { ADMIN };
    // phase-aware choice: ops that are bound to fail in the current phase are kept, but rare (single-fault, mostly valid)
    let wl_active = l.wl.and_then(|k| sut.wcur.get(&k)).map(|i| i.active).unwrap_or(false);
    let phase = phase_of(&l);
    let mut r = g.rng.below(100);
    for _ in 0..4 {
        let futile = match (phase, r) {
            (0, 13..=79) | (0, 91..=95) => true,
            (1, 13..=34) => !wl_active,
            (1, 42..=48) => l.end.is_some(),
            (2, 55..=58) | (2, 72..=77) => true,
            (2, 42..=48) => l.end.is_some(),
            (3, 13..=41) | (3, 46..=48) | (3, 55..=58) | (3, 72..=77) => true,
            (4, 13..=41) | (4, 49..=63) | (4, 72..=77) => true,
            _ => false,
        };
        if futile && g.rng.chance(5, 6) {
            r = g.rng.below(100);
        } else {
            break;
        }
    }
    if phase == 1 && !wl_active && r <= 12 && g.rng.chance(1, 2) {
        // go to the next opening: a stage of the attached whitelist, or the public start (exactly, or one ns around it)
        let mut opens: Vec<u64> = vec![l.start];
        if let Some(i) = l.wl.and_then(|k| sut.wls.get(&k)) {
            opens.extend(i.stages.iter().map(|s| s.start));
        }
        opens.retain(|t| *t > l.now);
        opens.sort();
        if let Some(t) = opens.first() {
            let t = match g.rng.below(6) {
                0 => t - 1,
                1 => t + 1,
                _ => *t,
            };
            step(ses, sut, &format!("t now={}", t.max(l.now)));
            return;
        }
    }
    match r {
        0..=12 => do_time(ses, sut, g),
        13..=34 => {
            let b = pick_buyer(sut, g);
            let n = if g.rng.chance(1, 4) { 1 + g.rng.below(3) } else { 1 };
            for _ in 0..n {
                do_mint(ses, sut, g, b);
            }
        }
        35..=41 => {
            let s = sender_or_stranger(g, admin);
            let funds = if g.rng.chance(1, 6) { mut_funds(&mut g.rng, l.airp) } else { funds_str(Some(l.airp)) };
            step(ses, sut, &format!("mint_to sender={s} funds={funds} rcpt={}", g.rng.pick(&[20u64, 21, 22, 30, 12])));
        }
        42..=45 => {
            let f = np_funds(g);
            step(ses, sut, &format!("purge sender={} funds={f}", g.rng.pick(&[STRANGER, ADMIN, 20])));
        }
        46..=48 => {
            let s = sender_or_stranger(g, admin);
            let f = np_funds(g);
            // a capped edition without an end time can be closed at any moment: not too early in the walk
            if l.end.is_none() && phase <= 2 && g.rng.chance(2, 3) {
                do_time(ses, sut, g);
            } else {
                step(ses, sut, &format!("burn sender={s} funds={f}"));
            }
        }
        49..=54 => {
            let s = sender_or_stranger(g, admin);
            let f = np_funds(g);
            let p = match g.rng.below(9) {
                0 => l.price.1,
                1 => l.price.1.saturating_sub(1),
                2 => l.price.1 + 1,
                3 => l.minp.1,
                4 => l.minp.1.saturating_sub(1),
                5 => 0,
                6 => 1,
                _ => l.price.1 + 10_000_000,
            };
            step(ses, sut, &format!("upd_price sender={s} funds={f} price={p}"));
        }
        55..=58 => {
            let s = sender_or_stranger(g, admin);
            let f = np_funds(g);
            let mut c: Vec<u64> = vec![l.now.saturating_sub(1), l.now, l.now + 1, l.start, l.start + 1, l.start.saturating_sub(1), l.start + 37];
            if let Some(e) = l.end {
                c.extend([e - 1, e, e + 1]);
            }
            for t in interesting_instants(sut) {
                c.push(t);
            }
            step(ses, sut, &format!("upd_start sender={s} funds={f} t={}", g.rng.pick(&c)));
        }
        59..=63 => {
            let s = sender_or_stranger(g, admin);
            let f = np_funds(g);
            let e = l.end.unwrap_or(l.start + 500);
            let c: Vec<u64> = vec![l.now.saturating_sub(1), l.now, l.now + 1, l.start.saturating_sub(1), l.start, l.start + 1, e - 1, e, e + 1, e + 300, l.now + 40];
            step(ses, sut, &format!("upd_end sender={s} funds={f} t={}", g.rng.pick(&c)));
        }
        64..=67 => {
            let s = sender_or_stranger(g, admin);
            let f = np_funds(g);
            let b = l.start.saturating_add(l.offset.saturating_mul(SEC));
            let t = match g.rng.below(9) {
                0 => "-".to_string(),
                1 => l.now.to_string(),
                2 => l.now.saturating_sub(1).to_string(),
                3 => (l.now + 1).to_string(),
                4 => b.to_string(),
                5 => (b + 1).to_string(),
                6 => b.saturating_sub(1).to_string(),
                7 => l.start.to_string(),
                _ => (l.now + g.rng.below(5000)).to_string(),
            };
            step(ses, sut, &format!("upd_trading sender={s} funds={f} t={t}"));
        }
        68..=71 => {
            let s = sender_or_stranger(g, admin);
            let f = np_funds(g);
            let n = *g.rng.pick(&[0u64, 1, 2, 3, 4, l.maxper, l.maxper + 1]);
            step(ses, sut, &format!("upd_limit sender={s} funds={f} n={n}"));
        }
        72..=77 => {
            let s = sender_or_stranger(g, admin);
            let f = np_funds(g);
            let keys: Vec<u64> = sut.wls.keys().cloned().collect();
            let (wl, valid) = match g.rng.below(12) {
                0 => (799, 1),
                1 => (1000, 1),
                2 => (799, 0),
                3 => (l.maddr.max(1), 1),
                _ => {
                    let idle: Vec<u64> = keys.iter().cloned().filter(|k| sut.wcur.get(k).map(|i| !i.active).unwrap_or(true)).collect();
                    (if keys.is_empty() { 798 } else if !idle.is_empty() && g.rng.chance(3, 4) { *g.rng.pick(&idle) } else { *g.rng.pick(&keys) }, 1)
                }
            };
            step(ses, sut, &format!("set_wl sender={s} funds={f} wl={wl} valid={valid}"));
        }
        78..=79 => {
            step(ses, sut, &format!("sudo_status v={} b={} e={}", g.rng.below(2), g.rng.below(2), g.rng.below(2)));
        }
        80..=85 => do_sudo_params(ses, sut, g),
        86..=90 => {
            do_wl_admin(ses, sut, g);
            if g.rng.chance(1, 2) {
                do_wl_admin(ses, sut, g);
            }
        }
        91..=95 => do_coll_op(ses, sut, g),
        96..=97 => {
            let a = *g.rng.pick(&[20u64, 21, 22, 23, 30, 10]);
            step(ses, sut, &format!("fund a={a} d={} amt={}", g.rng.below(2), g.rng.pick(&[0u128, 1, 100_000_000, 1_000_000_000])));
        }
        _ => {
            step(ses, sut, &format!("inst_direct sender={} v={}", g.rng.pick(&[ADMIN, STRANGER]), g.rng.below(3)));
        }
    }
}

/// probes at the current instant that do not move the schedule when they succeed
fn battery(ses: &mut Session, sut: &mut S, g: &mut G) {
    let l = sut.last.clone();
    if !l.exists {
        return;
    }
    let wl_active = l.wl.and_then(|k| sut.wcur.get(&k)).map(|i| i.active).unwrap_or(false);
    let near = |t: u64| l.now + 2 >= t && l.now <= t + 2;
    let near_end = l.end.map(near).unwrap_or(false);
    if (l.left != Some(0) || g.rng.chance(1, 4)) && (l.now >= l.start || wl_active || g.rng.chance(1, 4)) {
        let b = pick_buyer(sut, g);
        do_mint(ses, sut, g, b);
        let o = *g.rng.pick(&[STRANGER, 23, 22]);
        let cur = sut.last.cur.unwrap_or(sut.last.price);
        let mode = g.rng.below(20);
        let line = mint_line(sut, o, &funds_str(Some(cur)), mode);
        step(ses, sut, &line);
    }
    if l.now < l.start || near(l.start) || g.rng.chance(1, 5) {
        step(ses, sut, &format!("upd_start sender={} funds=- t={}", l.admin, l.start));
        if let Some(k) = l.wl {
            step(ses, sut, &format!("set_wl sender={} funds=- wl={k} valid=1", l.admin));
        }
    }
    if g.rng.chance(1, 2) || near_end {
        step(ses, sut, &format!("mint_to sender={} funds={} rcpt=22", l.admin, funds_str(Some(l.airp))));
    }
    if near_end {
        // the three comparisons against `end_time`: `>=` (mint, price, end time), `<=` (purge, burn)
        let e = l.end.unwrap();
        step(ses, sut, &format!("upd_end sender={} funds=- t={e}", l.admin));
        step(ses, sut, &format!("purge sender={STRANGER} funds=-"));
        if g.rng.chance(1, 3) {
            step(ses, sut, &format!("burn sender={} funds=-", l.admin));
        }
    }
    let pick = if l.now < l.start && g.rng.chance(4, 5) { 2 } else { g.rng.below(4) };
    match pick {
        0 => {
            if let Some(e) = l.end {
                step(ses, sut, &format!("upd_end sender={} funds=- t={}", l.admin, e + g.rng.below(2)));
            }
        }
        1 => {
            step(ses, sut, &format!("upd_limit sender={} funds=- n={}", l.admin, l.limit));
        }
        2 => {
            let t = l.trading.unwrap_or(l.now).max(l.now);
            step(ses, sut, &format!("upd_trading sender={} funds=- t={t}", l.admin));
        }
        _ => {
            step(ses, sut, &format!("upd_price sender={} funds=- price={}", l.admin, sut.last.price.1.saturating_sub(1)));
        }
    }
}

fn fund_all(ses: &mut Session, sut: &mut S, g: &mut G, second_denom: bool) {
    step(ses, sut, &format!("fund a={ADMIN} d=0 amt=1000000000000"));
    step(ses, sut, &format!("fund a={WLADMIN} d=0 amt=100000000000000"));
    for b in [20u64, 21, 22, STRANGER] {
        step(ses, sut, &format!("fund a={b} d=0 amt=100000000000"));
    }
    // buyer 23 is sometimes broke / short of one mint
    let a23 = *g.rng.pick(&[0u128, 50_000_000, 100_000_000_000, 100_000_000_000, 100_000_000_000, 100_000_000_000, 100_000_000_000, 100_000_000_000]);
    if a23 > 0 {
        step(ses, sut, &format!("fund a=23 d=0 amt={a23}"));
    }
    if second_denom {
        for b in [ADMIN, 20, 21, 22] {
            step(ses, sut, &format!("fund a={b} d=1 amt=100000000000"));
        }
    }
}
fn fund_std(ses: &mut Session, sut: &mut S) {
    step(ses, sut, &format!("fund a={ADMIN} d=0 amt=1000000000000"));
    step(ses, sut, &format!("fund a={WLADMIN} d=0 amt=100000000000000"));
    for b in [20u64, 21, 22, 23, 30] {
        step(ses, sut, &format!("fund a={b} d=0 amt=100000000000"));
    }
}

/// the whitelist description used by the deterministic scenarios: members 20 (2 mints) and 21 (1 mint) in stage 1,
/// 21 and 22 in stage 2; `shift` moves the windows
fn tour_wl(wk: WlKind, s: u64, shift: u64) -> String {
    let per = |n: u64| if is_flex(wk) { 0 } else { n };
    let st = if is_tiered(wk) {
        format!("{}:{}:60000000:{}:x;{}:{}:61000000:{}:2", s - 3000 + shift, s - 2000 + shift, per(2), s - 1990 + shift, s - 1000 + shift, per(1))
    } else {
        format!("{}:{}:60000000:{}:x", s - 3000 + shift, s - 2000 + shift, per(2))
    };
    let (mem, lv) = match wk {
        WlKind::Plain | WlKind::Flex => ("20:2,21:1".to_string(), "-".to_string()),
        WlKind::Tiered | WlKind::TieredFlex => ("20:2,21:1;21:1,22:2".to_string(), "-;-".to_string()),
        WlKind::Merkle => ("-".to_string(), "x:20:x,x:21:2,x:9001:x".to_string()),
        _ => ("-;-".to_string(), "1:20:2,x:21:x,x:9001:x;2:22:1,x:9002:x".to_string()),
    };
    format!("wl kind={} denom=0 st={st} mem={mem} lv={lv}", wl_kind_idx(wk))
}

/// deterministic scenarios (independent of the seed): every message kind succeeds once for variant `v`, with whitelist
/// mints through the two whitelist kinds that belong to the variant.
/// shape 0: capped edition with an end time, off-chain, list / Merkle whitelist; every configuration message; collection
///          interface; closed by `BurnRemaining` + `Purge` after the end.
/// shape 1: uncapped on-chain edition with an end time, tiered whitelist (both stages); `Purge` / `BurnRemaining` after the end.
/// shape 2: capped edition without an end time, sold out by mints, then `Purge`.
fn tour(ses: &mut Session, sut: &mut S, g: &mut G, v: usize, shape: usize) {
    let now = GENESIS + 1_000_000 + 1000 * (3 * v + shape) as u64;
    let s = now + 5000;
    let e = s + 4000;
    let h = Hdr::std(now, g.mc[v], &g.cc);
    ses.begin_case(sut, &h.line(g, &format!("tour v={v} shape={shape}")));
    fund_std(ses, sut);
    if shape == 2 {
        let c = CreateSpec { limit: 2, ..CreateSpec::basic(g.cc[1], s, None, Some(3), None) };
        expect_ok(ses, sut, &c.line());
        expect_ok(ses, sut, &format!("t now={s}"));
        step(ses, sut, &format!("upd_end sender={ADMIN} funds=- t={}", s + 100)); // no end time was defined
        expect_ok(ses, sut, "mint sender=20 funds=0:100000000 stage=- alloc=- proof=-");
        step(ses, sut, "purge sender=30 funds=-"); // not sold out
        expect_ok(ses, sut, "mint sender=20 funds=0:100000000 stage=- alloc=- proof=-");
        step(ses, sut, "mint sender=20 funds=0:100000000 stage=- alloc=- proof=-"); // per-address limit
        expect_ok(ses, sut, &format!("mint_to sender={ADMIN} funds=0:5000000 rcpt=22"));
        step(ses, sut, "mint sender=21 funds=0:100000000 stage=- alloc=- proof=-"); // sold out
        step(ses, sut, &format!("burn sender={ADMIN} funds=-")); // sold out
        expect_ok(ses, sut, "purge sender=30 funds=-");
        step(ses, sut, "mint sender=23 funds=0:100000000 stage=- alloc=- proof=-"); // sold out for good
        ses.end_case();
        return;
    }
    let wk = match (v, shape) {
        (0, 0) => WlKind::Plain,
        (0, _) => WlKind::Tiered,
        (1, 0) => WlKind::Flex,
        (1, _) => WlKind::TieredFlex,
        (_, 0) => WlKind::Merkle,
        _ => WlKind::TieredMerkle,
    };
    step(ses, sut, &tour_wl(wk, s, 0));
    step(ses, sut, &tour_wl(wk, s, 7));
    let (wa, wb) = (1002u64, 1003u64);
    // immutable whitelist: can never be attached (its Config answer has another layout)
    step(ses, sut, "wl kind=6 denom=0 st=- mem=- lv=-");
    let onchain = shape == 1;
    let ck = if onchain { [3usize, 1, 3][v] } else { 0 };
    let ntok = if shape == 0 { Some(9) } else { None };
    let c = CreateSpec { onchain, wl: Some(1004), ..CreateSpec::basic(g.cc[ck], s, Some(e), ntok, None) };
    step(ses, sut, &c.line());
    step(ses, sut, &format!("inst_direct sender=10 v={v}"));
    let c = CreateSpec { wl: Some(wa), ..c };
    expect_ok(ses, sut, &c.line());
    step(ses, sut, &format!("set_wl sender={ADMIN} funds=- wl=1004 valid=1"));
    expect_ok(ses, sut, &format!("set_wl sender={ADMIN} funds=- wl={wb} valid=1"));
    expect_ok(ses, sut, &format!("set_wl sender={ADMIN} funds=- wl={wa} valid=1"));
    expect_ok(ses, sut, &format!("upd_start sender={ADMIN} funds=- t={s}"));
    expect_ok(ses, sut, &format!("upd_end sender={ADMIN} funds=- t={}", e + 1));
    expect_ok(ses, sut, &format!("upd_end sender={ADMIN} funds=- t={e}"));
    expect_ok(ses, sut, &format!("upd_price sender={ADMIN} funds=- price=100000001"));
    expect_ok(ses, sut, &format!("upd_limit sender={ADMIN} funds=- n=3"));
    if ck != 2 {
        expect_ok(ses, sut, &format!("upd_trading sender={ADMIN} funds=- t={}", s + 1));
    }
    expect_ok(ses, sut, "sudo_status v=1 b=0 e=1");
    expect_ok(ses, sut, "sudo_params feebps=1000");
    // whitelist window (stage 1)
    expect_ok(ses, sut, &format!("t now={}", s - 3000));
    let wl_mint = match wk {
        WlKind::Merkle => format!("mint sender=20 funds=0:60000000 stage=- alloc=- proof=p.{wa}.0.x.20.x"),
        WlKind::TieredMerkle => format!("mint sender=20 funds=0:60000000 stage=1 alloc=2 proof=p.{wa}.0.1.20.2"),
        _ => "mint sender=20 funds=0:60000000 stage=- alloc=- proof=-".to_string(),
    };
    expect_ok(ses, sut, &wl_mint);
    step(ses, sut, "mint sender=30 funds=0:60000000 stage=- alloc=- proof=-");
    if v == 2 {
        step(ses, sut, "mint sender=20 funds=0:60000000 stage=- alloc=- proof=-"); // MissingProofHashes
    }
    if is_tiered(wk) {
        // stage 2: 22 is a member there
        expect_ok(ses, sut, &format!("t now={}", s - 1990));
        let m2 = match wk {
            WlKind::TieredMerkle => format!("mint sender=22 funds=0:61000000 stage=2 alloc=1 proof=p.{wa}.1.2.22.1"),
            _ => "mint sender=22 funds=0:61000000 stage=- alloc=- proof=-".to_string(),
        };
        expect_ok(ses, sut, &m2);
        step(ses, sut, &m2); // plain / merkle: limit 1 reached; flex: member count 2
    }
    // public sale
    expect_ok(ses, sut, &format!("t now={s}"));
    expect_ok(ses, sut, "mint sender=21 funds=0:100000001 stage=- alloc=- proof=-");
    expect_ok(ses, sut, &format!("mint_to sender={ADMIN} funds=0:5000000 rcpt=22"));
    expect_ok(ses, sut, &format!("upd_price sender={ADMIN} funds=- price=99000000"));
    expect_ok(ses, sut, "mint sender=21 funds=0:99000000 stage=- alloc=- proof=-");
    if shape == 0 {
        // collection interface
        if let Some((id, o)) = sut.last.toks.first().cloned() {
            expect_ok(ses, sut, &format!("c_transfer sender={o} id={id} to=30"));
            expect_ok(ses, sut, &format!("c_burn sender=30 id={id}"));
        }
        expect_ok(ses, sut, &format!("c_creator sender={ADMIN} new=21"));
        expect_ok(ses, sut, "c_freeze sender=21");
        let m = sut.last.maddr;
        expect_ok(ses, sut, &format!("c_trading sender={m} t=-"));
        expect_ok(ses, sut, &format!("c_own sender={m} act=transfer new=30"));
        expect_ok(ses, sut, "c_own sender=30 act=accept new=0");
        step(ses, sut, &format!("mint_to sender={ADMIN} funds=0:5000000 rcpt=22")); // the minter no longer owns the collection
        expect_ok(ses, sut, &format!("c_own sender=30 act=transfer new={m}"));
        expect_ok(ses, sut, &format!("c_own sender={m} act=accept new=0"));
        expect_ok(ses, sut, &format!("mint_to sender={ADMIN} funds=0:5000000 rcpt=22"));
    }
    // the end: `>=` for mints, `<=` for purge / burn
    expect_ok(ses, sut, &format!("t now={}", e - 1));
    expect_ok(ses, sut, "mint sender=23 funds=0:99000000 stage=- alloc=- proof=-");
    step(ses, sut, &format!("burn sender={ADMIN} funds=-"));
    expect_ok(ses, sut, &format!("t now={e}"));
    step(ses, sut, "mint sender=23 funds=0:99000000 stage=- alloc=- proof=-");
    step(ses, sut, &format!("mint_to sender={ADMIN} funds=0:5000000 rcpt=22"));
    step(ses, sut, &format!("upd_end sender={ADMIN} funds=- t={}", e + 10));
    step(ses, sut, &format!("upd_price sender={ADMIN} funds=- price=98000000"));
    step(ses, sut, "purge sender=30 funds=-");
    step(ses, sut, &format!("burn sender={ADMIN} funds=-"));
    expect_ok(ses, sut, &format!("t now={}", e + 1));
    if shape == 0 {
        step(ses, sut, "purge sender=30 funds=-"); // plain / merkle: accepted after the end; flex: not sold out
        expect_ok(ses, sut, &format!("burn sender={ADMIN} funds=-"));
        expect_ok(ses, sut, "purge sender=30 funds=-");
    } else {
        expect_ok(ses, sut, "purge sender=30 funds=-");
        // flex: no counter at all -> `unwrap` on None panics; the others burn what is left of the captured factory cap
        step(ses, sut, &format!("burn sender={ADMIN} funds=-"));
    }
    step(ses, sut, "mint sender=22 funds=0:99000000 stage=- alloc=- proof=-");
    ses.end_case();
}

/// on-chain / off-chain edition x the four collection contracts: which `Mint` shapes does the collection parse?
// ------------------------------------------------------------------------------------------------ collection tours (deterministic)

const QS: [&str; 22] = [
    "q_all_tokens after=- limit=-",
    "q_all_tokens after=1 limit=2",
    "q_all_tokens after=- limit=0",
    "q_tokens owner=20 after=- limit=-",
    "q_tokens owner=21 after=10 limit=5",
    "q_tokens owner=900 after=- limit=-",
    "q_owner_of id=1 ie=0",
    "q_owner_of id=1 ie=1",
    "q_owner_of id=77 ie=1",
    "q_nft_info id=1",
    "q_all_nft_info id=1 ie=1",
    "q_approvals id=1 ie=0",
    "q_approvals id=1 ie=1",
    "q_approval id=1 sp=22 ie=0",
    "q_approval id=1 sp=23 ie=1",
    "q_operators owner=20 ie=0 after=- limit=-",
    "q_operators owner=20 ie=1 after=21 limit=-",
    "q_operators owner=20 ie=1 after=901 limit=-",
    "q_upd",
    "q_ownership",
    "q_payout pay=1000 fee=10 fin=5",
    "q_payout pay=10 fee=11 fin=-",
];
fn queries(ses: &mut Session, sut: &mut S) {
    let id = sut.last.toks.first().map(|t| t.0).unwrap_or(1);
    let owner = sut.last.toks.first().map(|t| t.1).unwrap_or(20);
    for q in QS {
        let q = q.replace("id=1 ", &format!("id={id} ")).replace("owner=20", &format!("owner={owner}"));
        let q = if q.ends_with("id=1") { q.replace("id=1", &format!("id={id}")) } else { q };
        step(ses, sut, &q);
    }
    step(ses, sut, &format!("q_approval id={id} sp={owner} ie=0"));
}

/// One system case per collection kind `ck` (0 base, 1 updatable, 2 nt, 3 onchain), minter flavour `v` and edition type (`onchain`):
/// the minter's own sub-messages (`Mint`, `UpdateStartTradingTime`) interleaved with EVERY message kind of that collection's
/// `ExecuteMsg` by holders, approved spenders, operators, the creator, strangers and the minter ADDRESS (cw-multi-test signs for it;
/// the minter contract has no such message): transfers, sends to the receiver stub, burns (the next mint takes a NEW id), the next
/// id claimed directly (every mint is then refused BY THE COLLECTION until that token is burned), creator hand-over, royalty
/// cadence, freeze, ownership hand-over away from the minter (every mint and trading-time update is then refused by the collection)
/// and back, renounce, migrations.
/// `migrate`: an sg721-base collection is migrated to the sg721-updatable code mid-way and the sg721-updatable messages follow.
fn coll_tour(ses: &mut Session, sut: &mut S, g: &mut G, ck: usize, v: usize, onchain: bool, migrate: bool) {
    let kind = KINDS[ck];
    let p16 = 10u128.pow(16);
    let now = GENESIS + 5_000_000 + 10_000 * ck as u64 + 1000 * v as u64 + if migrate { 500 } else { 0 } + if onchain { 250 } else { 0 };
    let s = now + 2000;
    let h = Hdr::std(now, g.mc[v], &g.cc);
    ses.begin_case(sut, &h.line(g, &format!("colltour ck={ck} v={v} oc={} migrate={}", onchain as u8, migrate as u8)));
    step(ses, sut, &format!("fund a={ADMIN} d=0 amt=1000000000000"));
    for b in [11u64, 20, 21, 22, 23, STRANGER] {
        step(ses, sut, &format!("fund a={b} d=0 amt=100000000000"));
    }
    let has = |sut: &S, op: &str| sut.sf.has[kind].contains(op);
    let c = CreateSpec { onchain, limit: 6, cp: "nm=3 sym=4 desc=1:40 image=2 ext=7 ec=0 roy=-".into(), turi: 1_000_000 + ck as u64, text: 5 + v as u64, ..CreateSpec::basic(g.cc[ck], s, None, Some(12), None) };
    // the collection's own instantiate refuses (image is no URL): the whole CreateMinter fails, the fee is not charged
    step(ses, sut, &c.line());
    let c = CreateSpec { cp: format!("nm=3 sym=4 desc=1:40 image=0 ext=7 ec=0 roy=40:{}", 5 * p16), ..c };
    if !step(ses, sut, &c.line()) {
        eprintln!("COLLTOUR-UNEXPECTED {kind}: create refused");
        ses.end_case();
        return;
    }
    // does the collection parse the `Mint` this edition sends?
    let parses = onchain || kind != "onchain";
    let m = sut.last.maddr;
    let a = ADMIN;
    // ---- trading time: through the minter (validated against the factory offset) and directly (the collection's own auth rule)
    step(ses, sut, &format!("upd_trading sender={a} funds=- t={}", s + 1));
    step(ses, sut, &format!("upd_trading sender={STRANGER} funds=- t={}", s + 2));
    step(ses, sut, &format!("upd_trading sender={a} funds=- t={}", s + 604_800 * SEC + 1));
    step(ses, sut, &format!("x_ustt s={STRANGER} funds=- t={}", s + 3));
    step(ses, sut, &format!("x_ustt s={a} funds=- t={}", s + 3));
    step(ses, sut, &format!("x_ustt s={m} funds=- t={}", s + 5));
    step(ses, sut, &format!("c_trading sender={m} t=-"));
    step(ses, sut, &format!("upd_trading sender={a} funds=- t={}", s + 7));
    step(ses, sut, &format!("t now={s}"));
    // ---- mints (sg721-metadata-onchain: the minter's `extension: None` does not parse — every mint is refused by the collection)
    for b in [20u64, 20, 21] {
        step(ses, sut, &format!("mint sender={b} funds=0:100000000 stage=- alloc=- proof=-"));
    }
    step(ses, sut, &format!("mint_to sender={a} funds=0:5000000 rcpt=22"));
    step(ses, sut, &format!("mint_to sender={a} funds=0:5000000 rcpt=900"));
    if !parses {
        if sut.last.toks.is_empty() {
            ses.mark("mintrefused/onchain");
        }
        // an off-chain edition over sg721-metadata-onchain never mints; tokens can only be minted by the minter address directly
        for (id, o, ext) in [(13u64, 20u64, 3u64), (14, 20, 0), (15, 21, 1), (16, 22, 2)] {
            step(ses, sut, &format!("x_mint s={m} funds=- id={id} owner={o} uri={id} ext={ext}"));
        }
    }
    step(ses, sut, &format!("x_mint s={STRANGER} funds=- id=40 owner=30 uri=1 ext=0"));
    step(ses, sut, &format!("x_mint s={a} funds=- id=40 owner=10 uri=1 ext=0"));
    queries(ses, sut);
    let Some((tid, town)) = sut.last.toks.first().cloned() else {
        eprintln!("COLLTOUR-UNEXPECTED {kind}: no token");
        ses.end_case();
        return;
    };
    let hh = sut.last.height;
    let tt = sut.last.now;
    // ---- approvals, operators, transfers, sends (sg721-nt has none of these messages: all refused)
    step(ses, sut, &format!("x_approve s={town} funds=- sp=22 id={tid} exp=h{}", hh + 2));
    step(ses, sut, &format!("x_approve s={town} funds=- sp=23 id={tid} exp=t{}", tt + 5));
    step(ses, sut, &format!("x_approve s={STRANGER} funds=- sp=30 id={tid} exp=-"));
    step(ses, sut, &format!("x_approve s={town} funds=- sp=901 id={tid} exp=-"));
    step(ses, sut, &format!("x_approve_all s={town} funds=- op=30 exp=t{}", tt + 10));
    step(ses, sut, &format!("x_approve_all s={town} funds=0:1 op=21 exp=-"));
    step(ses, sut, &format!("x_approve_all s={town} funds=- op=22 exp=h{hh}"));
    queries(ses, sut);
    step(ses, sut, &format!("blk h={} t={}", hh + 1, tt - 1));
    step(ses, sut, &format!("blk h={hh} t={}", tt + 5));
    queries(ses, sut);
    step(ses, sut, &format!("x_revoke s={town} funds=- sp=23 id={tid}"));
    step(ses, sut, &format!("x_revoke s={STRANGER} funds=- sp=22 id={tid}"));
    step(ses, sut, &format!("x_revoke s={PAYEE} funds=- sp=22 id={tid}"));
    step(ses, sut, &format!("x_revoke s={town} funds=- sp=22 id=999"));
    step(ses, sut, &format!("x_transfer s=23 funds=- to=21 id={tid}"));
    step(ses, sut, &format!("x_transfer s=22 funds=- to=900 id={tid}"));
    step(ses, sut, &format!("x_transfer s=22 funds=- to=21 id={tid}"));
    step(ses, sut, &format!("c_transfer sender=21 id={tid} to=21"));
    step(ses, sut, &format!("x_send s=21 funds=- to={STUB} id={tid} payload=0"));
    step(ses, sut, &format!("x_send s=21 funds=- to=22 id={tid} payload=1"));
    step(ses, sut, &format!("x_send s=21 funds=- to={m} id={tid} payload=1"));
    step(ses, sut, &format!("x_send s=21 funds=- to={STUB} id={tid} payload=1"));
    step(ses, sut, &format!("x_transfer s={STUB} funds=0:0 to=20 id={tid}"));
    step(ses, sut, &format!("x_transfer s={STUB} funds=- to=20 id={tid}"));
    step(ses, sut, &format!("x_revoke_all s={town} funds=- op=30"));
    step(ses, sut, &format!("x_revoke_all s={town} funds=- op=902"));
    step(ses, sut, &format!("x_extension s={town} funds=-"));
    for u in sut.sf.unknown.get(kind).cloned().unwrap_or_default() {
        step(ses, sut, &format!("x_raw s={town} funds=- v={u}"));
    }
    // ---- a holder burns; the next mint takes a NEW id (`TOKEN_INDEX + 1`): a burned id never comes back through the minter
    let (bid, bown) = sut.last.toks.first().cloned().unwrap_or((tid, town));
    step(ses, sut, &format!("x_burn s={STRANGER} funds=- id={bid}"));
    if step(ses, sut, &format!("x_burn s={bown} funds=- id={bid}")) {
        let before = sut.last.idx;
        if parses && step(ses, sut, &format!("mint_to sender={a} funds=0:5000000 rcpt=20")) && sut.last.idx == before + 1 && !sut.last.toks.iter().any(|t| t.0 == bid) {
            ses.mark(format!("remint/{kind}/burned-id-stays-gone"));
        }
        // only the minter ADDRESS could put it back (no minter message does that)
        if step(ses, sut, &format!("x_mint s={m} funds=- id={bid} owner=20 uri=3 ext=1")) {
            ses.mark(format!("remint/{kind}/direct/ok"));
        }
    }
    // ---- the NEXT id is claimed directly by the minter address: every mint is refused BY THE COLLECTION (`Claimed`; the index is
    // not advanced by a failed transaction) until that token is burned
    if parses {
        let x = sut.last.idx + 1;
        if step(ses, sut, &format!("x_mint s={m} funds=- id={x} owner=21 uri=4 ext=0")) {
            let r1 = step(ses, sut, &format!("mint_to sender={a} funds=0:5000000 rcpt=22"));
            let r2 = step(ses, sut, "mint sender=22 funds=0:100000000 stage=- alloc=- proof=-");
            if !r1 && !r2 {
                ses.mark(format!("mintrefused/{kind}/claimed"));
            }
            step(ses, sut, &format!("c_burn sender=21 id={x}"));
            if step(ses, sut, &format!("mint_to sender={a} funds=0:5000000 rcpt=22")) {
                ses.mark(format!("remint/{kind}/after-burn/ok"));
            }
        }
    }
    // ---- the creator: collection info, royalty cadence (24 h), hand-over of the creator role (the minter's admin stays)
    step(ses, sut, &format!("x_uci s={a} funds=- desc=2:40 image=1 ext=11 ec=1 roy=- creator=-"));
    step(ses, sut, &format!("x_uci s={a} funds=- desc=2:513 image=- ext=- ec=- roy=- creator=-"));
    step(ses, sut, &format!("x_uci s={a} funds=- desc=- image=2 ext=- ec=- roy=- creator=-"));
    step(ses, sut, &format!("x_uci s={STRANGER} funds=- desc=3:10 image=- ext=- ec=- roy=- creator=30"));
    step(ses, sut, &format!("x_uci s={a} funds=- desc=- image=- ext=- ec=- roy=41:{} creator=-", 6 * p16));
    let rua = sut.last.c.as_ref().map(|o| o.rua).unwrap_or(now);
    let hh = sut.last.height;
    step(ses, sut, &format!("blk h={} t={}", hh + 1, rua + DAY_NS - 1));
    step(ses, sut, &format!("x_uci s={a} funds=- desc=- image=- ext=- ec=- roy=41:{} creator=-", 6 * p16));
    step(ses, sut, &format!("blk h={} t={}", hh + 2, rua + DAY_NS));
    step(ses, sut, &format!("x_uci s={a} funds=- desc=- image=- ext=- ec=- roy=41:{} creator=-", 7 * p16 + 1));
    step(ses, sut, &format!("x_uci s={a} funds=- desc=- image=- ext=- ec=- roy=901:{} creator=-", 6 * p16));
    step(ses, sut, &format!("x_uci s={a} funds=0:5 desc=- image=- ext=- ec=- roy=41:{} creator=11", 7 * p16));
    step(ses, sut, &format!("x_uci s={a} funds=- desc=4:20 image=- ext=- ec=- roy=- creator=-"));
    step(ses, sut, &format!("x_uci s=11 funds=- desc=4:20 image=- ext=- ec=- roy=41:{} creator=-", 6 * p16));
    step(ses, sut, &format!("c_creator sender=11 new=11"));
    step(ses, sut, "q_payout pay=1000 fee=10 fin=5");
    step(ses, sut, "q_payout pay=1000 fee=931 fin=-");
    let nowt = sut.last.now;
    step(ses, sut, &format!("upd_trading sender=11 funds=- t={}", nowt + 9));
    step(ses, sut, &format!("upd_trading sender={a} funds=- t={}", nowt + 9));
    // ---- hand-over of the collection's ownership (= who may mint): only the current owner can start it
    let hh = sut.last.height;
    step(ses, sut, &format!("x_own_transfer s={STRANGER} funds=- to=30 exp=-"));
    step(ses, sut, &format!("x_own_transfer s=11 funds=- to=30 exp=-"));
    step(ses, sut, &format!("x_own_accept s={STRANGER} funds=-"));
    step(ses, sut, &format!("x_own_renounce s={STRANGER} funds=-"));
    step(ses, sut, &format!("x_own_transfer s={m} funds=- to=901 exp=-"));
    if step(ses, sut, &format!("x_own_transfer s={m} funds=- to=30 exp=h{}", hh + 3)) {
        step(ses, sut, "q_ownership");
        step(ses, sut, &format!("x_own_accept s=21 funds=-"));
        // still the minter's: a mint is accepted while the hand-over is only pending
        step(ses, sut, &format!("mint_to sender={a} funds=0:5000000 rcpt=23"));
        if step(ses, sut, &format!("x_own_accept s=30 funds=-")) {
            // every sub-message of the minter is now refused by the collection: the whole transaction fails
            let r1 = step(ses, sut, "mint sender=22 funds=0:100000000 stage=- alloc=- proof=-");
            let r2 = step(ses, sut, &format!("mint_to sender={a} funds=0:5000000 rcpt=23"));
            let r3 = false;
            let r4 = step(ses, sut, &format!("upd_trading sender={a} funds=- t={}", nowt + 11));
            if !r1 && !r2 && !r3 && (!r4 || kind == "nt") {
                ses.mark(format!("mintrefused/{kind}/handed-over"));
            }
            step(ses, sut, &format!("x_mint s={m} funds=- id=41 owner=20 uri=1 ext=0"));
            step(ses, sut, &format!("x_mint s=30 funds=- id=41 owner=20 uri=1 ext=1"));
            step(ses, sut, &format!("x_ustt s=30 funds=- t={}", nowt + 12));
            step(ses, sut, &format!("x_own_transfer s=30 funds=- to={m} exp=h{}", hh));
            step(ses, sut, &format!("x_own_accept s={m} funds=-"));
            step(ses, sut, &format!("x_own_transfer s=30 funds=- to={m} exp=-"));
            step(ses, sut, &format!("c_own sender={m} act=accept new=0"));
            if step(ses, sut, &format!("mint_to sender={a} funds=0:5000000 rcpt=23")) {
                ses.mark(format!("handback/{kind}/mint/ok"));
            }
        }
    }
    queries(ses, sut);
    // ---- sg721-updatable messages (on an sg721-updatable collection `EnableUpdatable` is on from the start)
    let fee = enable_fee(sut);
    let cr = sut.last.creator;
    let t1 = sut.last.toks.first().map(|t| t.0).unwrap_or(1);
    step(ses, sut, &format!("x_utm s={cr} funds=- id={t1} uri=31"));
    step(ses, sut, &format!("x_utm s={cr} funds=- id=99 uri=31"));
    step(ses, sut, &format!("x_utm s=20 funds=- id={t1} uri=32"));
    step(ses, sut, &format!("x_utm s={cr} funds=0:1 id={t1} uri=33"));
    step(ses, sut, &format!("x_enable s={cr} funds=0:{fee}"));
    if migrate {
        // base -> updatable: same tokens, same ownership, the two flags start false, `UpdateOwnership` is gone
        step(ses, sut, "x_migrate_self");
        if step(ses, sut, "x_migrate_upd") {
            step(ses, sut, "x_migrate_upd");
            step(ses, sut, "q_upd");
            step(ses, sut, &format!("mint_to sender={a} funds=0:5000000 rcpt=23"));
            step(ses, sut, &format!("x_own_transfer s={m} funds=- to=30 exp=-"));
            step(ses, sut, &format!("x_utm s={cr} funds=- id={t1} uri=31"));
            step(ses, sut, &format!("x_enable s=20 funds=0:{fee}"));
            step(ses, sut, &format!("x_enable s={cr} funds=0:{}", fee - 1));
            step(ses, sut, &format!("x_enable s={cr} funds=1:{fee}"));
            step(ses, sut, &format!("x_enable s={cr} funds=-"));
            step(ses, sut, &format!("x_enable s={cr} funds=0:{fee},1:1"));
            step(ses, sut, &format!("x_enable s={cr} funds=0:{}", fee + 1));
            step(ses, sut, &format!("x_enable s={cr} funds=0:{fee}"));
        }
    }
    step(ses, sut, &format!("x_utm s={cr} funds=- id={t1} uri=31"));
    step(ses, sut, &format!("x_utm s={cr} funds=- id={t1} uri=-"));
    step(ses, sut, &format!("x_freeze_meta s=20 funds=-"));
    step(ses, sut, &format!("x_freeze_meta s={cr} funds=0:1"));
    step(ses, sut, &format!("x_freeze_meta s={cr} funds=-"));
    step(ses, sut, &format!("x_utm s={cr} funds=- id={t1} uri=34"));
    step(ses, sut, "q_upd");
    // ---- migrations of the collection and the stored version ("deployed by an older release")
    step(ses, sut, "x_migrate_self");
    if !migrate {
        step(ses, sut, "x_setver v=3.15.0");
        step(ses, sut, "x_migrate_self");
        step(ses, sut, "x_setver v=3.0.5");
        if kind != "base" {
            step(ses, sut, "x_migrate_upd");
        }
        step(ses, sut, "x_migrate_self");
        step(ses, sut, "x_setver v=2.9.9");
        if kind != "base" {
            step(ses, sut, "x_migrate_upd");
        }
        step(ses, sut, "x_migrate_self");
        step(ses, sut, "x_setver v=99.0.0");
        step(ses, sut, "x_migrate_self");
    } else {
        step(ses, sut, "x_setver v=3.0.5");
        step(ses, sut, "x_migrate_upd");
        step(ses, sut, "x_migrate_self");
    }
    step(ses, sut, &format!("mint_to sender={a} funds=0:5000000 rcpt=23"));
    // ---- freeze: creator only, final
    step(ses, sut, &format!("x_freeze s={STRANGER} funds=-"));
    step(ses, sut, &format!("x_freeze s={cr} funds=-"));
    step(ses, sut, &format!("c_freeze sender={cr}"));
    step(ses, sut, &format!("x_uci s={cr} funds=- desc=5:10 image=- ext=- ec=- roy=- creator=-"));
    step(ses, sut, &format!("c_creator sender={cr} new=10"));
    // ---- renounce: nobody can mint any more
    step(ses, sut, &format!("x_own_renounce s=20 funds=-"));
    if has(sut, "own_renounce") && step(ses, sut, &format!("x_own_renounce s={m} funds=-")) {
        let r = step(ses, sut, &format!("mint_to sender={a} funds=0:5000000 rcpt=23"));
        if !r {
            ses.mark(format!("mintrefused/{kind}/renounced"));
        }
        step(ses, sut, &format!("x_mint s={m} funds=- id=42 owner=20 uri=1 ext=0"));
    }
    let (b2, o2) = sut.last.toks.last().cloned().unwrap_or((1, 20));
    step(ses, sut, &format!("c_burn sender={o2} id={b2}"));
    queries(ses, sut);
    step(ses, sut, &format!("burn sender={a} funds=-"));
    step(ses, sut, &format!("purge sender={STRANGER} funds=-"));
    ses.end_case();
    ses.mark(format!("colltour/{kind}/v{v}/oc{}/m{}", onchain as u8, migrate as u8));
}

fn matrix_case(ses: &mut Session, sut: &mut S, g: &mut G, v: usize, onchain: bool, ck: usize) {
    let now = GENESIS + 3_000_000 + (100 * v + 10 * ck) as u64;
    let s = now + 100;
    let h = Hdr::std(now, g.mc[v], &g.cc);
    ses.begin_case(sut, &h.line(g, &format!("matrix v={v} onchain={} ck={ck}", onchain as u8)));
    fund_std(ses, sut);
    let c = CreateSpec { onchain, ..CreateSpec::basic(g.cc[ck], s, Some(s + 1000), if ck % 2 == 0 { Some(4) } else { None }, None) };
    step(ses, sut, &c.line());
    step(ses, sut, &format!("t now={s}"));
    step(ses, sut, "mint sender=20 funds=0:100000000 stage=- alloc=- proof=-");
    step(ses, sut, &format!("mint_to sender={ADMIN} funds=0:5000000 rcpt=21"));
    if let Some((id, o)) = sut.last.toks.first().cloned() {
        step(ses, sut, &format!("c_transfer sender={o} id={id} to=22"));
        step(ses, sut, &format!("c_burn sender={o} id={id}"));
        step(ses, sut, "c_burn sender=22 id=1");
    }
    step(ses, sut, "mint sender=20 funds=0:100000000 stage=- alloc=- proof=-");
    ses.end_case();
}

/// deterministic single-topic scenarios
fn special_case(ses: &mut Session, sut: &mut S, g: &mut G, v: usize, k: usize) {
    let now = GENESIS + 4_000_000 + (100 * v + 10 * k) as u64;
    let s = now + 2000;
    let e = s + 3000;
    let mut h = Hdr::std(now, g.mc[v], &g.cc);
    let mint20 = |p: u128| format!("mint sender=20 funds={} stage=- alloc=- proof=-", funds_str(Some((0, p))));
    let airdrop = |p: (u64, u128)| format!("mint_to sender={ADMIN} funds={} rcpt=22", funds_str(Some(p)));
    match k {
        0 => {
            // uncapped edition + whitelist: -wl-flex also applies the minter's own per-address limit to whitelist mints
            ses.begin_case(sut, &h.line(g, &format!("special v={v} k=uncapped-wl-limit")));
            fund_std(ses, sut);
            let wk = [WlKind::Plain, WlKind::Flex, WlKind::Merkle][v];
            let st = format!("{}:{}:60000000:{}:x", s - 1000, s - 100, if v == 1 { 0 } else { 3 });
            let (mem, lv) = if v == 2 { ("-".to_string(), "x:20:3,x:21:x".to_string()) } else { ("20:3,21:1".to_string(), "-".to_string()) };
            step(ses, sut, &format!("wl kind={} denom=0 st={st} mem={mem} lv={lv}", wl_kind_idx(wk)));
            let c = CreateSpec { limit: 1, wl: Some(1002), ..CreateSpec::basic(g.cc[0], s, Some(e), None, None) };
            expect_ok(ses, sut, &c.line());
            expect_ok(ses, sut, &format!("t now={}", s - 1000));
            let m = if v == 2 { "mint sender=20 funds=0:60000000 stage=- alloc=3 proof=p.1002.0.x.20.3".to_string() } else { mint20(60_000_000) };
            expect_ok(ses, sut, &m);
            let second = step(ses, sut, &m);
            mk(ses, format!("special/uncapped-wl-limit/v{v}/second-{}", if second { "ok" } else { "err" }));
            expect_ok(ses, sut, &format!("upd_limit sender={ADMIN} funds=- n=2"));
            step(ses, sut, &m);
            step(ses, sut, &m);
            step(ses, sut, &m);
            expect_ok(ses, sut, &format!("t now={s}"));
            step(ses, sut, &mint20(100_000_000));
        }
        1 => {
            // proof hashes are mandatory for the Merkle minter while the whitelist is active (whatever the whitelist kind)
            ses.begin_case(sut, &h.line(g, &format!("special v={v} k=proof")));
            fund_std(ses, sut);
            step(ses, sut, &format!("wl kind=4 denom=0 st={}:{}:60000000:2:x mem=- lv=x:20:x,x:21:x", s - 1000, s - 100));
            step(ses, sut, &format!("wl kind=0 denom=0 st={}:{}:60000000:2:x mem=20:0,21:0 lv=-", s - 1000, s - 100));
            step(ses, sut, &format!("wl kind=1 denom=0 st={}:{}:60000000:0:x mem=20:2,21:1 lv=-", s - 1000, s - 100));
            let wl = [1003u64, 1004, 1002][v];
            let c = CreateSpec { wl: Some(wl), ..CreateSpec::basic(g.cc[0], s, Some(e), Some(5), None) };
            expect_ok(ses, sut, &c.line());
            // cross attachments: what each minter's `Config` dialect accepts
            for other in [1002u64, 1003, 1004] {
                step(ses, sut, &format!("set_wl sender={ADMIN} funds=- wl={other} valid=1"));
            }
            step(ses, sut, &format!("set_wl sender={ADMIN} funds=- wl={wl} valid=1"));
            expect_ok(ses, sut, &format!("t now={}", s - 1000));
            step(ses, sut, &mint20(60_000_000));
            step(ses, sut, "mint sender=20 funds=0:60000000 stage=- alloc=- proof=e");
            step(ses, sut, "mint sender=20 funds=0:60000000 stage=- alloc=- proof=p.1002.0.x.20.x");
            step(ses, sut, "mint sender=21 funds=0:60000000 stage=- alloc=- proof=p.1002.0.x.20.x");
            expect_ok(ses, sut, &format!("t now={}", s - 100));
            step(ses, sut, &mint20(100_000_000)); // nothing is active and the sale has not started
            expect_ok(ses, sut, &format!("t now={s}"));
            expect_ok(ses, sut, &mint20(100_000_000));
        }
        2 => {
            // an invalid developer address only matters when the fee is non-zero
            h.dev = None;
            h.feebps = 0;
            h.airbps = 0;
            ses.begin_case(sut, &h.line(g, &format!("special v={v} k=dev")));
            fund_std(ses, sut);
            expect_ok(ses, sut, &CreateSpec::basic(g.cc[0], s, Some(e), Some(9), None).line());
            expect_ok(ses, sut, &format!("t now={s}"));
            expect_ok(ses, sut, &mint20(100_000_000));
            expect_ok(ses, sut, &airdrop((0, 5_000_000)));
            expect_ok(ses, sut, "sudo_params feebps=1");
            step(ses, sut, &mint20(100_000_000)); // fee 10 000: the address is validated now
            expect_ok(ses, sut, "sudo_params feebps=0 airbps=1");
            expect_ok(ses, sut, &mint20(100_000_000));
            step(ses, sut, &airdrop((0, 5_000_000)));
            expect_ok(ses, sut, "sudo_params dev=30 feebps=1000");
            expect_ok(ses, sut, &airdrop((0, 5_000_000)));
            step(ses, sut, "mint sender=21 funds=0:100000000 stage=- alloc=- proof=-");
            expect_ok(ses, sut, "sudo_params dev=x feebps=0 airbps=0 airp=0:1");
            expect_ok(ses, sut, &airdrop((0, 1)));
            // price 1, 50 %: the fee rounds to zero -> no fee message, no validation
            expect_ok(ses, sut, "sudo_params airbps=5000");
            expect_ok(ses, sut, &airdrop((0, 1)));
        }
        3 => {
            // fee bps above 100 %: `checked_sub` fails
            h.feebps = 10_001;
            h.airbps = 20_000;
            ses.begin_case(sut, &h.line(g, &format!("special v={v} k=bps")));
            fund_std(ses, sut);
            expect_ok(ses, sut, &CreateSpec::basic(g.cc[0], s, Some(e), Some(9), None).line());
            expect_ok(ses, sut, &format!("t now={s}"));
            step(ses, sut, &mint20(100_000_000));
            step(ses, sut, &airdrop((0, 5_000_000)));
            expect_ok(ses, sut, "sudo_params feebps=10000 airbps=10000");
            expect_ok(ses, sut, &mint20(100_000_000));
            expect_ok(ses, sut, &airdrop((0, 5_000_000)));
            expect_ok(ses, sut, "sudo_params feebps=9999 airbps=1");
            expect_ok(ses, sut, &mint20(100_000_000));
            expect_ok(ses, sut, &airdrop((0, 5_000_000)));
            // fee 1: the 50 % / 20 % / rest split has zero parts -> the bank refuses the empty send
            expect_ok(ses, sut, "sudo_params airp=0:3 airbps=5000");
            step(ses, sut, &airdrop((0, 3)));
            expect_ok(ses, sut, "sudo_params airp=0:40 airbps=5000");
            step(ses, sut, &airdrop((0, 40)));
        }
        4 => {
            // creation fee and prices in the second denom
            h.cfee = (1, 1000);
            h.minp = (1, 700);
            h.airp = (1, 90);
            ses.begin_case(sut, &h.line(g, &format!("special v={v} k=denom1")));
            fund_std(ses, sut);
            for b in [ADMIN, 20, 21] {
                step(ses, sut, &format!("fund a={b} d=1 amt=100000000"));
            }
            let c = CreateSpec { funds: "1:1000".into(), price: (1, 1000), ..CreateSpec::basic(g.cc[1], s, Some(e), None, None) };
            step(ses, sut, &CreateSpec { funds: "0:1000".into(), ..c.clone() }.line());
            step(ses, sut, &CreateSpec { funds: "1:1001".into(), ..c.clone() }.line());
            step(ses, sut, &CreateSpec { funds: "1:999".into(), ..c.clone() }.line());
            step(ses, sut, &CreateSpec { price: (0, 1000), ..c.clone() }.line());
            expect_ok(ses, sut, &c.line());
            expect_ok(ses, sut, &format!("t now={s}"));
            step(ses, sut, &mint20(1000));
            expect_ok(ses, sut, "mint sender=20 funds=1:1000 stage=- alloc=- proof=-");
            step(ses, sut, &airdrop((0, 90)));
            expect_ok(ses, sut, &airdrop((1, 90)));
            expect_ok(ses, sut, "sudo_params airp=0:77");
            expect_ok(ses, sut, &airdrop((0, 77)));
            step(ses, sut, "sudo_params minp=1:5");
        }
        5 => {
            // airdrop price zero: no uncapped edition may be created, an existing one refuses `MintTo`
            h.airp = (0, 0);
            ses.begin_case(sut, &h.line(g, &format!("special v={v} k=airdrop0")));
            fund_std(ses, sut);
            let unc = CreateSpec::basic(g.cc[0], s, Some(e), None, None);
            step(ses, sut, &unc.line());
            if v == 0 {
                expect_ok(ses, sut, &CreateSpec::basic(g.cc[0], s, Some(e), Some(5), None).line());
                expect_ok(ses, sut, &format!("t now={s}"));
                expect_ok(ses, sut, &airdrop((0, 0)));
                step(ses, sut, &airdrop((0, 1)));
            } else {
                expect_ok(ses, sut, "sudo_params airp=0:10");
                expect_ok(ses, sut, &unc.line());
                expect_ok(ses, sut, &format!("t now={s}"));
                expect_ok(ses, sut, &airdrop((0, 10)));
                expect_ok(ses, sut, "sudo_params airp=0:0");
                step(ses, sut, &airdrop((0, 0)));
                step(ses, sut, &airdrop((0, 1)));
                expect_ok(ses, sut, &mint20(100_000_000));
                expect_ok(ses, sut, "sudo_params airp=1:0");
                step(ses, sut, &airdrop((0, 0)));
            }
        }
        6 => {
            // price zero: allowed for a capped edition only
            h.minp = (0, 0);
            ses.begin_case(sut, &h.line(g, &format!("special v={v} k=price0")));
            fund_std(ses, sut);
            let capped = v != 1;
            let c = CreateSpec { price: (0, 0), ..CreateSpec::basic(g.cc[0], s, Some(e), if capped { Some(5) } else { None }, None) };
            let ok = step(ses, sut, &c.line());
            mk(ses, format!("special/price0/create/{}/{}", if capped { "capped" } else { "uncapped" }, if ok { "ok" } else { "err" }));
            if !ok {
                expect_ok(ses, sut, &CreateSpec { price: (0, 1), ..c.clone() }.line());
            }
            step(ses, sut, &format!("upd_price sender={ADMIN} funds=- price=2"));
            step(ses, sut, &format!("upd_price sender={ADMIN} funds=- price=0"));
            expect_ok(ses, sut, &format!("t now={s}"));
            let p = sut.last.price.1;
            step(ses, sut, &mint20(p));
            step(ses, sut, &format!("upd_price sender={ADMIN} funds=- price=0"));
            let p = sut.last.price.1;
            step(ses, sut, &mint20(p));
            step(ses, sut, &mint20(1));
        }
        _ => {
            // the collection changes hands: later mints fail; renounced ownership is final
            ses.begin_case(sut, &h.line(g, &format!("special v={v} k=ownership")));
            fund_std(ses, sut);
            expect_ok(ses, sut, &CreateSpec::basic(g.cc[0], s, None, Some(7), None).line());
            expect_ok(ses, sut, &format!("t now={s}"));
            expect_ok(ses, sut, &mint20(100_000_000));
            let m = sut.last.maddr;
            expect_ok(ses, sut, &format!("c_own sender={m} act=transfer new=30"));
            expect_ok(ses, sut, &mint20(100_000_000)); // pending only
            expect_ok(ses, sut, "c_own sender=30 act=accept new=0");
            step(ses, sut, "mint sender=21 funds=0:100000000 stage=- alloc=- proof=-");
            step(ses, sut, &airdrop((0, 5_000_000)));
            step(ses, sut, &format!("upd_trading sender={ADMIN} funds=- t={}", s + 10));
            if v == 2 {
                expect_ok(ses, sut, "c_own sender=30 act=renounce new=0");
            } else {
                expect_ok(ses, sut, &format!("c_own sender=30 act=transfer new={m}"));
                expect_ok(ses, sut, &format!("c_own sender={m} act=accept new=0"));
            }
            step(ses, sut, "mint sender=21 funds=0:100000000 stage=- alloc=- proof=-");
            step(ses, sut, &format!("burn sender={ADMIN} funds=-"));
            step(ses, sut, "purge sender=30 funds=-");
        }
    }
    ses.end_case();
}

/// exact boundary instants of the clock rules: start ± 1 ns, end ± 1 ns, start + offset ± 1 ns — each visited at −1 / 0 / +1 ns
/// with the messages that read it
fn rules_case(ses: &mut Session, sut: &mut S, g: &mut G, idx: u64) {
    let v = (idx % 3) as usize;
    let now = GENESIS + 2_000_000 + g.rng.below(50_000);
    let s = now + 1000 + g.rng.below(500);
    let e = s + 50 + g.rng.below(400);
    let mut h = Hdr::std(now, g.mc[v], &g.cc);
    h.offset = *g.rng.pick(&[0u64, 1, 3, 60]);
    h.airp = (0, *g.rng.pick(&[1u128, 3_000_000]));
    if g.rng.chance(1, 4) {
        h.maxtok = *g.rng.pick(&[2u64, 4, 6]);
    }
    ses.begin_case(sut, &h.line(g, &format!("rules idx={idx}")));
    fund_all(ses, sut, g, false);
    let capped = g.rng.chance(1, 2);
    let ntok = if capped { Some((4 + g.rng.below(6)).min(h.maxtok)) } else { None };
    let mut c = valid_create(sut, g, s, Some(e), ntok, None);
    c.onchain = false;
    c.code = g.cc[(idx % 2) as usize];
    c.price = (0, 100_000_000);
    step(ses, sut, &c.line());
    let a = ADMIN;
    let bound = s + h.offset * SEC;
    // before the start: price may go up or down, start / end may move, trading time only up to the bound and not into the past
    step(ses, sut, &format!("upd_price sender={a} funds=- price=120000000"));
    step(ses, sut, &format!("upd_trading sender={a} funds=- t={}", bound + 1));
    step(ses, sut, &format!("upd_trading sender={a} funds=- t={bound}"));
    step(ses, sut, &format!("upd_trading sender={a} funds=- t={}", now.saturating_sub(1)));
    step(ses, sut, &format!("upd_trading sender={a} funds=- t={now}"));
    step(ses, sut, &format!("upd_start sender={a} funds=- t={}", e + 1));
    step(ses, sut, &format!("upd_start sender={a} funds=- t={e}"));
    step(ses, sut, &format!("upd_start sender={a} funds=- t={s}"));
    step(ses, sut, &format!("upd_end sender={a} funds=- t={}", s - 1));
    step(ses, sut, &format!("upd_end sender={a} funds=- t={s}"));
    step(ses, sut, &format!("upd_end sender={a} funds=- t={e}"));
    for d in [0u64, 1, 2] {
        let t = s - 1 + d;
        step(ses, sut, &format!("t now={t}"));
        step(ses, sut, &format!("upd_price sender={a} funds=- price=120000000"));
        step(ses, sut, &format!("upd_start sender={a} funds=- t={s}"));
        let b = *g.rng.pick(&BUYERS);
        do_mint(ses, sut, g, b);
        step(ses, sut, &format!("upd_trading sender={a} funds=- t={}", t.max(bound.min(t + 5))));
        step(ses, sut, &format!("upd_end sender={a} funds=- t={t}"));
        step(ses, sut, &format!("upd_end sender={a} funds=- t={e}"));
    }
    step(ses, sut, &format!("upd_price sender={a} funds=- price=119999999"));
    for _ in 0..3 {
        rand_op(ses, sut, g);
    }
    // the end
    let e = sut.last.end.unwrap_or(e);
    for d in [0u64, 1, 2] {
        let t = e - 1 + d;
        if t < sut.last.now {
            continue;
        }
        step(ses, sut, &format!("t now={t}"));
        let b = *g.rng.pick(&BUYERS);
        do_mint(ses, sut, g, b);
        step(ses, sut, &format!("mint_to sender={a} funds={} rcpt=21", funds_str(Some(sut.last.airp))));
        step(ses, sut, &format!("upd_price sender={a} funds=- price={}", sut.last.price.1.saturating_sub(1)));
        if d != 1 || g.rng.chance(1, 2) {
            step(ses, sut, &format!("upd_end sender={a} funds=- t={}", t.max(e)));
        }
        step(ses, sut, &format!("purge sender={STRANGER} funds=-"));
        if d == 2 || g.rng.chance(1, 3) {
            step(ses, sut, &format!("burn sender={a} funds=-"));
        }
    }
    step(ses, sut, &format!("purge sender={STRANGER} funds=-"));
    for _ in 0..4 {
        rand_op(ses, sut, g);
    }
    ses.end_case();
}

// ------------------------------------------------------------------------------------------------ whitelist instantiate faults

fn set_kv(line: &str, key: &str, val: &str) -> String {
    let pre = format!("{key}=");
    line.split_whitespace().map(|w| if w.starts_with(&pre) { format!("{pre}{val}") } else { w.to_string() }).collect::<Vec<_>>().join(" ")
}

/// one single-fault (or boundary) mutation of an otherwise valid `w_inst` line (as compwl.rs `mutate_inst`)
fn mutate_inst_line(g: &mut G, now: u64, line: &str) -> (String, &'static str) {
    let k = kv_u64(line, "v").unwrap_or(0) as usize;
    let fee = kv_pairs(line, "funds").unwrap_or_default().first().map(|x| x.1).unwrap_or(0);
    let limit = kv_u64(line, "limit").unwrap_or(0);
    for _ in 0..20 {
        match g.rng.below(18) {
            0 if fee > 0 => return (set_kv(line, "funds", &format!("0:{}", fee - 1)), "fee-1"),
            1 if fee > 0 => return (set_kv(line, "funds", &format!("0:{}", fee + 1)), "fee+1"),
            2 if fee > 0 => return (set_kv(line, "funds", &format!("1:{fee}")), "fee-denom"),
            3 if fee > 0 => return (set_kv(line, "funds", &format!("0:{fee},1:5")), "fee-two-coins"),
            4 => return (set_kv(line, "funds", "-"), if fee > 0 { "fee-none" } else { "nofunds(valid)" }),
            5 => return (set_kv(line, "funds", "0:0"), "fee-zero-coin"),
            6 => return (set_kv(line, "sender", "31"), if fee > 0 { "sender-poor" } else { "sender-other(valid)" }),
            7 if k != 6 => return (set_kv(line, "admins", &format!("{WLADMIN},{INVALID}")), "admin-invalid"),
            8 if k < 4 => return (set_kv(&set_kv(line, "limit", "0"), "funds", "-"), "limit0"),
            9 if k < 4 => {
                let l2 = limit + 1000;
                return (set_kv(&set_kv(line, "limit", &l2.to_string()), "funds", &format!("0:{}", World::wl_fee(ALL_WL[k], l2 as u32))), "limit+1000(valid)");
            }
            10 if matches!(k, 0 | 1 | 4) => return (set_kv(line, "start", &(now - g.rng.below(2).min(now)).to_string()), "start<=now"),
            11 if matches!(k, 0 | 1 | 4) => {
                let st = kv_u64(line, "start").unwrap_or(1);
                return (set_kv(line, "end", &(st - 1).to_string()), "start>end");
            }
            12 if k == 0 => return (set_kv(line, "pal", *g.rng.pick(&["0", "31"])), "pal-range"),
            13 if matches!(k, 4 | 5) => {
                let roots = kv(line, "roots").unwrap_or("-").to_string();
                if roots.len() < 8 {
                    continue;
                }
                let (bad, tag): (String, &'static str) = match g.rng.below(4) {
                    0 => (roots[2..].to_string(), "root-short"),
                    1 => (format!("{roots}00"), "root-long"),
                    2 => (format!("zz{}", &roots[2..]), "root-nonhex"),
                    _ => (roots.to_uppercase(), "root-upper(valid)"),
                };
                return (set_kv(line, "roots", &bad), tag);
            }
            14 if matches!(k, 4 | 5) => return (set_kv(line, "uriok", "0"), "uri-bad"),
            15 if matches!(k, 2 | 3) => {
                let sm = kv(line, "smembers").unwrap_or("~").to_string();
                return (set_kv(line, "smembers", &format!("{sm}|-")), "lists!=stages");
            }
            16 if matches!(k, 2 | 3 | 5) => {
                let mut st = parse_stages(kv(line, "stages").unwrap_or("-"));
                if st.len() >= 2 {
                    st[1].start = st[0].end.saturating_sub(1);
                    return (set_kv(line, "stages", &render_stages(&st)), "overlap");
                } else if let Some(s0) = st.first_mut() {
                    s0.start = now;
                    return (set_kv(line, "stages", &render_stages(&st)), "first-not-future");
                }
            }
            17 if k == 1 || k == 3 => return (set_kv(line, "whale", &limit.to_string()), "whale<=limit"),
            _ => {}
        }
    }
    (line.to_string(), "unmutated(valid)")
}

/// sends a (possibly faulty) copy of the `w_inst` line a whitelist description stands for
fn faulty_inst(ses: &mut Session, sut: &mut S, g: &mut G, spec: &str) {
    let base = inst_from_spec(sut, spec);
    let now = sut.last.now;
    let (line, tag) = mutate_inst_line(g, now, &base);
    // the plan stays valid for mutations that keep the schedule / members / roots
    if !tag.ends_with("(valid)") {
        sut.pending = None;
    }
    let keep = sut.pending.take();
    let pre = sut.last.clone();
    sut.pending = keep;
    let out = ses.step(sut, &line);
    sut.pending = None;
    classify(ses, sut, &pre, &line, &out);
    ses.mark(format!("w_inst-fault/{tag}/{}", &out[..out.len().min(3)].trim()));
    ses.count(&format!("w_inst-fault:{tag}:{}", out.split_whitespace().next().unwrap_or("?")));
}

// ------------------------------------------------------------------------------------------------ (minter flavour, whitelist kind) pair tours

/// the level-2 pairings (docs/C03.md): whitelist mints work
fn level2(v: usize) -> Vec<WlKind> {
    match v {
        1 => vec![WlKind::Flex, WlKind::TieredFlex],
        2 => vec![WlKind::Merkle, WlKind::TieredMerkle],
        _ => vec![WlKind::Plain, WlKind::Tiered],
    }
}

/// the mint line of `buyer` through whitelist `k`, stage index `si`, using the leaf of `leaf_of` (Merkle kinds; the buyer's own
/// leaf when `leaf_of == buyer`)
fn wl_mint_line(sut: &S, k: u64, si: usize, buyer: u64, leaf_of: u64, funds: &str) -> String {
    let Some(info) = sut.wls.get(&k) else { return format!("mint sender={buyer} funds={funds} stage=- alloc=- proof=-") };
    if !is_merkle(info.kind) || sut.last.v != 2 {
        return format!("mint sender={buyer} funds={funds} stage=- alloc=- proof=-");
    }
    match info.stages.get(si).and_then(|s| s.leaves.iter().find(|l| l.1 == leaf_of)) {
        Some(l) => format!("mint sender={buyer} funds={funds} stage={} alloc={} proof=p.{k}.{si}.{}.{}.{}", fmt_opt(&l.0), fmt_opt(&l.2), ox(&l.0), l.1, ox(&l.2)),
        None => format!("mint sender={buyer} funds={funds} stage=- alloc=- proof=j"),
    }
}

/// same-block burst by one buyer: returns (accepted, refused) counts; stops after the first refusal
fn burst(ses: &mut Session, sut: &mut S, k: u64, si: usize, buyer: u64, funds: &str, max: u64) -> (u64, u64) {
    let mut ok = 0;
    for _ in 0..max {
        let l = wl_mint_line(sut, k, si, buyer, buyer, funds);
        if step(ses, sut, &l) {
            ok += 1;
        } else {
            return (ok, 1);
        }
    }
    (ok, 0)
}

/// Deterministic scenario for one (minter flavour `v`, whitelist kind `wk`) level-2 pair: a whitelist mint accepted, a non-member
/// refused, an over-limit mint refused, a whitelist-admin edit between two mints of one block, the stage hand-over crossed at
/// −1 / 0 / +1 ns (tiered: stage 1 → stage 2 with touching windows; single-stage: whitelist → public sale), then the public sale.
/// `big`: the list kinds carry 130 extra members in the first stage (pages beyond 25 / 100).
fn pair_tour(ses: &mut Session, sut: &mut S, g: &mut G, v: usize, wk: WlKind, round: u64) {
    let big = round % 2 == 1;
    let k = wl_kind_idx(wk);
    let tag = format!("pair/v{v}/wl{k}");
    let now = GENESIS + 3_000_000 + 1000 * (v as u64) + 100 * k as u64 + g.rng.below(50);
    let a = now + 2000 + g.rng.below(10);
    let tiered = is_tiered(wk);
    let flex = is_flex(wk);
    let merkle = is_merkle(wk);
    // single-stage: [a, b) then the sale at S = e (the end is shortened from b to e by the admin edit, Merkle kind)
    let b = a + 1000;
    let e = if wk == WlKind::Merkle { a + 500 } else { b };
    let c = b + 1000;
    let s = if tiered { c + 1 } else { e };
    let mut h = Hdr::std(now, g.mc[v], &g.cc);
    if round >= 2 {
        h.feebps = *g.rng.pick(&[0u64, 500, 1000]);
        h.maxper = *g.rng.pick(&[3u64, 5, 50]);
    }
    ses.begin_case(sut, &h.line(g, &format!("pair v={v} wl={k} round={round}")));
    step(ses, sut, &format!("fund a={ADMIN} d=0 amt=1000000000000"));
    step(ses, sut, &format!("fund a={WLADMIN} d=0 amt=100000000000000"));
    for bb in [20u64, 21, 22, 23, STRANGER] {
        step(ses, sut, &format!("fund a={bb} d=0 amt=100000000000"));
    }
    let (p1, p2) = (60_000_000u128, 61_000_000u128);
    let pal1 = if flex { 0 } else { 2 };
    let pal2 = if flex { 0 } else { 1 };
    let extra: String = if big && !merkle { (100..230u64).map(|m| format!(",{m}:{}", if flex { 1 } else { 0 })).collect() } else { String::new() };
    let spec = match wk {
        WlKind::Plain | WlKind::Flex => format!("wl kind={k} denom=0 st={a}:{b}:{p1}:{pal1}:x mem=20:2,21:{}{extra} lv=-", if flex { 3 } else { 0 }),
        WlKind::Tiered | WlKind::TieredFlex => {
            format!("wl kind={k} denom=0 st={a}:{b}:{p1}:{pal1}:x;{b}:{c}:{p2}:{pal2}:{} mem=20:2,21:3{extra};21:1,22:2 lv=-;-", if round % 2 == 0 { "x" } else { "3" })
        }
        WlKind::Merkle => format!("wl kind={k} denom=0 st={a}:{b}:{p1}:2:x mem=- lv=x:20:x,x:21:3,x:9001:x,x:22:1"),
        _ => format!("wl kind={k} denom=0 st={a}:{b}:{p1}:2:x;{b}:{c}:{p2}:1:{} mem=-;- lv=x:20:x,x:21:3,1:9001:7;x:21:x,2:22:2,x:9002:x", if round % 2 == 0 { "x" } else { "3" }),
    };
    // a faulty instantiate first (refused: nothing may change), then the real one
    faulty_inst(ses, sut, g, &spec);
    let wa = 1000 + sut.n_contracts;
    if !step(ses, sut, &spec) {
        eprintln!("PAIR-UNEXPECTED {tag}: whitelist instantiate refused");
        ses.end_case();
        return;
    }
    let ck = [0usize, 1, 2][v];
    // even rounds: an uncapped edition with an end time; odd rounds: a capped one (40) with an end time as well
    let end_t = s + 3000;
    let mut cr = CreateSpec::basic(g.cc[ck], s, Some(end_t), if round % 2 == 0 { None } else { Some(40) }, Some(wa));
    cr.onchain = round % 4 >= 2;
    if !step(ses, sut, &cr.line()) {
        eprintln!("PAIR-UNEXPECTED {tag}: create refused");
        ses.end_case();
        return;
    }
    let f1 = format!("0:{p1}");
    let f2 = format!("0:{p2}");
    // one ns before the window: nobody mints (whitelist idle, sale not started)
    step(ses, sut, &format!("t now={}", a - 1));
    step(ses, sut, &wl_mint_line(sut, wa, 0, 20, 20, &f1));
    // window opens
    step(ses, sut, &format!("t now={a}"));
    // entitlement of 20: 2 (per-address limit / flex mint_count / limit of the Merkle config)
    let (ok20, no20) = burst(ses, sut, wa, 0, 20, &f1, 4);
    if ok20 >= 1 {
        ses.mark(format!("{tag}/accept"));
    }
    if ok20 == 2 && no20 == 1 {
        ses.mark(format!("{tag}/overlimit"));
    }
    // strangers: 23 and 30 are nowhere; with a Merkle whitelist they present somebody else's leaf / junk / nothing
    let mut refused = 0;
    for (who, leaf_of) in [(23u64, 23u64), (STRANGER, 20), (23, 21)] {
        let l = wl_mint_line(sut, wa, 0, who, leaf_of, &f1);
        if !step(ses, sut, &l) {
            refused += 1;
        }
    }
    if merkle && sut.last.v == 2 {
        // a member without a proof, and a member claiming a larger allocation than her leaf carries
        step(ses, sut, &format!("mint sender=21 funds={f1} stage=- alloc=- proof=-"));
        step(ses, sut, &format!("mint sender=21 funds={f1} stage=- alloc=9 proof=p.{wa}.0.x.21.3"));
    }
    if ok20 >= 1 && refused == 3 {
        ses.mark(format!("{tag}/nonmember"));
    }
    // wrong payment by a member
    step(ses, sut, &wl_mint_line(sut, wa, 0, 21, 21, "0:100000000"));
    // the whitelist admin edits between two mints of the same block
    let before = match wk {
        WlKind::Plain | WlKind::TieredMerkle => step(ses, sut, &wl_mint_line(sut, wa, 0, 20, 20, &f1)),
        WlKind::Merkle => step(ses, sut, &wl_mint_line(sut, wa, 0, 21, 21, &f1)),
        _ => step(ses, sut, &wl_mint_line(sut, wa, 0, 23, 23, &f1)),
    };
    let edit = match wk {
        WlKind::Plain => format!("w_upd_pal k={wa} sender={WLADMIN} funds=- n=3"),
        WlKind::Flex => format!("w_add k={wa} sender={WLADMIN} funds=- stage=0 members=23:1"),
        WlKind::Tiered => format!("w_add k={wa} sender={WLADMIN} funds=- stage=0 members=23:0"),
        WlKind::TieredFlex => format!("w_add k={wa} sender={WLADMIN} funds=- stage=0 members=23:1"),
        WlKind::Merkle => format!("w_upd_end k={wa} sender={WLADMIN} funds=- t={e}"),
        _ => format!("w_upd_stage k={wa} sender={WLADMIN} funds=- id=0 name=- start=- end=- price=- pal=3 mcl=-"),
    };
    // a stranger's edit is refused first
    step(ses, sut, &set_kv(&edit, "sender", &STRANGER.to_string()));
    let edit_ok = step(ses, sut, &edit);
    let after = match wk {
        WlKind::Plain | WlKind::TieredMerkle => step(ses, sut, &wl_mint_line(sut, wa, 0, 20, 20, &f1)),
        WlKind::Merkle => step(ses, sut, &wl_mint_line(sut, wa, 0, 21, 21, &f1)),
        _ => step(ses, sut, &wl_mint_line(sut, wa, 0, 23, 23, &f1)),
    };
    if edit_ok && (wk == WlKind::Merkle && before && after || wk != WlKind::Merkle && !before && after) {
        ses.mark(format!("{tag}/edit"));
    }
    if tiered {
        // hand-over: stage 1 = [a, b], stage 2 = [b, c] (closed windows, touching): b belongs to stage 1
        let mut fs_at_b = false;
        let mut ss_after = false;
        for t in [b - 1, b, b + 1] {
            step(ses, sut, &format!("t now={t}"));
            let si = if t <= b { 0 } else { 1 };
            let fnd = if t <= b { &f1 } else { &f2 };
            let tot0 = sut.last.tot;
            let l = wl_mint_line(sut, wa, si, 21, 21, fnd);
            let ok = step(ses, sut, &l);
            if t == b && ok && sut.last.tot[0] == tot0[0] + 1 {
                fs_at_b = true;
            }
            if t == b + 1 {
                let l22 = wl_mint_line(sut, wa, 1, 22, 22, &f2);
                let ok22 = step(ses, sut, &l22);
                if (ok || ok22) && sut.last.tot[1] > tot0[1] {
                    ss_after = true;
                }
                // stage 2: 21 holds one mint, 22 two (mint_count_limit 3 in odd rounds)
                burst(ses, sut, wa, 1, 21, &f2, 2);
                burst(ses, sut, wa, 1, 22, &f2, 3);
                // yesterday's price / yesterday's leaf
                step(ses, sut, &wl_mint_line(sut, wa, 0, 20, 20, &f1));
            }
        }
        if fs_at_b && ss_after {
            ses.mark(format!("{tag}/handover"));
        }
        for t in [c - 1, c, c + 1] {
            step(ses, sut, &format!("t now={t}"));
            step(ses, sut, &wl_mint_line(sut, wa, 1, 22, 22, &f2));
            step(ses, sut, &format!("mint sender=23 funds=0:100000000 stage=- alloc=- proof=-"));
        }
    } else {
        // hand-over: whitelist [a, e) → public sale at S = e
        let mut wl_before = false;
        let mut pub_at = false;
        for t in [e - 1, e, e + 1] {
            step(ses, sut, &format!("t now={t}"));
            let l = wl_mint_line(sut, wa, 0, 21, 21, &f1);
            let ok = step(ses, sut, &l);
            if t == e - 1 && ok {
                wl_before = true;
            }
            let okp = step(ses, sut, &format!("mint sender=22 funds=0:100000000 stage=- alloc=- proof=-"));
            if t == e && okp && !ok {
                pub_at = true;
            }
        }
        if wl_before && pub_at {
            ses.mark(format!("{tag}/handover"));
        }
    }
    // random whitelist-side messages (refused or accepted) — after the hand-over, so that the coverage floor holds for every seed
    for _ in 0..2 {
        do_wl_admin(ses, sut, g);
    }
    // the sale: public limit 2
    burst(ses, sut, wa, 0, 23, "0:100000000", 3);
    // the end of the edition at -1 / 0 / +1 ns: a public mint and an airdrop just before, nothing at or after
    let mut before_ok = false;
    let mut after_err = true;
    for t in [end_t - 1, end_t, end_t + 1] {
        step(ses, sut, &format!("t now={t}"));
        let okp = step(ses, sut, &format!("mint sender={STRANGER} funds=0:100000000 stage=- alloc=- proof=-"));
        let oka = step(ses, sut, &format!("mint_to sender={ADMIN} funds=0:5000000 rcpt=21"));
        if t < end_t {
            before_ok = okp && oka;
        } else if okp || oka {
            after_err = false;
        }
    }
    if before_ok && after_err {
        ses.mark(format!("{tag}/pub-end"));
    }
    for _ in 0..(4 + g.rng.below(6)) {
        rand_op(ses, sut, g);
    }
    ses.end_case();
}

/// The end time INSIDE an open whitelist window (whitelist `[a, a+1000)` resp. stage 1 `[a, a+1000]`, edition `start = a+100`,
/// `end = a+500`): a whitelist mint accepted one ns before the end, every kind of mint (whitelist, airdrop) refused at the end
/// and one ns later although the whitelist is still active; the whitelist admin edits between; `UpdateEndTime` by the minter
/// admin moves the end forward by 200 and the whitelist mint is accepted again until the new end.
fn end_tour(ses: &mut Session, sut: &mut S, g: &mut G, v: usize, wk: WlKind, round: u64) {
    let k = wl_kind_idx(wk);
    let tag = format!("endgate/v{v}/wl{k}");
    let now = GENESIS + 5_000_000 + 1000 * (v as u64) + 100 * k as u64 + g.rng.below(50);
    let a = now + 2000 + g.rng.below(10);
    let b = a + 1000;
    let flex = is_flex(wk);
    let h = Hdr::std(now, g.mc[v], &g.cc);
    ses.begin_case(sut, &h.line(g, &format!("endgate v={v} wl={k} round={round}")));
    step(ses, sut, &format!("fund a={ADMIN} d=0 amt=1000000000000"));
    step(ses, sut, &format!("fund a={WLADMIN} d=0 amt=100000000000000"));
    for bb in [20u64, 21, 22, 23, STRANGER] {
        step(ses, sut, &format!("fund a={bb} d=0 amt=100000000000"));
    }
    let p1 = 60_000_000u128;
    let pal = if flex { 0 } else { 5 };
    let spec = match wk {
        WlKind::Plain | WlKind::Flex => format!("wl kind={k} denom=0 st={a}:{b}:{p1}:{pal}:x mem=20:5,21:5 lv=-"),
        WlKind::Tiered | WlKind::TieredFlex => format!("wl kind={k} denom=0 st={a}:{b}:{p1}:{pal}:x;{}:{}:{p1}:{pal}:x mem=20:5,21:5;21:1 lv=-;-", b + 10, b + 20),
        WlKind::Merkle => format!("wl kind={k} denom=0 st={a}:{b}:{p1}:5:x mem=- lv=x:20:x,x:21:3,x:9001:x"),
        _ => format!("wl kind={k} denom=0 st={a}:{b}:{p1}:5:x;{}:{}:{p1}:1:x mem=-;- lv=x:20:x,x:21:3,1:9001:7;x:21:x,x:9002:x", b + 10, b + 20),
    };
    let wa = 1000 + sut.n_contracts;
    if !step(ses, sut, &spec) {
        eprintln!("ENDGATE-UNEXPECTED {tag}: whitelist instantiate refused");
        ses.end_case();
        return;
    }
    let (s, e) = (a + 100, a + 500);
    let cr = CreateSpec::basic(g.cc[[0usize, 1, 2][v]], s, Some(e), if round % 2 == 0 { None } else { Some(30) }, Some(wa));
    if !step(ses, sut, &cr.line()) {
        eprintln!("ENDGATE-UNEXPECTED {tag}: create refused");
        ses.end_case();
        return;
    }
    let f1 = format!("0:{p1}");
    let mut ok_before = false;
    let mut none_after = true;
    for t in [e - 1, e, e + 1] {
        step(ses, sut, &format!("t now={t}"));
        let l = wl_mint_line(sut, wa, 0, 20, 20, &f1);
        let ok = step(ses, sut, &l);
        let oka = step(ses, sut, &format!("mint_to sender={ADMIN} funds=0:5000000 rcpt=21"));
        if t < e {
            ok_before = ok && oka;
        } else if ok || oka {
            none_after = false;
        }
        if t == e {
            // a whitelist-side edit does not re-open the edition
            let edit = if is_merkle(wk) || wk == WlKind::Plain {
                format!("w_upd_admins k={wa} sender={WLADMIN} funds=- admins={WLADMIN},{ADMIN}")
            } else {
                format!("w_add k={wa} sender={WLADMIN} funds=- stage=0 members=23:{}", if flex { 2 } else { 0 })
            };
            step(ses, sut, &edit);
            let l = wl_mint_line(sut, wa, 0, 21, 21, &f1);
            if step(ses, sut, &l) {
                none_after = false;
            }
        }
    }
    if ok_before && none_after {
        ses.mark(format!("{tag}/closed"));
    }
    // too late to move the end
    step(ses, sut, &format!("upd_end sender={ADMIN} funds=- t={}", e + 300));
    for _ in 0..(2 + g.rng.below(4)) {
        rand_op(ses, sut, g);
    }
    ses.end_case();
}

fn compatible(v: usize) -> Vec<WlKind> {
    match v {
        1 => vec![WlKind::Flex, WlKind::TieredFlex],
        2 => vec![WlKind::Merkle, WlKind::TieredMerkle, WlKind::Merkle, WlKind::TieredMerkle, WlKind::Plain, WlKind::Tiered],
        _ => vec![WlKind::Plain, WlKind::Tiered],
    }
}

fn random_case(ses: &mut Session, sut: &mut S, g: &mut G, idx: u64) {
    let v = (idx % 3) as usize;
    let early = g.rng.chance(1, 60);
    let now = if early { 5 + g.rng.below(1000) } else { GENESIS + 1_000_000 + g.rng.below(100_000) };
    let s = now + 1500 + g.rng.below(2000);
    let mut h = Hdr::std(now, g.mc[v], &g.cc);
    // which code the factory starts with
    let code_mode = g.rng.below(20);
    match code_mode {
        0 | 1 => h.code = g.mc[(v + 1 + g.rng.below(2) as usize) % 3],
        2 => h.code = 9999,
        3 => h.code = *g.rng.pick(&g.non_minter),
        _ => {}
    }
    let second_denom = g.rng.chance(1, 4);
    if g.rng.chance(1, 6) {
        h.minp = *g.rng.pick(&[(0u64, 0u128), (1, 1000), (0, 1), (0, 60_000_500)]);
    }
    if h.minp.0 == 1 || second_denom && g.rng.chance(1, 3) {
        h.minp.0 = 1;
    }
    if g.rng.chance(1, 8) {
        h.cfee = *g.rng.pick(&[(1u64, 1000u128), (0, 2), (0, 1), (0, 0), (0, 3), (1, 0), (1, 1000)]);
    }
    if g.rng.chance(1, 5) {
        h.feebps = *g.rng.pick(&[0u64, 1, 500, 9999, 10_000, 10_001]);
    }
    h.offset = *g.rng.pick(&[0u64, 1, 60, 604_800, 604_800]);
    if g.rng.chance(1, 4) {
        h.maxtok = *g.rng.pick(&[3u64, 5, 12, 150]);
    }
    if g.rng.chance(1, 6) {
        h.maxper = *g.rng.pick(&[1u64, 2, 3, 5]);
    }
    if g.rng.chance(1, 3) {
        h.airp = *g.rng.pick(&[(0u64, 0u128), (0, 0), (0, 1), (0, 7_000_000), (0, 50_000_000), (0, 3), (1, 40)]);
    }
    if g.rng.chance(1, 4) {
        h.airbps = *g.rng.pick(&[0u64, 1, 5000, 10_001]);
    }
    if g.rng.chance(1, 8) {
        h.dev = *g.rng.pick(&[None, None, Some(STRANGER), Some(ADMIN), Some(1)]);
        if h.dev.is_none() && g.rng.chance(1, 2) {
            h.feebps = 0;
        }
    }
    if g.rng.chance(1, 15) {
        h.frozen = true;
    }
    if g.rng.chance(1, 10) {
        h.allowed = match g.rng.below(4) {
            0 => vec![],
            1 => vec![g.cc[0], g.cc[0], g.mc[0]],
            2 => vec![g.cc[1], 9999, g.cc[1], g.cc[2]],
            _ => vec![g.cc[3]],
        };
    }
    let needs_d1 = h.minp.0 == 1 || h.cfee.0 == 1 || h.airp.0 == 1 || second_denom;
    ses.begin_case(sut, &h.line(g, &format!("random idx={idx}")));
    fund_all(ses, sut, g, needs_d1);

    // whitelists
    let nwl = g.rng.below(4);
    let comp = compatible(v);
    for k in 0..nwl {
        let wk = if g.rng.chance(3, 4) { *g.rng.pick(&comp) } else { *g.rng.pick(&ALL_WL) };
        let shape = g.rng.below(8);
        let shift = g.rng.below(40);
        let wins: Vec<(u64, u64)> = windows(shape, s).iter().map(|(a, b)| (a + shift, b + shift)).collect();
        let wd = if g.rng.chance(1, 10) { 1 - h.minp.0 } else { h.minp.0 };
        let bp = if g.rng.chance(3, 4) { h.minp.1 + 10_000_000 } else { *g.rng.pick(&[60_000_000u128, 50_000_000, 49_999_999, 0, 120_000_000]) };
        let l = wl_line(wk, wd, &wins, bp, &mut g.rng, k);
        if g.rng.chance(1, 4) {
            faulty_inst(ses, sut, g, &l);
        }
        step(ses, sut, &l);
    }
    // ops without a minter
    if g.rng.chance(1, 4) {
        for _ in 0..(1 + g.rng.below(3)) {
            rand_op(ses, sut, g);
        }
    }
    if g.rng.chance(1, 3) {
        do_sudo_params(ses, sut, g);
    }
    // the edition: capped / uncapped, with / without an end time
    let shape = g.rng.below(10);
    let end = if shape < 3 { None } else { Some(s + *g.rng.pick(&[1u64, 40, 300, 700, 1500, 2600])) };
    // creation attempts: faults first, then repairs of the factory, then a plainly valid one
    for attempt in 0..5 {
        if sut.last.exists {
            break;
        }
        let l = sut.last.clone();
        let keys: Vec<u64> = sut.wls.keys().cloned().collect();
        let wl = if !keys.is_empty() && g.rng.chance(2, 3) { Some(*g.rng.pick(&keys)) } else { None };
        let ntok = if shape < 3 || shape < 6 { Some((2 + g.rng.below(10)).min(l.maxtok.max(1))) } else { None };
        let mut c = valid_create(sut, g, s, end, ntok, wl);
        if attempt < 2 && g.rng.chance(1, 3) {
            let what = mutate_create(sut, g, &mut c);
            ses.count(&format!("create-mutation:{what}"));
        }
        if attempt >= 3 {
            c.wl = None;
        }
        if step(ses, sut, &c.line()) {
            break;
        }
        // repair what the factory refuses
        let l = sut.last.clone();
        let cur_v = g.mc.iter().position(|c| *c == l.f_code);
        if cur_v.is_none() || (attempt >= 1 && cur_v != Some(v)) {
            step(ses, sut, &format!("sudo_params code={}", g.mc[v]));
        }
        if l.f_frozen {
            step(ses, sut, "sudo_params frozen=0");
        }
        if !l.f_allowed.iter().any(|c| g.cc.contains(c)) {
            step(ses, sut, &format!("sudo_params addc={}", fmt_list(&g.cc)));
        }
        if l.cfee.1 < 2 {
            step(ses, sut, "sudo_params cfee=0:5000000000");
        }
        if attempt >= 1 && l.airp.1 == 0 && ntok.is_none() {
            step(ses, sut, "sudo_params airp=0:4000000");
        }
    }
    // a late switch of the factory's code id must not change what the existing minter is
    if sut.last.exists && g.rng.chance(1, 6) {
        step(ses, sut, &format!("sudo_params code={}", g.mc[(v + 1) % 3]));
    }
    let steps = 14 + g.rng.below(22);
    let sweep = g.rng.chance(1, 4);
    if sweep && sut.last.exists {
        // boundary sweep: t-1, t, t+1 around every instant, in order
        let mut points: Vec<u64> = vec![];
        for t in interesting_instants(sut) {
            points.extend([t.saturating_sub(1), t, t + 1]);
        }
        points.sort();
        points.dedup();
        let mut n = 0;
        for p in points {
            if p < sut.last.now || n > 12 {
                continue;
            }
            n += 1;
            step(ses, sut, &format!("t now={p}"));
            battery(ses, sut, g);
            if g.rng.chance(1, 3) {
                rand_op(ses, sut, g);
            }
        }
    } else {
        for _ in 0..steps {
            rand_op(ses, sut, g);
            if sut.last.exists && phase_of(&sut.last) >= 3 && g.rng.chance(1, 4) {
                break;
            }
        }
    }
    // finale: sell out through airdrops / run past the end, then purge / burn / mint on the closed minter
    if sut.last.exists && g.rng.chance(1, 2) {
        let small = matches!(sut.last.left, Some(n) if n <= 14);
        if small && g.rng.chance(2, 3) {
            let mut guard = 0;
            while sut.last.left != Some(0) && guard < 16 {
                guard += 1;
                let l = sut.last.clone();
                let ok = step(ses, sut, &format!("mint_to sender={} funds={} rcpt={}", l.admin, funds_str(Some(l.airp)), g.rng.pick(&[20u64, 21, 22])));
                if !ok {
                    break;
                }
            }
        } else if let Some(e) = sut.last.end {
            let t = (e + g.rng.below(2)).max(sut.last.now);
            step(ses, sut, &format!("t now={t}"));
            step(ses, sut, &format!("purge sender={STRANGER} funds=-"));
            step(ses, sut, &format!("t now={}", t + 1));
        }
        step(ses, sut, &format!("purge sender={STRANGER} funds=-"));
        let l = sut.last.clone();
        step(ses, sut, &format!("burn sender={} funds=-", l.admin));
        step(ses, sut, &format!("purge sender={STRANGER} funds=-"));
        let b = pick_buyer(sut, g);
        do_mint(ses, sut, g, b);
        step(ses, sut, &format!("mint_to sender={} funds={} rcpt=20", l.admin, funds_str(Some(l.airp))));
    }
    ses.end_case();
}

fn main() {
    let mut ses = Session::new("compsysoe2");
    let mut sut = S::new();
    if ses.maybe_replay(&mut sut) {
        ses.finish(&mut sut);
    }
    let w = World::new(GENESIS);
    let mut g = G {
        rng: ses.rng.fork(),
        mc: w.codes.minters[6..9].to_vec(),
        cc: vec![w.codes.sg721_base, w.codes.sg721_updatable, w.codes.sg721_nt, w.codes.sg721_metadata_onchain],
        non_minter: vec![w.codes.sg721_base, w.codes.open_edition_factory, w.codes.wl[0], w.codes.minters[0]],
    };
    drop(w);
    // coverage floor
    for v in 0..3 {
        for op in ["create", "mint", "mint_to", "set_wl", "purge", "burn", "upd_price", "upd_start", "upd_end", "upd_trading", "upd_limit", "sudo_status"] {
            ses.require(format!("v{v}/{op}/ok/"));
        }
        ses.require(format!("v{v}/inst_direct/err/"));
        ses.require(format!("edition/uncapped/create/ok/v{v}"));
        ses.require(format!("edition/uncapped/mint/ok/v{v}"));
        ses.require(format!("edition/capped/soldout/v{v}"));
        ses.require(format!("edition/onchain/mint/ok/v{v}"));
    }
    for k in 0..6 {
        ses.require(format!("attach/wl{k}/create/ok/"));
        ses.require(format!("attach/wl{k}/set_wl/ok/"));
        ses.require(format!("wlmint-ok/wl{k}/"));
    }
    ses.require("attach/wl6/create/err/");
    ses.require("attach/wl6/set_wl/err/");
    for op in ["c_transfer", "c_burn", "c_trading", "c_creator", "c_freeze"] {
        ses.require(format!("*/{op}/ok/*"));
    }
    for act in ["transfer", "accept"] {
        ses.require(format!("*/{act}*"));
    }
    ses.require("*/sudo_params/ok/*");
    ses.require("*/sudo_params/err/*");
    ses.require("merkle-missing-proof/");
    ses.require("special/uncapped-wl-limit/v1/second-err");

    for v in 0..3 {
        for wk in level2(v) {
            for c in ["accept", "nonmember", "overlimit", "handover", "edit", "pub-end"] {
                ses.require(format!("pair/v{v}/wl{}/{c}", wl_kind_idx(wk)));
            }
            ses.require(format!("endgate/v{v}/wl{}/closed", wl_kind_idx(wk)));
        }
    }
    for k in 0..7 {
        ses.require(format!("w_inst/k{k}/ok"));
    }
    for k in 0..6 {
        ses.require(format!("w_inst/k{k}/err"));
    }
    // ---- system composite 2: every collection kind x every message kind of ITS schema accepted inside a system case, the
    // minter's sub-messages accepted / refused by the collection, burned ids, the directly claimed next id
    let sf = sut.sf.clone();
    for kind in KINDS {
        for op in ALL_OPS {
            let has = sf.has[kind].contains(op);
            let want = if has && op != "extension" { "ok" } else { "err" };
            ses.require(format!("coll/{kind}/{op}/{want}"));
            if has {
                ses.require(format!("coll/{kind}/{op}/err"));
            }
        }
        for u in &sf.unknown[kind] {
            ses.require(format!("coll/{kind}/raw-{u}/"));
        }
        for q in ["q_owner_of", "q_approval", "q_approvals", "q_operators", "q_nft_info", "q_all_nft_info", "q_tokens", "q_all_tokens", "q_payout"] {
            ses.require(format!("q/{kind}/{q}/ok"));
        }
        ses.require(format!("q/{kind}/q_upd/{}", if kind == "updatable" { "ok" } else { "err" }));
        ses.require(format!("q/{kind}/q_ownership/{}", if kind == "updatable" { "err" } else { "ok" }));
        ses.require(format!("coll/{kind}/migrate_self/"));
        ses.require(format!("coll/{kind}/migrate_upd/"));
        ses.require(format!("coll/{kind}/setver/ok"));
        // the minter's sub-messages: on-chain editions are parsed by every collection, off-chain ones not by sg721-metadata-onchain
        ses.require(format!("sub/{kind}/mint/ok/own/oc1"));
        ses.require(format!("sub/{kind}/mint_to/ok/own/oc1"));
        if kind == "onchain" {
            ses.require(format!("sub/{kind}/mint/err/own/oc0"));
            ses.require(format!("sub/{kind}/mint_to/err/own/oc0"));
            ses.require("mintrefused/onchain");
        } else {
            ses.require(format!("sub/{kind}/mint/ok/own/oc0"));
            ses.require(format!("sub/{kind}/mint_to/ok/own/oc0"));
        }
        ses.require(format!("mintrefused/{kind}/claimed"));
        ses.require(format!("remint/{kind}/after-burn/ok"));
        ses.require(format!("remint/{kind}/burned-id-stays-gone"));
        ses.require(format!("remint/{kind}/direct/ok"));
        ses.require(format!("sub/{kind}/upd_trading/{}/own", if kind == "nt" { "err" } else { "ok" }));
        if sf.has[kind].contains("own_transfer") {
            ses.require(format!("mintrefused/{kind}/handed-over"));
            ses.require(format!("handback/{kind}/mint/ok"));
            ses.require(format!("mintrefused/{kind}/renounced"));
            ses.require(format!("sub/{kind}/upd_trading/err/handed"));
        }
    }
    ses.require("coll/base/migrate_upd/ok");
    ses.require("coll/updatable/migrate_upd/ok");
    ses.require("coll/onchain/migrate_self/ok");
    ses.require("coll/updatable/enable/ok");
    ses.require("blk/ok/");
    ses.require("blk/err/");
    for ck in 0..4 {
        coll_tour(&mut ses, &mut sut, &mut g, ck, ck % 3, false, false);
        coll_tour(&mut ses, &mut sut, &mut g, ck, (ck + 1) % 3, true, false);
    }
    coll_tour(&mut ses, &mut sut, &mut g, 0, 2, false, true);
    coll_tour(&mut ses, &mut sut, &mut g, 0, 1, true, true);
    for v in 0..3 {
        for shape in 0..3 {
            tour(&mut ses, &mut sut, &mut g, v, shape);
        }
    }
    let rounds = ses.scale(2, 8);
    for round in 0..rounds {
        for v in 0..3 {
            for wk in level2(v) {
                pair_tour(&mut ses, &mut sut, &mut g, v, wk, round);
                end_tour(&mut ses, &mut sut, &mut g, v, wk, round);
            }
        }
    }
    for v in 0..3 {
        for ck in 0..4 {
            matrix_case(&mut ses, &mut sut, &mut g, v, false, ck);
            matrix_case(&mut ses, &mut sut, &mut g, v, true, ck);
        }
        for k in 0..8 {
            special_case(&mut ses, &mut sut, &mut g, v, k);
        }
    }
    let n = ses.scale(300, 3000);
    for idx in 0..n {
        random_case(&mut ses, &mut sut, &mut g, idx);
        if idx % 20 == 7 {
            rules_case(&mut ses, &mut sut, &mut g, idx / 20);
        }
    }
    ses.note(format!(
        "open-edition system composite 2: 9 variant tours + 10 collection tours (4 collection kinds x off-/on-chain edition, 2 base->updatable migrations) + 24 matrix + 24 special cases + {} pair/end tours + {n} random histories (2 of 7 steps are collection traffic by holders / spenders / operators / creator / strangers / the minter address); every answer carries the complete state of factory, minter, collection (as compcoll) and every whitelist; contract panics caught: {}",
        rounds * 2 * (0..3).map(|v| level2(v).len() as u64).sum::<u64>(),
        sut.panics
    ));
    ses.finish(&mut sut);
}
//GEN-END
