//! C16 — ETH airdrop: only the key holder claims, bound to one wallet, within limits.
//!
//! World-level correspondence: the real `sg-eth-airdrop` (instantiate → reply → real `whitelist-immutable`),
//! a real vending minter + sg721 created through the real vending factory (`lp_harness::minters::World`) whose config
//! points to one of up to two real `sg-whitelist`s (the minter admin can swap them), all under cw-multi-test; against
//! `LP.Airdrop` (Lean). All messages are raw JSON (`serde_json::json!`).
//! Function-level correspondence: `ethereum_verify::{verify_ethereum_text, decode_address, get_recovery_param}`,
//! `str::replace`, `str::contains`, `hex::decode`, Keccak-256, and (round 5) `Api::secp256k1_recover_pubkey` /
//! `Api::secp256k1_verify` / `ethereum_address_raw` against the Lean secp256k1 (`LP.Secp`): line kind `secp`, plus `rc=` on
//! every claim / verify line (the model's verdict with `realCrypto`, from the raw bytes, equals its witnessed verdict).
//!
//! Signatures are produced with `k256` + `sha3`. The per-claim witness handed to the model (digest, recovered
//! public key, verify result) is computed by independent PROTOCOL code: hand-written secp256k1 public-key recovery
//! and verification on `k256`'s group arithmetic (not `deps.api`, not `recover_from_prehash`), own hex decoder. (The curve
//! library underneath is the same one cosmwasm-crypto uses: a bug in its field arithmetic would be invisible.)
//!
//! Monitors judge from what the harness itself did (the list, limit, amount and template it instantiated with, the
//! signatures it made, its own count of successful claims per string and per decoded 20-byte address, the whitelist it
//! attached) and from complete before/after snapshots (whole bank table, all claim counters through the crate's typed
//! `state::ADDRS_TO_MINT_COUNT`, all members of both collection whitelists): exact deltas for a successful claim,
//! no delta at all for a failed claim and for any other message (`exec_raw`: hypothetical and schema-enumerated
//! execute variants, sudo, migrate — on the airdrop contract and on its whitelist-immutable).
use std::collections::{BTreeMap, BTreeSet};

use cosmwasm_std::testing::mock_dependencies;
use cosmwasm_std::{Addr, Order};
use k256::ecdsa::SigningKey;
use k256::elliptic_curve::ops::Reduce;
use k256::elliptic_curve::point::{AffineCoordinates, DecompressPoint};
use k256::elliptic_curve::sec1::ToEncodedPoint;
use k256::elliptic_curve::subtle::Choice;
use k256::elliptic_curve::PrimeField;
use k256::{AffinePoint, FieldBytes, ProjectivePoint, Scalar, U256};
use lp_harness::minters::{self, jcoin, jtime, FactoryKind, MinterKind, WlKind};
use lp_harness::world::addr;
use lp_harness::*;
use serde_json::{json, Map, Value};
use sha3::{Digest, Keccak256};

const NATIVE: &str = "ustars";
const GENESIS: u64 = sg_utils::GENESIS_MINT_START_TIME;
const FEE: u128 = sg_eth_airdrop::contract::INSTANTIATION_FEE;
/// admin of the collection whitelists
const CREATOR: &str = "creator";
/// creator / admin of the minter (`minters::World::default_create`)
const MINTER_ADMIN: u64 = 10;
const INST_SENDER: &str = "acct00900";
const NOW0: u64 = GENESIS + 1_000;
const HOUR: u64 = 3_600_000_000_000;
/// the collection whitelists start one hour and end two hours after the world's first block; the minter starts after a day
const WL_START: u64 = NOW0 + HOUR;
const WL_END: u64 = WL_START + HOUR;
const MINTER_START: u64 = NOW0 + 24 * HOUR;
/// never on any list
const PROBE: &str = "0x1212121212121212121212121212121212121212";

// ------------------------------------------------------------------------------------------------ byte-string tokens

fn hx(b: &[u8]) -> String {
    let mut s = String::with_capacity(1 + 2 * b.len());
    s.push('x');
    for x in b {
        s.push_str(&format!("{:02x}", x));
    }
    s
}
fn hxs(s: &str) -> String {
    hx(s.as_bytes())
}
fn hx_list(v: &[String]) -> String {
    if v.is_empty() {
        "-".into()
    } else {
        v.iter().map(|s| hxs(s)).collect::<Vec<_>>().join(",")
    }
}
/// own hex decoder (independent of the `hex` crate the contract uses)
fn unhex(s: &[u8]) -> Option<Vec<u8>> {
    if s.len() % 2 != 0 {
        return None;
    }
    let val = |c: u8| -> Option<u8> {
        match c {
            b'0'..=b'9' => Some(c - b'0'),
            b'a'..=b'f' => Some(c - b'a' + 10),
            b'A'..=b'F' => Some(c - b'A' + 10),
            _ => None,
        }
    };
    let mut out = Vec::with_capacity(s.len() / 2);
    for p in s.chunks(2) {
        out.push(val(p[0])? * 16 + val(p[1])?);
    }
    Some(out)
}
fn tok_bytes(t: &str) -> Option<Vec<u8>> {
    unhex(t.strip_prefix('x')?.as_bytes())
}
fn tok_str(t: &str) -> Option<String> {
    String::from_utf8(tok_bytes(t)?).ok()
}
fn kv_s(line: &str, key: &str) -> Option<String> {
    tok_str(kv(line, key)?)
}
fn kv_b(line: &str, key: &str) -> Option<Vec<u8>> {
    tok_bytes(kv(line, key)?)
}
fn kv_slist(line: &str, key: &str) -> Option<Vec<String>> {
    let v = kv(line, key)?;
    if v == "-" {
        return Some(vec![]);
    }
    v.split(',').map(tok_str).collect()
}

// ------------------------------------------------------------------------------------------------ independent crypto

fn keccak(data: &[u8]) -> [u8; 32] {
    let mut h = Keccak256::new();
    h.update(data);
    h.finalize().into()
}
fn personal_digest(text: &str) -> [u8; 32] {
    let mut v = Vec::new();
    v.extend_from_slice(b"\x19Ethereum Signed Message:\n");
    v.extend_from_slice(text.len().to_string().as_bytes());
    v.extend_from_slice(text.as_bytes());
    keccak(&v)
}
fn recid_of(v: u8) -> Option<u8> {
    match v {
        0 | 27 => Some(0),
        1 | 28 => Some(1),
        _ => None,
    }
}
/// Q = r⁻¹(s·R − z·G), R = the curve point with x = r and the parity given by `recid` (Ethereum `ecrecover`)
fn recover_manual(digest: &[u8; 32], rs: &[u8], recid: u8) -> Option<Vec<u8>> {
    if rs.len() != 64 || recid > 1 {
        return None;
    }
    let r_bytes = FieldBytes::clone_from_slice(&rs[..32]);
    let s_bytes = FieldBytes::clone_from_slice(&rs[32..]);
    let r = Option::<Scalar>::from(Scalar::from_repr(r_bytes))?;
    let s = Option::<Scalar>::from(Scalar::from_repr(s_bytes))?;
    if bool::from(r.is_zero()) || bool::from(s.is_zero()) {
        return None;
    }
    let z = <Scalar as Reduce<U256>>::reduce_bytes(FieldBytes::from_slice(digest));
    let big_r = Option::<AffinePoint>::from(AffinePoint::decompress(&r_bytes, Choice::from(recid & 1)))?;
    let big_r = ProjectivePoint::from(big_r);
    let r_inv = Option::<Scalar>::from(r.invert())?;
    let q = (big_r * s - ProjectivePoint::GENERATOR * z) * r_inv;
    if q == ProjectivePoint::IDENTITY {
        return None;
    }
    Some(q.to_affine().to_encoded_point(false).as_bytes().to_vec())
}
/// textbook ECDSA verification: x(z/s·G + r/s·Q) mod n = r
fn verify_manual(digest: &[u8; 32], rs: &[u8], pk: &[u8]) -> Option<bool> {
    if rs.len() != 64 {
        return None;
    }
    let r = Option::<Scalar>::from(Scalar::from_repr(FieldBytes::clone_from_slice(&rs[..32])))?;
    let s = Option::<Scalar>::from(Scalar::from_repr(FieldBytes::clone_from_slice(&rs[32..])))?;
    if bool::from(r.is_zero()) || bool::from(s.is_zero()) {
        return None;
    }
    let ep = k256::EncodedPoint::from_bytes(pk).ok()?;
    let q = Option::<AffinePoint>::from(<AffinePoint as k256::elliptic_curve::sec1::FromEncodedPoint<k256::Secp256k1>>::from_encoded_point(&ep))?;
    let z = <Scalar as Reduce<U256>>::reduce_bytes(FieldBytes::from_slice(digest));
    let s_inv = Option::<Scalar>::from(s.invert())?;
    let x = (ProjectivePoint::GENERATOR * (z * s_inv) + ProjectivePoint::from(q) * (r * s_inv)).to_affine();
    if ProjectivePoint::from(x) == ProjectivePoint::IDENTITY {
        return Some(false);
    }
    let xr = <Scalar as Reduce<U256>>::reduce_bytes(&x.x());
    Some(xr == r)
}
fn eth_addr_of_pk(pk: &[u8]) -> Option<[u8; 20]> {
    if pk.len() != 65 || pk[0] != 4 {
        return None;
    }
    let h = keccak(&pk[1..]);
    let mut a = [0u8; 20];
    a.copy_from_slice(&h[12..]);
    Some(a)
}
fn decode_eth_manual(s: &str) -> Option<Vec<u8>> {
    let b = s.as_bytes();
    if b.len() != 42 || b[0] != b'0' || b[1] != b'x' {
        return None;
    }
    unhex(&b[2..])
}

struct Witness {
    h: Option<[u8; 32]>,
    rs: Option<Vec<u8>>,
    rec: Option<u8>,
    pk: Option<Vec<u8>>,
    ver: Option<bool>,
}
impl Witness {
    fn render(&self) -> String {
        let o = |x: Option<String>| x.unwrap_or_else(|| "-".into());
        format!(
            " h={} rs={} rec={} pk={} ver={}",
            o(self.h.map(|h| hx(&h))),
            o(self.rs.as_ref().map(|v| hx(v))),
            o(self.rec.map(|r| r.to_string())),
            o(self.pk.as_ref().map(|v| hx(v))),
            o(self.ver.map(|b| if b { "1".into() } else { "0".into() }))
        )
    }
}
/// the three primitive results for (text, signature bytes), by the independent route
fn witness_for(text: &str, sig: Option<&[u8]>) -> Witness {
    let h = personal_digest(text);
    let mut w = Witness { h: Some(h), rs: None, rec: None, pk: None, ver: None };
    let Some(sig) = sig else { return w };
    let Some((v, rs)) = sig.split_last() else { return w };
    w.rs = Some(rs.to_vec());
    w.rec = recid_of(*v);
    if let Some(rec) = w.rec {
        w.pk = recover_manual(&h, rs, rec);
        if let Some(pk) = &w.pk {
            w.ver = verify_manual(&h, rs, pk);
        }
    }
    w
}
/// the property's acceptance condition, evaluated without the contract and without the Lean model
fn indep_valid(text: &str, sig_str: &str, eth_str: &str) -> bool {
    let Some(a) = decode_eth_manual(eth_str) else { return false };
    let Some(sig) = unhex(sig_str.as_bytes()) else { return false };
    let w = witness_for(text, Some(&sig));
    match (&w.pk, w.ver) {
        (Some(pk), Some(true)) => eth_addr_of_pk(pk).map(|x| x.to_vec()) == Some(a),
        _ => false,
    }
}
fn well_formed(sig_str: &str, eth_str: &str) -> bool {
    let Some(_) = decode_eth_manual(eth_str) else { return false };
    let Some(sig) = unhex(sig_str.as_bytes()) else { return false };
    sig.len() == 65 && recid_of(sig[64]).is_some()
}

// ------------------------------------------------------------------------------------------------ the world

#[derive(serde::Serialize)]
struct InstJson {
    admin: String,
    claim_msg_plaintext: String,
    /// serde-json-wasm carries u128 as a decimal string
    airdrop_amount: String,
    addresses: Vec<String>,
    whitelist_code_id: u64,
    minter_address: String,
    per_address_limit: u64,
}

struct World {
    mw: minters::World,
    minter: String,
    /// collection whitelists, id = index + 1
    wls: Vec<String>,
    airdrop: Option<String>,
    /// its whitelist-immutable (`find_imm`, once)
    imm_addr: Option<String>,
    // ---- harness-side bookkeeping for the monitors (what the harness configured and did, not what the contracts say)
    /// id of the whitelist the harness attached to the minter with a successful SetWhitelist (0 = none)
    attached: usize,
    template: String,
    listed: BTreeSet<String>,
    probes: Vec<String>,
    limit: u64,
    amount: u128,
    /// successful claims per address STRING and per decoded 20-byte address
    succ: BTreeMap<String, u64>,
    succ_addr: BTreeMap<Vec<u8>, u64>,
    total_succ: u128,
    expected_self_balance: u128,
    /// header `strict=1`: fire on the literal per-ADDRESS clause even when the list names the address under two spellings
    strict: bool,
}

/// everything a claim or a foreign message could touch
#[derive(Clone, Debug, PartialEq)]
struct Snap {
    bank: BTreeMap<(String, String), u128>,
    counters: BTreeMap<String, u64>,
    members: Vec<BTreeSet<String>>,
}
/// the airdrop's list as seen through the queries
#[derive(Clone, Debug, PartialEq)]
struct ListSnap {
    listed_eligible: u64,
    probes_eligible: u64,
    count: u64,
    limit: u64,
}

impl World {
    fn new(header: &str) -> World {
        let now = kv_u64(header, "now").unwrap_or(NOW0);
        let mut mw = minters::World::new(now);
        let params = mw.default_params(MinterKind::Vending);
        let factory = mw.new_factory(FactoryKind::Vending, &params).expect("vending factory");
        let mut ca = mw.default_create(MinterKind::Vending, &params);
        ca.creator = MINTER_ADMIN;
        ca.start_time = MINTER_START;
        mw.fund(&addr(MINTER_ADMIN), params.creation_fee.0, params.creation_fee.1);
        let (minter, _collection) = mw.create_minter(&factory, MinterKind::Vending, &ca).expect("vending minter through the factory");
        let wl = kv_bool(header, "wl").unwrap_or(false);
        let nwl = kv_u64(header, "nwl").unwrap_or(wl as u64);
        let admin = kv_s(header, "admin").unwrap_or_else(|| CREATOR.to_string());
        let start = kv_u64(header, "wlstart").unwrap_or(WL_START);
        let mut wls = vec![];
        for i in 0..nwl {
            let limit = if i == 0 { kv_u64(header, "wlimit").unwrap_or(10) } else { kv_u64(header, "wlimit2").or(kv_u64(header, "wlimit")).unwrap_or(10) } as u32;
            let fee = minters::World::wl_fee(WlKind::Plain, limit);
            mw.fund(&admin, 0, fee);
            let msg = json!({"members": [], "start_time": jtime(start), "end_time": jtime(start + HOUR), "mint_price": jcoin((0, 66_000_000)),
                "per_address_limit": 1, "member_limit": limit, "admins": [admin], "admins_mutable": true});
            let code = mw.wl_code(WlKind::Plain);
            wls.push(mw.instantiate(code, &admin, &msg, &[(0, fee)], None).expect("collection whitelist"));
        }
        let mut attached = 0;
        if wl && nwl >= 1 {
            mw.exec(&addr(MINTER_ADMIN), &minter, &json!({"set_whitelist": {"whitelist": wls[0]}}), &[]).expect("set whitelist");
            attached = 1;
        }
        World {
            mw,
            minter,
            wls,
            airdrop: None,
            imm_addr: None,
            attached,
            template: String::new(),
            listed: BTreeSet::new(),
            probes: vec![PROBE.to_string()],
            limit: 0,
            amount: 0,
            succ: BTreeMap::new(),
            succ_addr: BTreeMap::new(),
            total_succ: 0,
            expected_self_balance: 0,
            strict: kv_bool(header, "strict").unwrap_or(false),
        }
    }
    fn bal(&self, who: &str) -> u128 {
        self.mw.app.wrap().query_balance(who, NATIVE).map(|c| c.amount.u128()).unwrap_or(0)
    }
    /// the claim counter, through the crate's own typed map (follows a rename of the storage key)
    fn count(&self, eth: &str) -> u64 {
        let Some(a) = &self.airdrop else { return 0 };
        let st = self.mw.app.contract_storage(&Addr::unchecked(a));
        sg_eth_airdrop::state::ADDRS_TO_MINT_COUNT.may_load(&*st, eth).ok().flatten().unwrap_or(0) as u64
    }
    fn counters(&self) -> BTreeMap<String, u64> {
        let Some(a) = &self.airdrop else { return BTreeMap::new() };
        let st = self.mw.app.contract_storage(&Addr::unchecked(a));
        sg_eth_airdrop::state::ADDRS_TO_MINT_COUNT.range(&*st, None, None, Order::Ascending).filter_map(|r| r.ok()).map(|(k, v)| (k, v as u64)).collect()
    }
    /// the whitelist-immutable the airdrop contract created: the contract with that code id whose creator is the airdrop
    /// contract (found by scanning the chain's contracts: no storage layout, no address numbering, no event names)
    fn imm(&self) -> Option<String> {
        self.imm_addr.clone()
    }
    fn find_imm(&self) -> Option<String> {
        let a = self.airdrop.as_ref()?;
        let code = self.mw.wl_code(WlKind::Immutable);
        (0..64).map(|i| format!("contract{i}")).find(|c| {
            self.mw.app.wrap().query_wasm_contract_info(c.as_str()).map(|i| i.code_id == code && i.creator == *a).unwrap_or(false)
        })
    }
    fn members_of(&self, wl: &str) -> BTreeSet<String> {
        let st = self.mw.app.contract_storage(&Addr::unchecked(wl));
        sg_whitelist::state::WHITELIST.keys(&*st, None, None, Order::Ascending).filter_map(|r| r.ok()).map(|a| a.to_string()).collect()
    }
    /// the whitelist the MINTER says it uses (what the airdrop contract will address)
    fn minter_wl(&self) -> Option<String> {
        self.mw.query(&self.minter, &json!({"config": {}})).ok()?["whitelist"].as_str().map(|s| s.to_string())
    }
    fn minter_wl_id(&self) -> usize {
        match self.minter_wl() {
            None => 0,
            Some(a) => self.wls.iter().position(|w| *w == a).map(|i| i + 1).unwrap_or(99),
        }
    }
    fn attached_addr(&self) -> Option<String> {
        if self.attached == 0 {
            None
        } else {
            self.wls.get(self.attached - 1).cloned()
        }
    }
    fn has_member(&self, who: &str) -> bool {
        let Some(w) = self.minter_wl() else { return false };
        self.mw.query(&w, &json!({"has_member": {"member": who}})).ok().and_then(|v| v["has_member"].as_bool()).unwrap_or(false)
    }
    fn num_members(&self) -> u64 {
        let Some(w) = self.minter_wl() else { return 0 };
        self.mw.query(&w, &json!({"config": {}})).ok().and_then(|v| v["num_members"].as_u64()).unwrap_or(u64::MAX)
    }
    fn eligible(&self, eth: &str) -> Option<bool> {
        let a = self.airdrop.as_ref()?;
        self.mw.query(a, &json!({"airdrop_eligible": {"eth_address": eth}})).ok()?.as_bool()
    }
    fn snap(&self) -> Snap {
        Snap { bank: self.mw.all_balances(), counters: self.counters(), members: self.wls.iter().map(|w| self.members_of(w)).collect() }
    }
    fn list_snap(&self) -> ListSnap {
        let imm = self.imm().unwrap_or_default();
        ListSnap {
            listed_eligible: self.listed.iter().filter(|e| self.eligible(e) == Some(true)).count() as u64,
            probes_eligible: self.probes.iter().filter(|e| self.eligible(e) == Some(true)).count() as u64,
            count: self.mw.query(&imm, &json!({"address_count": {}})).ok().and_then(|v| v.as_u64()).unwrap_or(u64::MAX),
            limit: self.mw.query(&imm, &json!({"per_address_limit": {}})).ok().and_then(|v| v.as_u64()).unwrap_or(u64::MAX),
        }
    }
    /// listed strings that spell the 20-byte address `a`
    fn spellings(&self, a: &[u8]) -> u64 {
        self.listed.iter().filter(|l| decode_eth_manual(l).as_deref() == Some(a)).count() as u64
    }
}

/// per-account change of the bank table between two snapshots (all denoms)
fn bank_delta(before: &Snap, after: &Snap) -> BTreeMap<(String, String), i128> {
    let mut d = BTreeMap::new();
    for k in before.bank.keys().chain(after.bank.keys()) {
        let x = *after.bank.get(k).unwrap_or(&0) as i128 - *before.bank.get(k).unwrap_or(&0) as i128;
        if x != 0 {
            d.insert(k.clone(), x);
        }
    }
    d
}

struct S {
    w: Option<World>,
    header: String,
    log: Vec<String>,
    pending: Option<(String, String)>,
    /// every (digest, signature bytes) pair that went through a `claim` or `verify` op: replayed at the end as `secp` lines
    seen: BTreeSet<(Vec<u8>, Vec<u8>)>,
}
thread_local! {
    /// pairs for which a claim line already asked the model for the `realCrypto` evaluation (`rce=1`)
    static RC_DONE: std::cell::RefCell<BTreeSet<(Vec<u8>, Vec<u8>)>> = std::cell::RefCell::new(BTreeSet::new());
    /// claim lines: (cheap, always evaluated; evaluated with the full secp256k1 computation; skipped)
    static RCE: std::cell::Cell<(u64, u64, u64)> = std::cell::Cell::new((0, 0, 0));
}

impl S {
    fn world(&mut self) -> &mut World {
        self.w.as_mut().expect("begin first")
    }
    fn rebuild(&mut self) {
        let log = std::mem::take(&mut self.log);
        self.w = Some(World::new(&self.header.clone()));
        for l in &log {
            let _ = self.exec_inner(l);
        }
        self.log = log;
    }

    fn exec_inner(&mut self, line: &str) -> Result<(String, String, Option<(String, String)>), String> {
        let op = line.split_whitespace().next().unwrap_or("").to_string();
        let mut finding: Option<(String, String)> = None;
        let mut seen_add: Option<(Vec<u8>, Vec<u8>)> = None;
        let bad = |p: &str, what: String| Some((format!("sg-eth-airdrop/{op}/{p}"), format!("{what} on `{line}`")));
        let okerr = |b: bool| if b { "ok" } else { "err" };
        let out: (String, String) = match op.as_str() {
            // ---------------------------------------------------------------- world ops
            "fund" => {
                let to = kv_s(line, "to").ok_or("to")?;
                let amt = kv_u128(line, "amt").ok_or("amt")?;
                let w = self.world();
                w.mw.fund(&to, 0, amt);
                if w.airdrop.as_deref() == Some(to.as_str()) {
                    w.expected_self_balance += amt;
                }
                (line.to_string(), format!("ok s={}", w.bal(&to)))
            }
            "inst" => {
                let sender = kv_s(line, "sender").ok_or("sender")?;
                let funds: Vec<(u64, u128)> = kv_pairs(line, "funds").ok_or("funds")?.iter().map(|(d, a)| (*d as u64, *a)).collect();
                let amount = kv_u128(line, "amount").ok_or("amount")?;
                let limit = kv_u64(line, "limit").ok_or("limit")?;
                let tpl = kv_s(line, "tpl").ok_or("tpl")?;
                let addrs = kv_slist(line, "addrs").ok_or("addrs")?;
                let w = self.world();
                if w.airdrop.is_some() {
                    return Err("second inst".into());
                }
                let msg = serde_json::to_value(InstJson {
                    admin: sender.clone(),
                    claim_msg_plaintext: tpl.clone(),
                    airdrop_amount: amount.to_string(),
                    addresses: addrs.clone(),
                    whitelist_code_id: w.mw.wl_code(WlKind::Immutable),
                    minter_address: w.minter.clone(),
                    per_address_limit: limit,
                })
                .map_err(|e| e.to_string())?;
                let code = w.mw.codes.eth_airdrop;
                match w.mw.instantiate(code, &sender, &msg, &funds, None) {
                    Ok(a) => {
                        w.airdrop = Some(a.clone());
                        w.imm_addr = w.find_imm();
                        w.template = tpl;
                        w.listed = addrs.into_iter().collect();
                        // never-listed strings: a fixed one, and the other casings of the listed ones
                        let mut probes = vec![PROBE.to_string()];
                        for l in &w.listed {
                            if l.len() > 2 {
                                for alt in [format!("{}{}", &l[..2], l[2..].to_lowercase()), format!("{}{}", &l[..2], l[2..].to_uppercase())] {
                                    if !w.listed.contains(&alt) && !probes.contains(&alt) && probes.len() < 6 {
                                        probes.push(alt);
                                    }
                                }
                            }
                        }
                        w.probes = probes;
                        w.limit = limit;
                        w.amount = amount;
                        let b = w.bal(&a);
                        w.expected_self_balance = b;
                        let paid: u128 = funds.iter().filter(|c| c.0 == 0).map(|c| c.1).sum();
                        if b != paid - FEE {
                            finding = bad("fee", format!("contract holds {b} after instantiate, expected funds {paid} − fee {FEE}"));
                        }
                        (format!("{line} self={}", hxs(&a)), format!("ok b={} ## s={}", b, w.bal(&sender)))
                    }
                    Err(e) => {
                        if std::env::var("C16_DEBUG").is_ok() {
                            eprintln!("inst failed: {}", e.replace('\n', " / "));
                        }
                        (format!("{line} self=-"), format!("err ## s={}", w.bal(&sender)))
                    }
                }
            }
            "claim" => {
                let sender = kv_s(line, "sender").ok_or("sender")?;
                let eth = kv_s(line, "eth").ok_or("eth")?;
                let sig = kv_s(line, "sig").ok_or("sig")?;
                let w = self.world();
                let Some(air) = w.airdrop.clone() else {
                    return Ok((format!("{line} h=- rs=- rec=- pk=- ver=-"), "err".into(), None));
                };
                let text = w.template.replace("{wallet}", &sender);
                let sig_bytes = unhex(sig.as_bytes());
                let wit = witness_for(&text, sig_bytes.as_deref());
                if let (Some(h), Some(sb)) = (wit.h, sig_bytes.as_ref()) {
                    seen_add = Some((h.to_vec(), sb.clone()));
                }
                let before = w.snap();
                let r = w.mw.exec(&sender, &air, &json!({"claim_airdrop": {"eth_address": eth, "eth_sig": sig}}), &[]);
                let ok = r.is_ok();
                let after = w.snap();
                let delta = bank_delta(&before, &after);
                let nat = |who: &str| (who.to_string(), NATIVE.to_string());
                // ---- monitors: the property, from the harness's own bookkeeping and complete before/after snapshots
                if ok {
                    *w.succ.entry(eth.clone()).or_insert(0) += 1;
                    w.total_succ += 1;
                    let dec = decode_eth_manual(&eth);
                    if let Some(a) = &dec {
                        *w.succ_addr.entry(a.clone()).or_insert(0) += 1;
                    }
                    if sender != air {
                        w.expected_self_balance -= w.amount.min(w.expected_self_balance);
                    }
                    let per_addr = dec.as_ref().map(|a| w.succ_addr[a]).unwrap_or(0);
                    let spell = dec.as_ref().map(|a| w.spellings(a)).unwrap_or(0);
                    let mut want = BTreeMap::new();
                    if sender != air {
                        want.insert(nat(&air), -(w.amount as i128));
                        want.insert(nat(&sender), w.amount as i128);
                    }
                    let att = w.attached;
                    let members_ok = att >= 1
                        && (0..w.wls.len()).all(|i| {
                            if i + 1 == att {
                                let mut m = before.members[i].clone();
                                m.insert(sender.clone());
                                after.members[i] == m
                            } else {
                                after.members[i] == before.members[i]
                            }
                        });
                    let csum = |s: &Snap| s.counters.values().sum::<u64>();
                    let foreign_counter = after
                        .counters
                        .iter()
                        .filter(|(k, v)| before.counters.get(*k).copied().unwrap_or(0) != **v)
                        .chain(before.counters.iter().filter(|(k, _)| !after.counters.contains_key(*k)))
                        .find(|(k, _)| **k != eth && (dec.is_none() || decode_eth_manual(k) != dec))
                        .map(|(k, _)| k.clone());
                    let signed_for = kv_s(line, "for");
                    if !w.listed.contains(&eth) {
                        finding = bad("not-listed-accepted", format!("claim for {eth} accepted but it is not on the airdrop's list"));
                    } else if kv(line, "sg").map(|sg| sg != format!("{}:{}", dec.as_ref().map(hex::encode).unwrap_or_default(), hex::encode(personal_digest(&text)))).unwrap_or(false) {
                        // pure bookkeeping, no curve arithmetic: the harness never produced a signature by the key of the named
                        // address over this caller's claim text (for addresses it holds no key for, no claim may ever succeed)
                        let sg = kv(line, "sg").unwrap_or("-");
                        finding = bad(
                            "accepted-without-valid-signature",
                            if sg == "-" {
                                format!("claim by {sender} for {eth} succeeded with bytes that no key ever signed (the harness did not produce them by signing)")
                            } else {
                                format!("claim by {sender} for {eth} succeeded, but the harness produced this signature with the key of 0x{} over another text / for another address", &sg[..40.min(sg.len())])
                            },
                        );
                    } else if signed_for.as_deref().map(|f| f != sender).unwrap_or(false) {
                        // from what the harness knows about who signed what — not from the template the contract accepted
                        finding = bad(
                            "signature-accepted-from-other-wallet",
                            format!("claim by {sender} succeeded with a signature that was produced for the claim text of wallet {} (the signed text does not bind the caller: replay from a different Stargaze wallet)", signed_for.unwrap_or_default()),
                        );
                    } else if !text.contains(sender.as_str()) {
                        finding = bad(
                            "claim-text-without-caller-address",
                            format!("claim by {sender} succeeded over the text `{}`, which does not contain the caller's address (any wallet can present this signature)", text.chars().take(80).collect::<String>()),
                        );
                    } else if !well_formed(&sig, &eth) {
                        finding = bad("malformed-accepted", "malformed Ethereum address or signature accepted".into());
                    } else if !indep_valid(&text, &sig, &eth) {
                        finding = bad(
                            "invalid-signature-accepted",
                            format!("signature is not a valid personal-sign signature by {eth} over the claim text for wallet {sender}"),
                        );
                    } else if w.succ[&eth] > w.limit || per_addr > w.limit * spell {
                        finding = bad("limit-exceeded", format!("{eth} claimed {} times ({per_addr} for its 20-byte address, listed under {spell} spelling(s)), per-address limit {}", w.succ[&eth], w.limit));
                    } else if w.strict && per_addr > w.limit {
                        finding = bad(
                            "limit-exceeded-per-address-listed-under-two-spellings",
                            format!("the Ethereum address of {eth} claimed {per_addr} times, per-address limit {} (the list names it under {spell} spellings; eligibility and counter are per string)", w.limit),
                        );
                    } else if delta != want {
                        finding = bad("wrong-payout", format!("bank changes {:?}, expected exactly {:?} (airdrop amount {} from the contract to the caller)", delta, want, w.amount));
                    } else if !members_ok || !w.has_member(&sender) {
                        finding = bad("not-whitelisted", format!("after a successful claim the attached collection whitelist (id {att}) must have gained exactly the caller {sender}, the other one nothing: {:?} → {:?}", before.members, after.members));
                    } else if csum(&after) != csum(&before) + 1 || foreign_counter.is_some() {
                        finding = bad("counter", format!("claim counters {:?} → {:?}: exactly one more claim must be recorded, for this address", before.counters, after.counters));
                    }
                } else if before != after {
                    finding = bad("failed-claim-effect", format!("failed claim changed state: bank {:?}, counters {:?} → {:?}, members {:?} → {:?}", delta, before.counters, after.counters, before.members, after.members));
                }
                let b = w.bal(&air);
                if finding.is_none() && b != w.expected_self_balance {
                    finding = bad(
                        "total-paid",
                        format!("contract balance {} ≠ funded − {} successful claims × {} = {}", b, w.total_succ, w.amount, w.expected_self_balance),
                    );
                }
                let e = w.eligible(&eth).unwrap_or(false);
                // `rce`: should the model ALSO decide this claim with `realCrypto` (Lean secp256k1 from the raw bytes: ≈ 3 double
                // scalar multiplications when the claim gets as far as the signature)? Always when that is cheap (not listed,
                // not hex, not 65 bytes); otherwise once per distinct (digest, signature) pair for every pair of a claim the
                // real contract ACCEPTED, and for 1 in 16 of the other pairs (chosen by a hash of the pair). Sampling only:
                // with `rce=0` the model prints `rc=1` without evaluating.
                let rce = match (&sig_bytes, wit.h) {
                    (Some(sb), Some(h)) if sb.len() == 65 && w.listed.contains(&eth) => {
                        let pair = (h.to_vec(), sb.clone());
                        let pick = ok || keccak(&[&h[..], &sb[..]].concat())[0] < 16 || std::env::var("C16_RC_ALL").is_ok();
                        pick && RC_DONE.with(|m| m.borrow_mut().insert(pair))
                    }
                    _ => {
                        RCE.with(|c| c.set((c.get().0 + 1, c.get().1, c.get().2)));
                        true
                    }
                };
                if sig_bytes.as_ref().map(|sb| sb.len() == 65).unwrap_or(false) && w.listed.contains(&eth) {
                    RCE.with(|c| c.set(if rce { (c.get().0, c.get().1 + 1, c.get().2) } else { (c.get().0, c.get().1, c.get().2 + 1) }));
                }
                (
                    format!("{line}{} rce={}", wit.render(), rce as u8),
                    format!("{} b={} s={} m={} e={} rc=1 ## c={} n={}", okerr(ok), b, w.bal(&sender), w.has_member(&sender) as u8, e as u8, w.count(&eth), w.num_members()),
                )
            }
            "exec_raw" => {
                // any message other than ClaimAirdrop, to the airdrop contract or to its whitelist-immutable: must change nothing
                let kind = kv(line, "kind").ok_or("kind")?.to_string();
                let target = kv(line, "target").ok_or("target")?.to_string();
                let sender = kv_s(line, "sender").ok_or("sender")?;
                let text = kv_s(line, "json").ok_or("json")?;
                let msg: Value = serde_json::from_str(&text).map_err(|e| e.to_string())?;
                let w = self.world();
                let Some(air) = w.airdrop.clone() else {
                    return Ok((line.to_string(), "raw b=0 el=0 x=0 cnt=0 lim=0 ## err".into(), None));
                };
                let (tgt, code) = match target.as_str() {
                    "airdrop" => (air.clone(), w.mw.codes.eth_airdrop),
                    "immutable" => (w.imm().ok_or("no whitelist-immutable")?, w.mw.wl_code(WlKind::Immutable)),
                    _ => return Err("target".into()),
                };
                let (before, lbefore) = (w.snap(), w.list_snap());
                let r = match kind.as_str() {
                    "exec" => w.mw.exec(&sender, &tgt, &msg, &[]).map(|_| ()),
                    "sudo" => w.mw.sudo(&tgt, &msg).map(|_| ()),
                    "migrate" => w.mw.migrate(&sender, &tgt, code, &msg).map(|_| ()),
                    _ => return Err("kind".into()),
                };
                let (after, lafter) = (w.snap(), w.list_snap());
                let what = top_key(&msg);
                if before.bank != after.bank {
                    finding = bad("funds-moved", format!("{kind} `{what}` on the {target} contract moved coins: {:?} (only ClaimAirdrop may pay, and only the caller)", bank_delta(&before, &after)));
                } else if lbefore != lafter || lafter.listed_eligible != w.listed.len() as u64 || lafter.probes_eligible != 0 || lafter.limit != w.limit {
                    finding = bad("list-changed", format!("{kind} `{what}` on the {target} contract changed the airdrop's list / limit: {:?} → {:?} (instantiated with {} addresses, limit {})", lbefore, lafter, w.listed.len(), w.limit));
                } else if before.counters != after.counters {
                    finding = bad("counter-changed", format!("{kind} `{what}` on the {target} contract changed the claim counters {:?} → {:?}", before.counters, after.counters));
                } else if before.members != after.members {
                    finding = bad("whitelist-changed", format!("{kind} `{what}` on the {target} contract changed a collection whitelist {:?} → {:?}", before.members, after.members));
                }
                (
                    line.to_string(),
                    format!("raw b={} el={} x={} cnt={} lim={} ## {}", w.bal(&air), lafter.listed_eligible, lafter.probes_eligible, lafter.count, lafter.limit, okerr(r.is_ok())),
                )
            }
            "cwl_add" | "cwl_rm" | "cwl_admins" | "cwl_freeze" => {
                // administration of the collection whitelist the harness attached: environment of this property
                let sender = kv_s(line, "sender").ok_or("sender")?;
                let w = self.world();
                let msg = match op.as_str() {
                    "cwl_add" => json!({"add_members": {"to_add": [kv_s(line, "who").ok_or("who")?]}}),
                    "cwl_rm" => json!({"remove_members": {"to_remove": [kv_s(line, "who").ok_or("who")?]}}),
                    "cwl_admins" => json!({"update_admins": {"admins": kv_slist(line, "admins").ok_or("admins")?}}),
                    _ => json!({"freeze": {}}),
                };
                let ok = match w.attached_addr() {
                    None => false,
                    Some(c) => w.mw.exec(&sender, &c, &msg, &[]).is_ok(),
                };
                let primary = if op == "cwl_add" || op == "cwl_rm" {
                    let who = kv_s(line, "who").ok_or("who")?;
                    let m = w.attached_addr().map(|c| w.members_of(&c).contains(&who)).unwrap_or(false);
                    format!("m={} ## {} n={}", m as u8, okerr(ok), if w.attached > 0 { w.num_members() } else { 0 })
                } else {
                    let n = w.attached_addr().and_then(|c| w.mw.query(&c, &json!({"admin_list": {}})).ok()).and_then(|v| v["admins"].as_array().map(|a| a.len())).unwrap_or(0);
                    format!("a={} ## {}", n, okerr(ok))
                };
                (format!("{line} res={}", okerr(ok)), primary)
            }
            "set_wl" => {
                // the minter admin points the minter to (another) collection whitelist
                let id = kv_u64(line, "id").ok_or("id")? as usize;
                let w = self.world();
                let ok = match w.wls.get(id.wrapping_sub(1)).cloned() {
                    None => false,
                    Some(a) => {
                        let minter = w.minter.clone();
                        w.mw.exec(&addr(MINTER_ADMIN), &minter, &json!({"set_whitelist": {"whitelist": a}}), &[]).is_ok()
                    }
                };
                if ok {
                    w.attached = id;
                }
                (format!("{line} res={}", okerr(ok)), format!("wl={}", w.minter_wl_id()))
            }
            "time" => {
                let t = kv_u64(line, "t").ok_or("t")?;
                self.world().mw.set_time(t);
                (line.to_string(), "ok".into())
            }
            "q_elig" => {
                let eth = kv_s(line, "eth").ok_or("eth")?;
                let w = self.world();
                match w.eligible(&eth) {
                    Some(b) => {
                        if b != w.listed.contains(&eth) {
                            finding = bad("eligible-query", format!("AirdropEligible({eth}) = {b} but listed = {}", !b));
                        }
                        (line.to_string(), format!("ok {}", b as u8))
                    }
                    None => (line.to_string(), "err".into()),
                }
            }
            "q_imm" => {
                // the whitelist-immutable the reply registered: distinct-address count and per-address limit
                let w = self.world();
                match w.airdrop.clone() {
                    None => (line.to_string(), "err".into()),
                    Some(_) => {
                        let l = w.list_snap();
                        let distinct = w.listed.len() as u64;
                        if l.count != distinct || l.limit != w.limit || l.listed_eligible != distinct || l.probes_eligible != 0 {
                            finding = bad("immutable-list", format!("whitelist-immutable: {:?}; instantiated with {distinct} distinct addresses / limit {}", l, w.limit));
                        }
                        (line.to_string(), format!("ok count={} limit={}", l.count, l.limit))
                    }
                }
            }
            "q_minter" => {
                let w = self.world();
                match w.airdrop.clone() {
                    None => (line.to_string(), "err".into()),
                    Some(a) => {
                        let m = w.mw.query(&a, &json!({"get_minter": {}}))?;
                        (line.to_string(), format!("ok {}", (m.as_str() == Some(w.minter.as_str())) as u8))
                    }
                }
            }
            // ---------------------------------------------------------------- function level
            "repl" => {
                let tpl = kv_s(line, "tpl").ok_or("tpl")?;
                let wl = kv_s(line, "w").ok_or("w")?;
                (line.to_string(), format!("ok {}", hxs(&tpl.replace("{wallet}", &wl))))
            }
            "replp" => {
                let pat = kv_s(line, "pat").ok_or("pat")?;
                let rep = kv_s(line, "rep").ok_or("rep")?;
                let s = kv_s(line, "s").ok_or("s")?;
                (line.to_string(), format!("ok {}", hxs(&s.replace(pat.as_str(), &rep))))
            }
            "contains" => {
                let tpl = kv_s(line, "tpl").ok_or("tpl")?;
                (line.to_string(), format!("ok {}", tpl.contains("{wallet}") as u8))
            }
            "keccak" => {
                let d = kv_b(line, "d").ok_or("d")?;
                (line.to_string(), format!("ok {}", hx(&keccak(&d))))
            }
            "envelope" => {
                let t = kv_s(line, "text").ok_or("text")?;
                let mut v = format!("\x19Ethereum Signed Message:\n{}", t.len()).into_bytes();
                v.extend_from_slice(t.as_bytes());
                (line.to_string(), format!("ok {}", hx(&v)))
            }
            "hexdec" => {
                let s = kv_s(line, "s").ok_or("s")?;
                match hex::decode(&s) {
                    Ok(b) => (line.to_string(), format!("ok {}", hx(&b))),
                    Err(_) => (line.to_string(), "err".into()),
                }
            }
            "decode" => {
                let a = kv_s(line, "a").ok_or("a")?;
                match ethereum_verify::decode_address(&a) {
                    Ok(b) => {
                        if decode_eth_manual(&a).is_none() {
                            finding = bad("malformed-accepted", "decode_address accepted a malformed address".into());
                        }
                        (line.to_string(), format!("ok {}", hx(&b)))
                    }
                    Err(_) => (line.to_string(), "err".into()),
                }
            }
            "recparam" => {
                let v = kv_u64(line, "v").ok_or("v")?;
                if v > 255 {
                    (line.to_string(), "err".into())
                } else {
                    match ethereum_verify::get_recovery_param(v as u8) {
                        Ok(r) => {
                            if recid_of(v as u8) != Some(r) {
                                finding = bad("malformed-accepted", format!("recovery id {v} accepted as {r}"));
                            }
                            (line.to_string(), format!("ok {r}"))
                        }
                        Err(_) => (line.to_string(), "err".into()),
                    }
                }
            }
            "verify" => {
                let text = kv_s(line, "text").ok_or("text")?;
                let sig = kv_b(line, "sig").ok_or("sig")?;
                let signer = kv_s(line, "signer").ok_or("signer")?;
                let wit = witness_for(&text, Some(&sig));
                if let Some(h) = wit.h {
                    seen_add = Some((h.to_vec(), sig.clone()));
                }
                let deps = mock_dependencies();
                let r = ethereum_verify::verify_ethereum_text(deps.as_ref(), &text, &sig, &signer);
                let o = match r {
                    Ok(b) => {
                        if b && !indep_valid(&text, &hex::encode(&sig), &signer) {
                            finding = bad("invalid-signature-accepted", "verify_ethereum_text returned true for a signature the independent check rejects".into());
                        }
                        format!("ok {} rc=1", b as u8)
                    }
                    Err(_) => "err rc=1".into(),
                };
                (format!("{line}{}", wit.render()), o)
            }
            "secp" => {
                // round 5: the REAL `Api::secp256k1_recover_pubkey` / `secp256k1_verify` / `ethereum_address_raw` on raw bytes;
                // the Lean driver computes the same values with `LP.Secp` (no witness on this line)
                use cosmwasm_std::Api;
                let hash = kv_b(line, "hash").ok_or("hash")?;
                let sig = kv_b(line, "sig").ok_or("sig")?;
                let pk = match kv(line, "pk").ok_or("pk")? {
                    "-" => None,
                    t => Some(tok_bytes(t).ok_or("pk")?),
                };
                let deps = mock_dependencies();
                let b01e = |r: Result<bool, cosmwasm_std::VerificationError>| match r {
                    Ok(true) => "1",
                    Ok(false) => "0",
                    Err(_) => "err",
                };
                let o = match sig.split_last() {
                    None => "err".to_string(),
                    Some((v, rs)) => {
                        let rid = ethereum_verify::get_recovery_param(*v).unwrap_or(*v);
                        let vp = match &pk {
                            None => "-",
                            Some(k) => b01e(deps.api.secp256k1_verify(&hash, rs, k)),
                        };
                        match deps.api.secp256k1_recover_pubkey(&hash, rs, rid) {
                            Err(_) => format!("rec=err addr=- ver=- vp={vp}"),
                            Ok(key) => {
                                let addr = ethereum_verify::ethereum_address_raw(&key).map(|a| hx(&a)).unwrap_or_else(|_| "-".into());
                                // independent route (hand-written ecrecover on k256 group arithmetic) must agree as well
                                if hash.len() == 32 && recover_manual(hash.as_slice().try_into().unwrap(), rs, rid).as_deref() != Some(&key[..]) {
                                    finding = bad("recover-differs-from-independent-route", format!("deps.api recovered {} but the hand-written ecrecover did not", hx(&key)));
                                }
                                format!("rec=ok key={} addr={} ver={} vp={vp}", hx(&key), addr, b01e(deps.api.secp256k1_verify(&hash, rs, &key)))
                            }
                        }
                    }
                };
                (line.to_string(), o)
            }
            _ => return Err(format!("bad op {op}")),
        };
        if let Some(x) = seen_add {
            self.seen.insert(x);
        }
        Ok((out.0, out.1, finding))
    }
}

impl Sut for S {
    fn begin(&mut self, header: &str) -> (String, String) {
        self.header = header.to_string();
        self.log.clear();
        self.pending = None;
        self.w = Some(World::new(header));
        (header.to_string(), "case".to_string())
    }
    fn exec(&mut self, line: &str) -> (String, String) {
        self.pending = None;
        let l = line.to_string();
        let r = catch(|| self.exec_inner(&l));
        match r {
            Ok(Ok((m, o, f))) => {
                self.log.push(l);
                self.pending = f;
                (m, o)
            }
            Ok(Err(_)) => (l, "bad-op".into()),
            Err(_) => {
                // a panic inside contract code = failed transaction; the App may be half-written: rebuild
                self.rebuild();
                (l, "err".into())
            }
        }
    }
    fn monitor(&mut self) -> Option<(String, String)> {
        self.pending.take()
    }
}

// ------------------------------------------------------------------------------------------------ run-time message surface

/// execute variants this file drives by name
const KNOWN_AIRDROP_EXEC: [&str; 1] = ["claim_airdrop"];
const KNOWN_IMMUTABLE_EXEC: [&str; 0] = [];

fn airdrop_exec_schema() -> Value {
    serde_json::to_value(cosmwasm_schema::schema_for!(sg_eth_airdrop::msg::ExecuteMsg)).expect("schema to json")
}
fn immutable_exec_schema() -> Value {
    serde_json::to_value(cosmwasm_schema::schema_for!(whitelist_immutable::msg::ExecuteMsg)).expect("schema to json")
}

/// (variant name in snake case, schema of its payload; None for a unit variant serialised as a bare string)
fn schema_variants(root: &Value) -> Vec<(String, Option<Value>)> {
    let mut out = vec![];
    let mut alts: Vec<Value> = vec![];
    for k in ["oneOf", "anyOf"] {
        if let Some(a) = root[k].as_array() {
            alts.extend(a.iter().cloned());
        }
    }
    if alts.is_empty() {
        alts.push(root.clone());
    }
    for alt in alts {
        if let Some(en) = alt["enum"].as_array() {
            for e in en {
                if let Some(s) = e.as_str() {
                    out.push((s.to_string(), None));
                }
            }
        } else if let Some(req) = alt["required"].as_array() {
            if let Some(name) = req.first().and_then(|x| x.as_str()) {
                out.push((name.to_string(), Some(alt["properties"][name].clone())));
            }
        }
    }
    out.sort_by(|a, b| a.0.cmp(&b.0));
    out.dedup_by(|a, b| a.0 == b.0);
    out
}

/// minimal JSON value for a schema: integers = k, strings = `who` when the field name looks like an account, else `eth`
/// (an address string that is NOT on the list; for the second filling a number), options = null, arrays = one element
fn fill(s: &Value, defs: &Value, k: u64, hint: &str, who: &str, eth: &str, depth: u32) -> Value {
    if depth > 8 {
        return Value::Null;
    }
    if let Some(r) = s["$ref"].as_str() {
        let name = r.rsplit('/').next().unwrap_or("");
        return fill(&defs[name], defs, k, hint, who, eth, depth + 1);
    }
    if let Some(a) = s["allOf"].as_array() {
        if let Some(f) = a.first() {
            return fill(f, defs, k, hint, who, eth, depth + 1);
        }
    }
    for key in ["anyOf", "oneOf"] {
        if let Some(a) = s[key].as_array() {
            if let Some(f) = a.iter().find(|x| x["type"] != "null") {
                if let Some(req) = f["required"].as_array().and_then(|r| r.first()).and_then(|x| x.as_str()) {
                    let mut m = Map::new();
                    m.insert(req.to_string(), fill(&f["properties"][req], defs, k, req, who, eth, depth + 1));
                    return Value::Object(m);
                }
                return fill(f, defs, k, hint, who, eth, depth + 1);
            }
            return Value::Null;
        }
    }
    if let Some(en) = s["enum"].as_array() {
        return en.first().cloned().unwrap_or(Value::Null);
    }
    let ty: String = match &s["type"] {
        Value::String(t) => t.clone(),
        Value::Array(ts) => ts.iter().filter_map(|t| t.as_str()).find(|t| *t != "null").unwrap_or("").to_string(),
        _ => String::new(),
    };
    match ty.as_str() {
        "integer" | "number" => json!(k),
        "string" => {
            // unknown text fields get the never-listed Ethereum address the list monitors watch, account-like ones the sender
            let h = hint.to_lowercase();
            if h.contains("eth") || h.contains("addresses") || h.contains("members") {
                json!(eth)
            } else if h == "to" || ["addr", "recipient", "whitelist", "contract", "owner", "sender", "admin", "wallet", "minter", "beneficiary"].iter().any(|w| h.contains(w)) {
                json!(who)
            } else if k == 1 {
                json!(eth)
            } else {
                json!(k.to_string())
            }
        }
        "boolean" => json!(k % 2 == 1),
        "array" => json!([fill(&s["items"], defs, k, hint, who, eth, depth + 1)]),
        "object" => {
            let mut m = Map::new();
            if let Some(req) = s["required"].as_array() {
                for r in req.iter().filter_map(|x| x.as_str()) {
                    m.insert(r.to_string(), fill(&s["properties"][r], defs, k, r, who, eth, depth + 1));
                }
            }
            Value::Object(m)
        }
        _ => Value::Null,
    }
}

/// raw messages (a few argument fillings each) for every variant of `root` that is not in `known`
fn unknown_variant_msgs(root: &Value, known: &[&str], who: &str, eth: &str) -> Vec<(String, Value)> {
    let defs = &root["definitions"];
    let mut out = vec![];
    for (n, sch) in schema_variants(root) {
        if known.contains(&n.as_str()) {
            continue;
        }
        match sch {
            None => out.push((n.clone(), Value::String(n))),
            Some(s) => {
                for k in [1u64, 1_000_000_000_000] {
                    let mut m = Map::new();
                    m.insert(n.clone(), fill(&s, defs, k, &n, who, eth, 0));
                    out.push((n.clone(), Value::Object(m)));
                }
            }
        }
    }
    out
}

fn top_key(msg: &Value) -> String {
    match msg {
        Value::String(s) => s.clone(),
        Value::Object(m) => m.keys().next().cloned().unwrap_or_else(|| "{}".into()),
        _ => "?".into(),
    }
}

/// messages neither contract has today (hypothetical ways to take the funds out / edit the list): kept in the generator so
/// that the monitors are in place the day one of them is dispatched
fn hypothetical_msgs(target: &str, who: &str, listed: &str) -> Vec<Value> {
    if target == "airdrop" {
        vec![
            json!({"withdraw": {}}),
            json!("withdraw"),
            json!({"withdraw_remaining": {"recipient": who}}),
            json!({"update_config": {"airdrop_amount": 1, "claim_msg_plaintext": "x", "admin": who}}),
            json!({"update_admin": {"admin": who}}),
            json!({"add_addresses": {"addresses": [PROBE]}}),
            json!({"remove_addresses": {"addresses": [listed]}}),
            json!({"update_per_address_limit": {"limit": 99}}),
            json!({"reset_claims": {"eth_address": listed}}),
            json!({"burn": {}}),
            json!({"claim": {"eth_address": listed}}),
            json!({}),
        ]
    } else {
        vec![
            json!({"add_addresses": {"addresses": [PROBE]}}),
            json!({"add_members": {"to_add": [PROBE]}}),
            json!({"remove_addresses": {"addresses": [listed]}}),
            json!({"remove_members": {"to_remove": [listed]}}),
            json!({"update_per_address_limit": {"limit": 99}}),
            json!({"update_per_address_limit": 99}),
            json!({"update_admin": {"admin": who}}),
            json!({"freeze": {}}),
            json!({}),
        ]
    }
}

fn raw_line(kind: &str, target: &str, sender: &str, msg: &Value) -> String {
    format!("exec_raw kind={kind} target={target} sender={} json={}", hxs(sender), hxs(&msg.to_string()))
}

/// the bounds `instantiate` puts on `airdrop_amount` (private constants of the crate), found by bisection on the real
/// `instantiate` in a scratch world: (least accepted, greatest accepted if there is one below 2^64)
fn discover_amount_bounds() -> (u128, Option<u128>) {
    let mut w = World::new(&format!("case scratch nwl=0 wl=0 wlimit=0 admin={}", hxs(CREATOR)));
    let mut accepts = |amount: u128| -> bool {
        w.mw.fund(INST_SENDER, 0, FEE);
        let msg = serde_json::to_value(InstJson {
            admin: INST_SENDER.into(),
            claim_msg_plaintext: "{wallet}".into(),
            airdrop_amount: amount.to_string(),
            addresses: vec![PROBE.into()],
            whitelist_code_id: w.mw.wl_code(WlKind::Immutable),
            minter_address: w.minter.clone(),
            per_address_limit: 1,
        })
        .unwrap();
        let code = w.mw.codes.eth_airdrop;
        w.mw.instantiate(code, INST_SENDER, &msg, &[(0, FEE)], None).is_ok()
    };
    let top: u128 = u64::MAX as u128; // serde_json::Value carries integers up to u64
    // some accepted amount: try a few magnitudes
    let Some(mid) = [66_000_000u128, 1, 1_000, 1_000_000_000_000, 1 << 62].into_iter().find(|a| accepts(*a)) else {
        return (10_000_000, Some(100_000_000_000_000));
    };
    let (mut lo, mut hi) = (0u128, mid); // accepts(hi), !accepts(lo) or lo = 0
    let min = if accepts(0) {
        0
    } else {
        while hi - lo > 1 {
            let m = lo + (hi - lo) / 2;
            if accepts(m) {
                hi = m
            } else {
                lo = m
            }
        }
        hi
    };
    let max = if accepts(top) {
        None
    } else {
        let (mut lo, mut hi) = (mid, top); // accepts(lo), !accepts(hi)
        while hi - lo > 1 {
            let m = lo + (hi - lo) / 2;
            if accepts(m) {
                lo = m
            } else {
                hi = m
            }
        }
        Some(lo)
    };
    (min, max)
}

// ------------------------------------------------------------------------------------------------ generators

#[derive(Clone)]
struct Key {
    sk: SigningKey,
    /// the string under which this key appears in claims (casing varies)
    eth: String,
}
fn new_key(rng: &mut Rng, style: u64) -> Key {
    loop {
        let mut b = [0u8; 32];
        for c in b.chunks_mut(8) {
            c.copy_from_slice(&rng.next_u64().to_be_bytes());
        }
        if let Ok(sk) = SigningKey::from_bytes(&b.into()) {
            let pk = sk.verifying_key().to_encoded_point(false);
            let addr = eth_addr_of_pk(pk.as_bytes()).unwrap();
            let lower = hex::encode(addr);
            let eth = match style {
                0 => format!("0x{}", lower.to_uppercase()),
                1 => format!("0x{}", lower.chars().enumerate().map(|(i, c)| if i % 3 == 0 { c.to_ascii_uppercase() } else { c }).collect::<String>()),
                _ => format!("0x{lower}"),
            };
            let _ = addr;
            PUBKEYS.with(|m| {
                let mut m = m.borrow_mut();
                if m.len() < 64 {
                    m.push(pk.as_bytes().to_vec());
                    m.push(sk.verifying_key().to_encoded_point(true).as_bytes().to_vec());
                }
            });
            return Key { sk, eth };
        }
    }
}
/// r‖s‖v over the personal-sign digest of `text`; `raw_v`: v ∈ {0,1} instead of {27,28}
fn sign(k: &Key, text: &str, raw_v: bool) -> Vec<u8> {
    let d = personal_digest(text);
    let (sig, rid) = k.sk.sign_prehash_recoverable(&d).expect("sign");
    let mut v = sig.to_bytes().to_vec();
    // the harness's own record of who signed what: r ↦ (s, address of the signing key, digest of the signed text)
    let addr = eth_addr_of_pk(k.sk.verifying_key().to_encoded_point(false).as_bytes()).unwrap();
    SIGNED.with(|m| m.borrow_mut().insert(v[..32].to_vec(), (v[32..64].to_vec(), addr, d)));
    v.push(rid.to_byte() + if raw_v { 0 } else { 27 });
    v
}
thread_local! {
    /// public keys (uncompressed, compressed) of the first generated keys: `pk=` of `secp` lines
    static PUBKEYS: std::cell::RefCell<Vec<Vec<u8>>> = std::cell::RefCell::new(Vec::new());
    static SIGNED: std::cell::RefCell<BTreeMap<Vec<u8>, (Vec<u8>, [u8; 20], [u8; 32])>> = std::cell::RefCell::new(BTreeMap::new());
}
/// `<address of the key>:<digest of the text>` if the byte string `sig_hex` decodes to is a signature this harness produced
/// (as produced, or in its other encoding `(r, n − s)`; any `v`), else `-`: bytes nobody's key ever signed
fn provenance(sig_hex: &str) -> String {
    let Some(b) = unhex(sig_hex.as_bytes()) else { return "-".into() };
    if b.len() != 65 {
        return "-".into();
    }
    SIGNED.with(|m| match m.borrow().get(&b[..32]) {
        Some((s, addr, d)) => {
            let neg = Option::<Scalar>::from(Scalar::from_repr(FieldBytes::clone_from_slice(s))).map(|x| (-x).to_repr().to_vec());
            if b[32..64] == s[..] || Some(b[32..64].to_vec()) == neg {
                format!("{}:{}", hex::encode(addr), hex::encode(d))
            } else {
                "-".into()
            }
        }
        None => "-".into(),
    })
}
/// (r, n−s, v with flipped parity): the "other" encoding of the same signature
fn malleate(sig: &[u8], flip_v: bool) -> Vec<u8> {
    let s = Option::<Scalar>::from(Scalar::from_repr(FieldBytes::clone_from_slice(&sig[32..64]))).unwrap();
    let mut out = sig[..32].to_vec();
    out.extend_from_slice(&(-s).to_repr());
    let v = sig[64];
    out.push(if !flip_v {
        v
    } else {
        match v {
            27 => 28,
            28 => 27,
            0 => 1,
            1 => 0,
            x => x,
        }
    });
    out
}

const TEMPLATES: &[&str] = &[
    "My Stargaze address is {wallet} and I want a Winter Pal.",
    "{wallet}",
    "x{wallet}",
    "{wallet}y",
    "{wallet}{wallet}",
    "{{wallet}",
    "{wallet}}",
    "{wallet{wallet}}",
    "{wallet} {WALLET} {wallet }{wallet}",
    "{wal{wallet}let}",
    "claim for {wallet} — ✓ ĞM {wallet}\n",
    "a{wallet}b{wallet}c{wallet}d",
    "{wallet{wallet{wallet}",
];
const WALLETS: &[&str] = &[
    "acct00001", "acct00002", "acct00003", "acct000031", "acct0000", "{wallet}", "a{wallet}b", "wallet}", "{wallet", "stars1qqqq4kdla12mh86psg4y4h6hh05g2hmqoap350",
    "stars1qqqq4kdla12mh86psg4y4h6hh05g2hmqoap35", "buyer2", "xyz", CREATOR, "acct00010", INST_SENDER,
];

struct Scn {
    keys: Vec<Key>,
    template: String,
    limit: u64,
    live: bool,
}

/// a claim by `sender` presenting a signature the generator made for `sender`'s own claim text
fn claim_line(sender: &str, eth: &str, sig: &str) -> String {
    claim_line_for(sender, eth, sig, sender)
}
/// `signed_for`: the Stargaze wallet whose claim text the generator signed to obtain `sig` (what the harness knows about
/// who signed what; carried in the line so that a replay can judge it; the model ignores it). `sg=` is the harness's record
/// for these signature bytes: which key signed which digest, or `-` if the harness never produced them by signing.
fn claim_line_for(sender: &str, eth: &str, sig: &str, signed_for: &str) -> String {
    format!("claim sender={} eth={} sig={} for={} sg={}", hxs(sender), hxs(eth), hxs(sig), hxs(signed_for), provenance(sig))
}

/// one claim op of mutation kind `kind`; returns (line, kind label)
fn gen_claim(rng: &mut Rng, sc: &Scn, kind: u64, ki: usize, wi: usize) -> (String, &'static str) {
    gen_claim_as(rng, sc, kind, ki, wi, None)
}
/// `who`: claim as this account instead of `WALLETS[wi]` (the airdrop contract itself, for instance)
fn gen_claim_as(rng: &mut Rng, sc: &Scn, kind: u64, ki: usize, wi: usize, who: Option<&str>) -> (String, &'static str) {
    let k = &sc.keys[ki];
    let w = who.unwrap_or(WALLETS[wi]);
    let text = sc.template.replace("{wallet}", w);
    let good = sign(k, &text, false);
    let h = |b: &[u8]| hex::encode(b);
    match kind {
        0 => (claim_line(w, &k.eth, &h(&good)), "valid"),
        1 => (claim_line(w, &k.eth, &h(&sign(k, &text, true))), "valid-raw-v"),
        2 => (claim_line(w, &k.eth, &h(&good).to_uppercase()), "valid-upper-hex"),
        3 => {
            let w2 = WALLETS[(wi + 1 + rng.below(WALLETS.len() as u64 - 1) as usize) % WALLETS.len()];
            (claim_line_for(w2, &k.eth, &h(&good), w), "replay-other-wallet")
        }
        4 => {
            let k2 = &sc.keys[(ki + 1) % sc.keys.len()];
            (claim_line(w, &k.eth, &h(&sign(k2, &text, false))), "other-key")
        }
        5 => {
            let mut s = good.clone();
            let bit = rng.below(64 * 8) as usize;
            s[bit / 8] ^= 1 << (bit % 8);
            (claim_line(w, &k.eth, &h(&s)), "bit-flip")
        }
        6 => {
            let s: Vec<u8> = match rng.below(6) {
                0 => good[..64].to_vec(),
                1 => {
                    let mut x = good.clone();
                    x.push(27);
                    x
                }
                2 => vec![],
                3 => vec![27],
                4 => good[1..].to_vec(),
                _ => {
                    let mut x = good[..63].to_vec();
                    x.push(good[64]);
                    x
                }
            };
            (claim_line(w, &k.eth, &h(&s)), "wrong-length")
        }
        7 => {
            let mut s = good.clone();
            s[64] = rng.below(256) as u8;
            (claim_line(w, &k.eth, &h(&s)), "random-v")
        }
        8 => {
            let mut t = h(&good);
            match rng.below(4) {
                0 => {
                    let i = rng.below(t.len() as u64) as usize;
                    t.replace_range(i..i + 1, "g");
                }
                1 => {
                    t.pop();
                }
                2 => t = format!("0x{t}"),
                _ => t.push(' '),
            }
            (claim_line(w, &k.eth, &t), "non-hex")
        }
        9 => (claim_line(w, &k.eth, &h(&malleate(&good, true))), "high-s-flipped-v"),
        10 => (claim_line(w, &k.eth, &h(&malleate(&good, false))), "high-s-same-v"),
        11 => {
            let t2 = format!("{} ", sc.template).replace("{wallet}", w);
            (claim_line(w, &k.eth, &h(&sign(k, &t2, false))), "other-message")
        }
        12 => {
            // same 20 bytes, other casing of the address string (eligibility is by string)
            let alt = if k.eth[2..].chars().any(|c| c.is_ascii_uppercase()) { format!("0x{}", k.eth[2..].to_lowercase()) } else { format!("0x{}", k.eth[2..].to_uppercase()) };
            (claim_line(w, &alt, &h(&good)), "other-casing")
        }
        13 => {
            // malformed variants of the address string (some of them are put on the list by the scenario)
            let e = malformed_eth(&k.eth, rng.below(6));
            (claim_line(w, &e, &h(&good)), "malformed-address")
        }
        14 => {
            // signature over the bare keccak of the text (no personal-sign envelope)
            let d = keccak(text.as_bytes());
            let (sig, rid) = k.sk.sign_prehash_recoverable(&d).unwrap();
            let mut s = sig.to_bytes().to_vec();
            s.push(27 + rid.to_byte());
            (claim_line(w, &k.eth, &h(&s)), "no-envelope")
        }
        _ => {
            // wrong v parity only
            let s = {
                let mut x = good.clone();
                x[64] = if x[64] == 27 { 28 } else { 27 };
                x
            };
            (claim_line(w, &k.eth, &h(&s)), "flipped-v")
        }
    }
}
fn malformed_eth(eth: &str, which: u64) -> String {
    match which {
        0 => eth[..41].to_string(),
        1 => format!("{eth}0"),
        2 => format!("00{}", &eth[2..]),
        3 => {
            let mut s = eth.to_string();
            s.replace_range(10..11, "g");
            s
        }
        4 => format!("0X{}", &eth[2..]),
        _ => {
            // 42 bytes with a two-byte UTF-8 character
            let mut s = eth[..40].to_string();
            s.push('é');
            s
        }
    }
}

/// the state class a claim for `eth` meets (harness-side bookkeeping + whitelist queries): listed? below the limit?
/// collection whitelist: none / airdrop contract not an admin / full / open; contract solvent?
fn state_class(sut: &S, eth: &str) -> String {
    let Some(w) = sut.w.as_ref() else { return "-".into() };
    let Some(air) = w.airdrop.as_ref() else { return "noinst".into() };
    let c = w.succ.get(eth).copied().unwrap_or(0);
    let wl = match w.attached_addr() {
        None => "nowl",
        Some(c) => {
            let admins: Vec<String> = w
                .mw
                .query(&c, &json!({"admin_list": {}}))
                .ok()
                .and_then(|v| v["admins"].as_array().map(|a| a.iter().filter_map(|x| x.as_str().map(String::from)).collect()))
                .unwrap_or_default();
            let cfg = w.mw.query(&c, &json!({"config": {}})).ok();
            let full = cfg.map(|c| c["num_members"].as_u64().unwrap_or(0) >= c["member_limit"].as_u64().unwrap_or(0)).unwrap_or(false);
            if !admins.iter().any(|a| a == air) {
                "notadmin"
            } else if full {
                "full"
            } else {
                "open"
            }
        }
    };
    format!(
        "{}{}{}{}",
        if w.listed.contains(eth) { "L" } else { "u" },
        if c < w.limit { "<" } else { "=" },
        wl,
        if w.bal(air) >= w.amount { "$" } else { "!" }
    )
}

fn header(name: &str, nwl: u64, wl: bool, wlimit: u64, wlimit2: u64) -> String {
    format!("case {name} nwl={nwl} wl={} wlimit={wlimit} wlimit2={wlimit2} admin={} now={NOW0} wlstart={WL_START} strict=0", wl as u8, hxs(CREATOR))
}
fn first_word(o: &str) -> &str {
    o.split(' ').next().unwrap_or("")
}

/// the run-wide generator context: amount bounds found on the real code, raw messages for variants found in the schemas
struct Ctx {
    min: u128,
    max: Option<u128>,
    /// the amount used by the scripted worlds (66 STARS unless the bounds exclude it)
    amt: u128,
    unknown_airdrop: Vec<(String, Value)>,
    unknown_immutable: Vec<(String, Value)>,
}

fn run_world_case(ses: &mut Session, sut: &mut S, rng: &mut Rng, cx: &Ctx, idx: u64, n_ops: u64) {
    // ---------- scenario
    let nwl = *rng.pick(&[0u64, 1, 1, 1, 2, 2, 2, 2, 2, 2, 2, 2]);
    let wl = nwl >= 1 && !rng.chance(1, 12);
    let wlimit = *rng.pick(&[1u64, 2, 3, 5, 40, 40, 40, 40, 40, 40, 40, 40]);
    let wlimit2 = *rng.pick(&[1u64, 3, 40, 40, 40]);
    ses.begin_case(sut, &header(&format!("world-{idx}"), nwl, wl, wlimit, wlimit2));
    let nkeys = rng.range(2, 4) as usize;
    let keys: Vec<Key> = (0..nkeys)
        .map(|_| {
            let st = rng.below(6);
            new_key(rng, st)
        })
        .collect();
    let template = if rng.chance(1, 15) { format!("{}{}", "z".repeat(992 - rng.below(3) as usize), "{wallet}") } else { rng.pick(TEMPLATES).to_string() };
    let limit = *rng.pick(&[0u64, 1, 1, 2, 3, 4, 6, 9, 15]);
    let amount = *rng.pick(&[cx.min, cx.min + 1, cx.amt, cx.amt + 57_456_789, cx.amt * 15]);
    let amount = amount.min(cx.max.unwrap_or(u128::MAX));
    // the list: most keys, sometimes other casings, malformed entries, duplicates
    let mut list: Vec<String> = vec![];
    for (i, k) in keys.iter().enumerate() {
        if i == 0 || rng.chance(3, 4) {
            list.push(k.eth.clone());
        }
        if rng.chance(1, 5) {
            list.push(format!("0x{}", k.eth[2..].to_lowercase()));
        }
        if rng.chance(1, 4) {
            list.push(malformed_eth(&k.eth, rng.below(6)));
        }
        if rng.chance(1, 6) {
            list.push(k.eth.clone());
        }
    }
    let zero = format!("0x{}", "0".repeat(40));
    let zero_listed = rng.chance(1, 4);
    if zero_listed {
        list.push(zero.clone());
    }
    rng.shuffle(&mut list);
    let claims_funded = if rng.chance(1, 4) { rng.range(0, 3) } else { rng.range(3, 30) } as u128;
    let short = if rng.chance(1, 4) { 1 } else { 0 };
    let funding = FEE + (amount * claims_funded).saturating_sub(short);
    ses.step(sut, &format!("fund to={} amt={}", hxs(INST_SENDER), funding + 5));
    // ---------- instantiate (sometimes first a faulty attempt)
    let inst = |tpl: &str, amount: u128, funds: &str, addrs: &[String], limit: u64| {
        format!("inst sender={} funds={funds} amount={amount} limit={limit} tpl={} addrs={}", hxs(INST_SENDER), hxs(tpl), hx_list(addrs))
    };
    if rng.chance(1, 3) {
        let f = rng.below(12);
        let l = match f {
            0 => inst(&template, cx.min.saturating_sub(1), &format!("0:{funding}"), &list, limit),
            1 => inst(&template, cx.max.map(|m| m + 1).unwrap_or(0), &format!("0:{funding}"), &list, limit),
            2 => inst(&template.replace("{wallet}", "{wallet"), amount, &format!("0:{funding}"), &list, limit),
            3 => inst(&format!("{}{}", "z".repeat(993), "{wallet}"), amount, &format!("0:{funding}"), &list, limit),
            4 => inst(&template, amount, &format!("0:{}", FEE - 1), &list, limit),
            5 => inst(&template, amount, "-", &list, limit),
            6 => inst(&template, amount, &format!("1:{funding}"), &list, limit),
            7 => inst(&template, amount, &format!("0:{FEE},1:5"), &list, limit),
            8 => inst(&template, amount, &format!("0:{funding}"), &[], limit),
            9 => inst(&template, amount, &format!("0:{}", funding + 6), &list, limit),
            10 => inst("", amount, &format!("0:{funding}"), &list, limit),
            _ => inst(&template, 0, &format!("0:{funding}"), &list, limit),
        };
        let o = ses.step(sut, &l);
        ses.mark(format!("inst:fault{f}:{}", first_word(&o)));
    }
    // claims and foreign messages before the contract exists
    if rng.chance(1, 10) {
        let sc0 = Scn { keys: keys.clone(), template: template.clone(), limit, live: false };
        let (l, _) = gen_claim(rng, &sc0, 0, 0, 0);
        ses.step(sut, &l);
        ses.step(sut, &format!("q_elig eth={}", hxs(&keys[0].eth)));
        ses.step(sut, &raw_line("exec", "airdrop", "acct00001", &json!({"withdraw": {}})));
        ses.mark("claim:before-inst");
    }
    let live = sut.w.as_ref().map(|w| w.airdrop.is_some()).unwrap_or(false);
    if !live {
        let o = ses.step(sut, &inst(&template, amount, &format!("0:{funding}"), &list, limit));
        ses.mark(format!("inst:valid:{}:tpl{}:lim{limit}", first_word(&o), template.len().min(1000) / 500));
    }
    let live = sut.w.as_ref().map(|w| w.airdrop.is_some()).unwrap_or(false);
    let sc = Scn { keys, template, limit, live };
    if !sc.live {
        ses.mark("world:not-live");
        ses.end_case();
        return;
    }
    let me = sut.w.as_ref().unwrap().airdrop.clone().unwrap();
    // make the airdrop contract an admin of the attached collection whitelist (as the repo's test does) — mostly
    let admin_mode = rng.below(14);
    if admin_mode > 0 {
        ses.step(sut, &format!("cwl_admins sender={} admins={}", hxs(CREATOR), hx_list(&[CREATOR.to_string(), me.clone()])));
    }
    for k in &sc.keys {
        ses.step(sut, &format!("q_elig eth={}", hxs(&k.eth)));
    }
    ses.step(sut, "q_minter");
    ses.step(sut, "q_imm");
    // ---------- operations
    let times = [WL_START - 1, WL_START, WL_START + 1, WL_END - 1, WL_END, WL_END + 1, MINTER_START - 1, MINTER_START, MINTER_START + 1, NOW0 + 7];
    for _ in 0..n_ops {
        let r = rng.below(100);
        if r < 4 {
            // an address nobody holds a key for, with bytes nobody signed
            let mut g: Vec<u8> = match rng.below(3) {
                0 => vec![0u8; 64],
                1 => vec![0xff; 64],
                _ => (0..64).map(|_| rng.below(256) as u8).collect(),
            };
            g.push(*rng.pick(&[0u8, 1, 27, 28]));
            let w = *rng.pick(WALLETS);
            let o = ses.step(sut, &claim_line(w, &zero, &hex::encode(&g)));
            ses.mark(format!("claim:zero-address-garbage:{}:{}", if zero_listed { "listed" } else { "unlisted" }, first_word(&o)));
        } else if r < 70 {
            let ki = rng.below(sc.keys.len() as u64) as usize;
            let wi = rng.below(WALLETS.len() as u64) as usize;
            let kind = if rng.chance(11, 20) { rng.below(3) } else { 3 + rng.below(13) };
            let as_self = rng.chance(1, 40);
            let (l, label) = gen_claim_as(rng, &sc, kind, ki, wi, if as_self { Some(me.as_str()) } else { None });
            let eth = kv_s(&l, "eth").unwrap();
            let cls = state_class(sut, &eth);
            let o = ses.step(sut, &l);
            ses.count(&format!("claim-kind:{label}:{}", first_word(&o)));
            if kind < 3 {
                ses.count(&format!("valid-claim-meets:{cls}:{}", first_word(&o)));
            }
            ses.mark(format!("claim:{label}:{}:{cls}{}", first_word(&o), if as_self { ":as-contract" } else { "" }));
        } else if r < 75 {
            let amt = *rng.pick(&[1u128, sc_amount(sut), sc_amount(sut) - 1, 5 * sc_amount(sut)]);
            ses.step(sut, &format!("fund to={} amt={amt}", hxs(&me)));
            ses.mark("fund:self");
        } else if r < 80 {
            let who = *rng.pick(WALLETS);
            let sender = if rng.chance(4, 5) { CREATOR } else { "buyer" };
            let o = ses.step(sut, &format!("cwl_add sender={} who={}", hxs(sender), hxs(who)));
            ses.mark(format!("cwl_add:{}:{}:{}", sender, first_word(&o), o.split(" ## ").nth(1).unwrap_or("").split(' ').next().unwrap_or("")));
        } else if r < 83 {
            let who = *rng.pick(WALLETS);
            let o = ses.step(sut, &format!("cwl_rm sender={} who={}", hxs(CREATOR), hxs(who)));
            ses.mark(format!("cwl_rm:{}", o.split(" ## ").nth(1).unwrap_or("").split(' ').next().unwrap_or("")));
        } else if r < 86 {
            let with_me = rng.chance(5, 6);
            let sender = if rng.chance(5, 6) { CREATOR } else { "buyer" };
            let mut admins = vec![CREATOR.to_string()];
            if with_me {
                admins.push(me.clone());
            }
            let o = ses.step(sut, &format!("cwl_admins sender={} admins={}", hxs(sender), hx_list(&admins)));
            ses.mark(format!("cwl_admins:{with_me}:{}", o.split(" ## ").nth(1).unwrap_or("")));
        } else if r < 87 {
            let o = ses.step(sut, &format!("cwl_freeze sender={}", hxs(if rng.chance(3, 4) { CREATOR } else { "buyer" })));
            ses.mark(format!("cwl_freeze:{}", o.split(" ## ").nth(1).unwrap_or("")));
        } else if r < 91 {
            // the minter admin swaps the collection whitelist between two claims
            let id = rng.range(1, 2);
            let o = ses.step(sut, &format!("set_wl id={id}"));
            ses.mark(format!("set_wl:to{id}:{o}"));
            if rng.chance(3, 4) {
                ses.step(sut, &format!("cwl_admins sender={} admins={}", hxs(CREATOR), hx_list(&[CREATOR.to_string(), me.clone()])));
            }
        } else if r < 93 {
            let t = *rng.pick(&times);
            ses.step(sut, &format!("time t={t}"));
            ses.mark(format!("time:{}", if t < WL_START { "before-wl" } else if t < WL_END { "wl-active" } else if t < MINTER_START { "wl-ended" } else { "minting" }));
        } else if r < 98 {
            // anything but ClaimAirdrop, to the airdrop contract or its list
            let target = if rng.chance(1, 2) { "airdrop" } else { "immutable" };
            let who = *rng.pick(&["acct00001", INST_SENDER, CREATOR, "SELF"]);
            let who = if who == "SELF" { me.as_str() } else { who };
            let listed = sc.keys[0].eth.clone();
            let mut pool = hypothetical_msgs(target, who, &listed);
            pool.extend((if target == "airdrop" { &cx.unknown_airdrop } else { &cx.unknown_immutable }).iter().map(|(_, m)| m.clone()));
            let msg = rng.pick(&pool).clone();
            let kind = *rng.pick(&["exec", "exec", "exec", "sudo", "migrate"]);
            let o = ses.step(sut, &raw_line(kind, target, who, &msg));
            ses.mark(format!("exec_raw:{target}:{kind}:{}", o.split(" ## ").nth(1).unwrap_or("")));
        } else {
            let k = rng.pick(&sc.keys).clone();
            let e = if rng.chance(1, 2) { k.eth.clone() } else { malformed_eth(&k.eth, rng.below(6)) };
            ses.step(sut, &format!("q_elig eth={}", hxs(&e)));
        }
    }
    let _ = sc.limit;
    ses.step(sut, "q_imm");
    ses.end_case();
}
fn sc_amount(sut: &S) -> u128 {
    sut.w.as_ref().map(|w| w.amount).unwrap_or(10_000_000)
}

/// a fixed, fully valid deployment: `nkeys` listed keys, airdrop contract is whitelist admin, funded for `funded` claims
fn std_world(ses: &mut Session, sut: &mut S, rng: &mut Rng, cx: &Ctx, name: &str, template: &str, limit: u64, nkeys: usize, funded: u128, wlimit: u64) -> (Scn, String) {
    let keys: Vec<Key> = (0..nkeys).map(|_| new_key(rng, 5)).collect();
    std_world_with(ses, sut, cx, keys, name, template, limit, funded, wlimit, 1)
}
fn std_world_with(ses: &mut Session, sut: &mut S, cx: &Ctx, keys: Vec<Key>, name: &str, template: &str, limit: u64, funded: u128, wlimit: u64, nwl: u64) -> (Scn, String) {
    let list: Vec<String> = keys.iter().map(|k| k.eth.clone()).collect();
    std_world_list(ses, sut, cx, keys, list, name, template, limit, funded, wlimit, nwl)
}
fn std_world_list(ses: &mut Session, sut: &mut S, cx: &Ctx, keys: Vec<Key>, list: Vec<String>, name: &str, template: &str, limit: u64, funded: u128, wlimit: u64, nwl: u64) -> (Scn, String) {
    ses.begin_case(sut, &header(name, nwl, true, wlimit, wlimit));
    let amount = cx.amt;
    ses.step(sut, &format!("fund to={} amt={}", hxs(INST_SENDER), FEE + amount * funded));
    ses.step(
        sut,
        &format!("inst sender={} funds=0:{} amount={amount} limit={limit} tpl={} addrs={}", hxs(INST_SENDER), FEE + amount * funded, hxs(template), hx_list(&list)),
    );
    let me = sut.w.as_ref().unwrap().airdrop.clone().expect("std world instantiates");
    ses.step(sut, &format!("cwl_admins sender={} admins={}", hxs(CREATOR), hx_list(&[CREATOR.to_string(), me.clone()])));
    (Scn { keys, template: template.to_string(), limit, live: true }, me)
}
fn signed(k: &Key, tpl: &str, w: &str) -> String {
    hex::encode(sign(k, &tpl.replace("{wallet}", w), false))
}

// ------------------------------------------------------------------------------------------------ secp256k1 cross-validation

/// class label of a `verify` output (without the model-agreement bit `rc=`, which is always 1 on this side)
fn vcls(o: &str) -> String {
    o.replace(" rc=1", "").replace(' ', "")
}
fn secp_line(hash: &[u8], sig: &[u8], pk: Option<&[u8]>) -> String {
    format!("secp hash={} sig={} pk={}", hx(hash), hx(sig), pk.map(hx).unwrap_or_else(|| "-".into()))
}
/// `rec-ok|rec-err`, `ver…`, `vp…` of a `secp` output line (class labels)
fn secp_class(o: &str) -> String {
    if o == "err" {
        return "empty".into();
    }
    let rec = if kv(o, "rec") == Some("err") { "rec-err" } else { "rec-ok" };
    format!("{rec}:ver{}:vp{}", kv(o, "ver").unwrap_or("?"), kv(o, "vp").unwrap_or("?"))
}
fn be32(x: &k256::U256) -> Vec<u8> {
    use k256::elliptic_curve::bigint::Encoding;
    x.to_be_bytes().to_vec()
}
/// Function-level cross-validation of the Lean secp256k1 (`LP.Secp`) against `deps.api`: hand-made edge cases, then every
/// (digest, signature) pair that went through a `claim` / `verify` op of this run.
fn secp_stream(ses: &mut Session, sut: &mut S, rng: &mut Rng) {
    use k256::elliptic_curve::Curve;
    ses.require("secp:edge:valid-v0or1:rec-ok:ver1:vp1");
    ses.require("secp:edge:identity-key:rec-err");
    ses.require("secp:edge:pk-compressed:rec-ok:ver1:vp1");
    ses.require("secp:edge:pk-other-key:rec-ok:ver1:vp0");
    ses.require("secp:edge:r-not-on-curve:rec-err");
    ses.require("secp:edge:high-s:rec-ok:ver1:vp1");
    ses.require("secp:stream:rec-ok:ver1");
    ses.require("secp:stream:rec-err");
    let n = k256::Secp256k1::ORDER;
    let one = k256::U256::ONE;
    let p_bytes = unhex(b"fffffffffffffffffffffffffffffffffffffffffffffffffffffffefffffc2f").unwrap();
    let n_bytes = be32(&n);
    let max_bytes = vec![0xffu8; 32];
    let zero = vec![0u8; 32];
    let mut one_b = vec![0u8; 32];
    one_b[31] = 1;
    let n_m1 = be32(&n.wrapping_sub(&one));
    let n_p1 = be32(&n.wrapping_add(&one));
    let half = n.shr_vartime(1); // (n − 1) / 2: the largest low s
    let half_b = be32(&half);
    let half_p1 = be32(&half.wrapping_add(&one));
    let mut p_m1 = p_bytes.clone();
    p_m1[31] -= 1;

    ses.begin_case(sut, &header("secp-edge", 0, false, 0, 0));
    let step = |ses: &mut Session, sut: &mut S, label: &str, hash: &[u8], sig: &[u8], pk: Option<&[u8]>| -> String {
        let o = ses.step(sut, &secp_line(hash, sig, pk));
        ses.mark(format!("secp:edge:{label}:{}", secp_class(&o)));
        o
    };
    let k = new_key(rng, 2);
    let k2 = new_key(rng, 2);
    let d = personal_digest("edge").to_vec();
    let good = sign(&k, "edge", true);
    let pk65 = k.sk.verifying_key().to_encoded_point(false).as_bytes().to_vec();
    let pk33 = k.sk.verifying_key().to_encoded_point(true).as_bytes().to_vec();
    let other65 = k2.sk.verifying_key().to_encoded_point(false).as_bytes().to_vec();
    let with_v = |sig: &[u8], v: u8| {
        let mut x = sig[..64].to_vec();
        x.push(v);
        x
    };
    let with_r = |sig: &[u8], r: &[u8]| {
        let mut x = r.to_vec();
        x.extend_from_slice(&sig[32..]);
        x
    };
    let with_s = |sig: &[u8], sv: &[u8]| {
        let mut x = sig[..32].to_vec();
        x.extend_from_slice(sv);
        x.push(sig[64]);
        x
    };
    step(ses, sut, "valid-v0or1", &d, &good, Some(&pk65));
    step(ses, sut, "pk-compressed", &d, &good, Some(&pk33));
    step(ses, sut, "pk-other-key", &d, &good, Some(&other65));
    // every interesting recovery byte (2, 3 = "x reduced" ids k256 knows but cosmwasm refuses; 27/28 mapped by the contract)
    for v in [0u8, 1, 2, 3, 4, 26, 27, 28, 29, 30, 31, 35, 36, 128, 255] {
        step(ses, sut, &format!("v{v}"), &d, &with_v(&good, v), Some(&pk65));
    }
    // the other encoding (r, n − s): same key with the flipped parity, ANOTHER key with the same parity
    let hi = malleate(&good, true);
    let hi_same_v = malleate(&good, false);
    let (hi, hi_same_v) = if good[32] < 0x80 { (hi, hi_same_v) } else { (good.clone(), with_v(&good, good[64] ^ 1)) };
    step(ses, sut, "high-s", &d, &hi, Some(&pk65));
    step(ses, sut, "high-s-same-v", &d, &hi_same_v, Some(&pk65));
    // scalar range
    for (label, r) in [("r0", &zero), ("r1", &one_b), ("r-n-1", &n_m1), ("r-n", &n_bytes), ("r-n+1", &n_p1), ("r-p-1", &p_m1), ("r-p", &p_bytes), ("r-max", &max_bytes)] {
        step(ses, sut, label, &d, &with_r(&good, r), Some(&pk65));
        step(ses, sut, label, &d, &with_v(&with_r(&good, r), good[64] ^ 1), None);
    }
    for (label, sv) in [("s0", &zero), ("s1", &one_b), ("s-half", &half_b), ("s-half+1", &half_p1), ("s-n-1", &n_m1), ("s-n", &n_bytes), ("s-n+1", &n_p1), ("s-max", &max_bytes)] {
        step(ses, sut, label, &d, &with_s(&good, sv), Some(&pk65));
        step(ses, sut, label, &d, &with_v(&with_s(&good, sv), good[64] ^ 1), None);
    }
    // small r: about half of them are not abscissas of curve points
    for r in 1u8..=40 {
        let mut rb = vec![0u8; 32];
        rb[31] = r;
        let sig = with_r(&good, &rb);
        let o = ses.step(sut, &secp_line(&d, &sig, None));
        ses.mark(format!("secp:edge:{}:{}", if kv(&o, "rec") == Some("err") { "r-not-on-curve" } else { "r-small-on-curve" }, secp_class(&o)));
    }
    // the recovered key would be the identity: R = G, s = z  ⇒  Q = r⁻¹(s·R − z·G) = O
    {
        let g = AffinePoint::GENERATOR.to_encoded_point(false);
        let gx = g.x().unwrap().to_vec();
        let g_odd = g.y().unwrap()[31] & 1;
        for text in ["identity-1", "identity-2", "identity-3"] {
            let h = personal_digest(text);
            let z = <Scalar as Reduce<U256>>::reduce_bytes(FieldBytes::from_slice(&h));
            let mut sig = gx.clone();
            sig.extend_from_slice(&z.to_repr());
            sig.push(g_odd);
            step(ses, sut, "identity-key", &h, &sig, Some(&pk65));
            step(ses, sut, "identity-key-other-parity", &h, &with_v(&sig, g_odd ^ 1), None);
        }
    }
    // lengths of the signature and of the hash
    let mut long = good.clone();
    long.extend_from_slice(&good);
    for l in [0usize, 1, 2, 32, 33, 63, 64, 65, 66, 129, 130] {
        let mut x = long[..l.min(long.len())].to_vec();
        if l >= 2 {
            let last = x.len() - 1;
            x[last] = good[64]; // a valid recovery byte, so that the length check of `r ‖ s` decides
        }
        step(ses, sut, &format!("sig-len{l}"), &d, &x, Some(&pk65));
    }
    for l in [0usize, 1, 31, 33, 64] {
        let mut h = d.clone();
        h.resize(l, 0xab);
        step(ses, sut, &format!("hash-len{l}"), &h, &good, Some(&pk65));
    }
    // hash values around the group order (z = hash mod n)
    for (label, h) in [("hash-0", &zero), ("hash-1", &one_b), ("hash-n-1", &n_m1), ("hash-n", &n_bytes), ("hash-n+1", &n_p1), ("hash-max", &max_bytes)] {
        step(ses, sut, label, h, &good, Some(&pk65));
        // … and a genuine signature over such a digest
        if let Ok((sg, rid)) = k.sk.sign_prehash_recoverable(h) {
            let mut x = sg.to_bytes().to_vec();
            x.push(rid.to_byte() + 27);
            step(ses, sut, &format!("{label}-signed"), h, &x, Some(&pk33));
        }
    }
    // public-key encodings
    let mut off_curve = pk65.clone();
    off_curve[64] ^= 1;
    let mut tag5 = pk65.clone();
    tag5[0] = 5;
    let mut tag0 = pk65.clone();
    tag0[0] = 0;
    let mut neg33 = pk33.clone();
    neg33[0] ^= 1; // 02 ↔ 03: the opposite point — ECDSA cannot tell them apart by x alone? it can: u2·(−Q) differs
    let mut tag4_33 = pk33.clone();
    tag4_33[0] = 4;
    let mut tag2_65 = pk65.clone();
    tag2_65[0] = 2;
    let mut x_ge_p = vec![2u8];
    x_ge_p.extend_from_slice(&p_bytes);
    let mut x_ge_p65 = vec![4u8];
    x_ge_p65.extend_from_slice(&p_bytes);
    x_ge_p65.extend_from_slice(&pk65[33..]);
    let mut y_plus_p = vec![4u8]; // (x, y) with y ≥ p is not canonical
    y_plus_p.extend_from_slice(&pk65[1..33]);
    y_plus_p.extend_from_slice(&max_bytes);
    for (label, pk) in [
        ("pk-off-curve", off_curve),
        ("pk-tag5", tag5),
        ("pk-tag0", tag0),
        ("pk-opposite-point", neg33),
        ("pk-tag4-33bytes", tag4_33),
        ("pk-tag2-65bytes", tag2_65),
        ("pk-x-ge-p", x_ge_p),
        ("pk-x-ge-p-65", x_ge_p65),
        ("pk-y-ge-p", y_plus_p),
        ("pk-empty", vec![]),
        ("pk-identity", vec![0u8]),
        ("pk-64bytes", pk65[..64].to_vec()),
        ("pk-66bytes", [&pk65[..], &[0u8][..]].concat()),
        ("pk-32bytes", pk33[..32].to_vec()),
        ("pk-34bytes", [&pk33[..], &[0u8][..]].concat()),
    ] {
        step(ses, sut, label, &d, &good, Some(&pk));
    }
    for x in 0u8..=16 {
        // compressed keys with tiny abscissas: decompression fails for the non-residues
        let mut pk = vec![2u8 + (x & 1)];
        pk.extend_from_slice(&[0u8; 31]);
        pk.push(x);
        step(ses, sut, "pk-small-x", &d, &good, Some(&pk));
    }
    ses.end_case();

    // every (digest, signature) pair this run put through a claim / verify op
    let pks: Vec<Vec<u8>> = PUBKEYS.with(|m| m.borrow().clone());
    let all: Vec<(Vec<u8>, Vec<u8>)> = sut.seen.iter().cloned().collect();
    // In Lean a line costs ≈ 3–4 double scalar multiplications when a key is recovered, next to nothing otherwise: every pair
    // that does not recover (wrong length, recovery byte, range, not on the curve) is replayed; of the recovering ones a
    // sample (every k-th in the order of the digests, i.e. pseudo-random), sized to keep the quick tier within its time budget.
    let recovers = |(h, sg): &(Vec<u8>, Vec<u8>)| -> bool {
        (|| {
            let (v, rs) = sg.split_last()?;
            let h32: &[u8; 32] = h.as_slice().try_into().ok()?;
            recover_manual(h32, rs, recid_of(*v)?)
        })()
        .is_some()
    };
    let (heavy, light): (Vec<&(Vec<u8>, Vec<u8>)>, Vec<&(Vec<u8>, Vec<u8>)>) = all.iter().partition(|x| recovers(x));
    let cap = if std::env::var("C16_SECP_ALL").is_ok() { usize::MAX } else { ses.scale(600, 8_000) as usize };
    let stride = ((heavy.len() + cap - 1) / cap.max(1)).max(1);
    let mut picked: Vec<&(Vec<u8>, Vec<u8>)> = heavy.iter().step_by(stride).cloned().collect();
    let n_heavy = picked.len();
    picked.extend(light.iter().cloned());
    ses.note(format!(
        "secp stream: {} distinct (digest, signature) pairs went through claim / verify ops; replayed as `secp` lines: {} of the {} from which a key is recovered (every {}th), all {} others; claim lines: {:?} (cheap: always decided with realCrypto too; decided with realCrypto incl. the full secp256k1 computation; sampled out)",
        all.len(),
        n_heavy,
        heavy.len(),
        stride,
        light.len(),
        RCE.with(|c| c.get())
    ));
    for (ci, chunk) in picked.chunks(200).enumerate() {
        ses.begin_case(sut, &header(&format!("secp-stream-{ci}"), 0, false, 0, 0));
        for (i, (h, sg)) in chunk.iter().enumerate() {
            // `pk`: none / one of the generated keys (33 or 65 bytes) / the compressed form of the key the independent route recovers
            let pk: Option<Vec<u8>> = match (ci + i) % 4 {
                0 if !pks.is_empty() => Some(pks[(ci * 7 + i) % pks.len()].clone()),
                1 => sg.split_last().and_then(|(v, rs)| {
                    let h32: &[u8; 32] = h.as_slice().try_into().ok()?;
                    let key = recover_manual(h32, rs, recid_of(*v)?)?;
                    let ep = k256::EncodedPoint::from_bytes(&key).ok()?;
                    let q = Option::<AffinePoint>::from(<AffinePoint as k256::elliptic_curve::sec1::FromEncodedPoint<k256::Secp256k1>>::from_encoded_point(&ep))?;
                    Some(q.to_encoded_point(true).as_bytes().to_vec())
                }),
                _ => None,
            };
            let o = ses.step(sut, &secp_line(h, sg, pk.as_deref()));
            let c = secp_class(&o);
            ses.count(&format!("secp-stream:{c}"));
            ses.mark(format!("secp:stream:{c}:len{}", sg.len().min(70)));
        }
        ses.end_case();
    }
}

fn main() {
    let mut ses = Session::new("C16");
    let mut sut = S { w: None, header: String::new(), log: vec![], pending: None, seen: BTreeSet::new() };
    if ses.maybe_replay(&mut sut) {
        ses.finish(&mut sut);
    }
    let mut rng = ses.rng.fork();
    // the literal per-ADDRESS reading of the limit clause is violated by the code when a list names one address under two
    // spellings. Once that is listed in known_findings.json (or with C16_STRICT=1) the dedicated two-spellings case below
    // runs with `strict=1`, so every run reports it (one KNOWN-FINDING line). Everything else keeps `strict=0`.
    let strict_listed = std::env::var("C16_STRICT").map(|v| v == "1").unwrap_or(false)
        || load_known("C16").iter().any(|k| k.status == "finding" && k.key.ends_with("limit-exceeded-per-address-listed-under-two-spellings"));

    // ------------------------------------------------------------------ 0. what the code is, found at run time
    // amount bounds (private constants): bisection on the real instantiate
    let (min, max) = discover_amount_bounds();
    let amt = 66_000_000u128.max(min).min(max.unwrap_or(u128::MAX));
    // message surface: every execute variant in the crates' JSON schemas that this file has no named op for is sent as raw
    // JSON (arguments filled from the schema) under the `exec_raw` monitors
    let who = "acct00001";
    let cx = Ctx {
        min,
        max,
        amt,
        unknown_airdrop: unknown_variant_msgs(&airdrop_exec_schema(), &KNOWN_AIRDROP_EXEC, who, PROBE),
        unknown_immutable: unknown_variant_msgs(&immutable_exec_schema(), &KNOWN_IMMUTABLE_EXEC, who, PROBE),
    };
    ses.note(format!("airdrop_amount bounds found on the real instantiate: min {min}, max {:?}", max));
    for (t, v, known) in [("airdrop", schema_variants(&airdrop_exec_schema()), &KNOWN_AIRDROP_EXEC[..]), ("immutable", schema_variants(&immutable_exec_schema()), &KNOWN_IMMUTABLE_EXEC[..])] {
        let names: Vec<String> = v.iter().map(|x| x.0.clone()).collect();
        ses.note(format!("execute variants of the {t} contract (schema): {:?}", names));
        for n in &names {
            ses.mark(format!("surface:{t}:{}:{n}", if known.contains(&n.as_str()) { "known" } else { "unknown" }));
        }
        for k in known {
            if !names.iter().any(|n| n == k) {
                ses.note(format!("execute variant `{k}` of the {t} contract is no longer in the schema"));
            }
        }
    }
    // coverage floor: without these the run would be vacuous
    for c in [
        "surface:airdrop:known:claim_airdrop",
        "verify:valid:ok1",
        "claim:valid:ok:L<open$",
        "claim:replay-other-wallet:err",
        "claim:other-key:err",
        "cross-wallet-replay:lower-case-template:refused",
        "unowned:zero-address-listed:inst-ok",
        "unowned:all-garbage-signature-claims-refused",
        "claim:v-sweep:exactly-the-two-encodings-of-the-right-parity",
        "claim:vother:err",
        "limit2:round1:ok",
        "limit2:round2:err",
        "inst:amount:min-1:err",
        "inst:amount:min:ok",
        "inst:tpl:1000:ok",
        "inst:tpl:1001:err",
        "exec_raw:airdrop:exec:unchanged",
        "exec_raw:immutable:exec:unchanged",
        "exec_raw:airdrop:migrate:unchanged",
        "swap:claim-lands-on-new-whitelist",
        "swap:back:claim-ok",
        "time:wl-start:claim-ok",
        "time:wl-end:claim-ok",
        "admins-claim:ok",
        "case-variants:per-address-over-limit",
        "case-variants:literal-clause-counterexample-reproduced",
        "big-list:first:ok",
        "big-list:last:ok",
        "scenario:short-and-full",
        "orders:all-sequences",
    ] {
        ses.require(c);
    }
    if max.is_some() {
        ses.require("inst:amount:max:ok");
        ses.require("inst:amount:max+1:err");
    }

    // ------------------------------------------------------------------ 1. function level
    ses.begin_case(&mut sut, &header("functions", 0, false, 0, 0));
    // str::replace / contains on adversarial templates × adversarial wallets
    let mut tpls: Vec<String> = TEMPLATES.iter().map(|s| s.to_string()).collect();
    tpls.extend(["", "{", "}", "{wallet", "wallet}", "{wallet}{", "{{{wallet}}}", "{wallet}{wallet}{wallet}", "{walle{wallet}t}", "é{wallet}é", "{wallet}\u{1F600}{wallet}"].iter().map(|s| s.to_string()));
    let n_rand_tpl = ses.scale(300, 20_000);
    for _ in 0..n_rand_tpl {
        // random strings over a tiny alphabet that makes partial and overlapping matches likely
        let n = rng.below(24);
        let mut s = String::new();
        for _ in 0..n {
            match rng.below(8) {
                0 | 1 => s.push_str("{wallet}"),
                2 => s.push_str("{wallet"),
                3 => s.push_str("wallet}"),
                4 => s.push('{'),
                5 => s.push('}'),
                6 => s.push_str("{w"),
                _ => s.push('a'),
            }
        }
        tpls.push(s);
    }
    for (i, t) in tpls.iter().enumerate() {
        ses.step(&mut sut, &format!("contains tpl={}", hxs(t)));
        for w in [WALLETS[i % WALLETS.len()], WALLETS[(i * 7 + 3) % WALLETS.len()], ""] {
            ses.step(&mut sut, &format!("repl tpl={} w={}", hxs(t), hxs(w)));
        }
        ses.mark(format!("repl:occ{}:len{}", t.matches("{wallet}").count().min(4), t.len().min(64) / 16));
    }
    // generic pattern replace: overlapping occurrences
    for _ in 0..ses.scale(300, 20_000) {
        let alpha = ["a", "b", "ab", "aa"];
        let pat: String = (0..rng.range(1, 3)).map(|_| *rng.pick(&alpha)).collect();
        let s: String = (0..rng.below(12)).map(|_| *rng.pick(&alpha)).collect();
        let rep: String = (0..rng.below(3)).map(|_| *rng.pick(&["a", "b", "c", "ab"])).collect();
        ses.step(&mut sut, &format!("replp pat={} rep={} s={}", hxs(&pat), hxs(&rep), hxs(&s)));
    }
    ses.mark("replp:overlap");
    // Keccak-256 (Lean implementation vs sha3) incl. the rate boundaries 135/136/137, 271/272/273
    for n in (0..300usize).chain([407, 408, 409, 1000, 1090]) {
        let d: Vec<u8> = (0..n).map(|_| rng.below(256) as u8).collect();
        ses.step(&mut sut, &format!("keccak d={}", hx(&d)));
        ses.mark(format!("keccak:blocks{}:{}", n / 136, if n % 136 == 135 { "pad1" } else if n % 136 == 0 { "full" } else { "mid" }));
    }
    // envelope: decimal length boundaries
    for n in [0usize, 1, 9, 10, 11, 99, 100, 101, 999, 1000, 1001, 1090] {
        let t: String = (0..n).map(|_| (b'a' + rng.below(26) as u8) as char).collect();
        ses.step(&mut sut, &format!("envelope text={}", hxs(&t)));
        ses.mark(format!("envelope:digits{}", n.to_string().len()));
    }
    ses.step(&mut sut, &format!("envelope text={}", hxs("héllo ✓")));
    // hex::decode
    for s in ["", "0", "00", "0g", "g0", "abCDef", "ABCDEF0123456789", "0x00", " 00", "00 ", "é0", "0é", "000"] {
        ses.step(&mut sut, &format!("hexdec s={}", hxs(s)));
    }
    ses.mark("hexdec:edge");
    // decode_address
    let k0 = new_key(&mut rng, 5);
    let mut addrs: Vec<String> = vec![k0.eth.clone(), k0.eth.to_uppercase(), format!("0x{}", k0.eth[2..].to_uppercase()), format!("0X{}", &k0.eth[2..]), String::new(), "0x".into()];
    for i in 0..6 {
        addrs.push(malformed_eth(&k0.eth, i));
    }
    addrs.push(format!("{}  ", &k0.eth[..40]));
    addrs.push(format!("0x{}", "0".repeat(40)));
    addrs.push(format!("0x{}", "f".repeat(40)));
    addrs.push(format!("0x{}", "G".repeat(40)));
    addrs.push("0".repeat(42));
    for l in 38..46 {
        addrs.push(format!("0x{}", "a".repeat(l)));
    }
    for a in &addrs {
        let o = ses.step(&mut sut, &format!("decode a={}", hxs(a)));
        ses.mark(format!("decode:len{}:{}", a.len().min(50), o.split(' ').next().unwrap_or("")));
    }
    // get_recovery_param: every byte
    for v in 0..=255u64 {
        let o = ses.step(&mut sut, &format!("recparam v={v}"));
        ses.mark(format!("recparam:{}", if o == "err" { "err".to_string() } else { format!("ok{v}") }));
    }
    // verify_ethereum_text: every v, every length, bit flips, other signer, other message
    let nk = ses.scale(3, 40);
    for _ in 0..nk {
        let k = new_key(&mut rng, 5);
        let k2 = new_key(&mut rng, 5);
        let text: String = { let n = rng.below(80); (0..n).map(|_| (b' ' + rng.below(90) as u8) as char).collect() };
        let good = sign(&k, &text, false);
        let vline = |text: &str, sig: &[u8], signer: &str| format!("verify text={} sig={} signer={}", hxs(text), hx(sig), hxs(signer));
        let o = ses.step(&mut sut, &vline(&text, &good, &k.eth));
        assert_eq!(vcls(&o), "ok1", "a freshly made signature must verify");
        ses.mark("verify:valid:ok1");
        for v in 0..=255u8 {
            let mut s = good.clone();
            s[64] = v;
            let o = ses.step(&mut sut, &vline(&text, &s, &k.eth));
            ses.mark(format!("verify:v{}:{}", if recid_of(v).is_some() { v.to_string() } else { "other".into() }, vcls(&o)));
        }
        for len in 0..=130usize {
            let s: Vec<u8> = (0..len).map(|i| if i < 65 { good[i] } else { 27 }).collect();
            let mut s2 = s.clone();
            if len > 0 {
                *s2.last_mut().unwrap() = good[64];
            }
            for x in [s, s2] {
                let o = ses.step(&mut sut, &vline(&text, &x, &k.eth));
                ses.mark(format!("verify:len{}:{}", if len == 65 { "65" } else if len < 65 { "short" } else { "long" }, vcls(&o)));
            }
        }
        for bit in 0..(64 * 8) {
            if bit % ses.scale(7, 1) as usize != 0 {
                continue;
            }
            let mut s = good.clone();
            s[bit / 8] ^= 1 << (bit % 8);
            let o = ses.step(&mut sut, &vline(&text, &s, &k.eth));
            ses.mark(format!("verify:bitflip:{}", vcls(&o)));
        }
        let o = ses.step(&mut sut, &vline(&text, &good, &k2.eth));
        ses.mark(format!("verify:other-signer:{}", vcls(&o)));
        let o = ses.step(&mut sut, &vline(&format!("{text}."), &good, &k.eth));
        ses.mark(format!("verify:other-message:{}", vcls(&o)));
        let o = ses.step(&mut sut, &vline(&text, &sign(&k2, &text, false), &k.eth));
        ses.mark(format!("verify:other-key:{}", vcls(&o)));
        let o = ses.step(&mut sut, &vline(&text, &malleate(&good, true), &k.eth));
        ses.mark(format!("verify:high-s-flipped-v:{}", vcls(&o)));
        let o = ses.step(&mut sut, &vline(&text, &malleate(&good, false), &k.eth));
        ses.mark(format!("verify:high-s-same-v:{}", vcls(&o)));
        let o = ses.step(&mut sut, &vline(&text, &sign(&k, &text, true), &k.eth));
        ses.mark(format!("verify:raw-v:{}", vcls(&o)));
        let o = ses.step(&mut sut, &vline(&text, &good, &format!("0x{}", k.eth[2..].to_uppercase())));
        ses.mark(format!("verify:upper-signer:{}", vcls(&o)));
        for i in 0..6 {
            let o = ses.step(&mut sut, &vline(&text, &good, &malformed_eth(&k.eth, i)));
            ses.mark(format!("verify:malformed-signer{i}:{}", vcls(&o)));
        }
        // r or s out of range / zero
        for (r0, s0) in [(0u8, 1u8), (1, 0), (255, 1), (1, 255)] {
            let mut s = vec![r0; 32];
            s.extend(vec![s0; 32]);
            s.push(27);
            let o = ses.step(&mut sut, &vline(&text, &s, &k.eth));
            ses.mark(format!("verify:degenerate-rs:{}", vcls(&o)));
        }
    }
    ses.end_case();

    // ------------------------------------------------------------------ 2. every recovery byte through the contract
    {
        let (sc, _me) = std_world(&mut ses, &mut sut, &mut rng, &cx, "v-sweep", "My Stargaze address is {wallet} and I want a Winter Pal.", 300, 1, 4, 40);
        let k = &sc.keys[0];
        let w = "acct00001";
        let good = sign(k, &sc.template.replace("{wallet}", w), false);
        let mut accepted = vec![];
        for v in 0..=255u8 {
            let mut s = good.clone();
            s[64] = v;
            let o = ses.step(&mut sut, &claim_line(w, &k.eth, &hex::encode(&s)));
            if o.starts_with("ok") {
                accepted.push(v);
            }
            ses.mark(format!("claim:v{}:{}", if recid_of(v).is_some() { v.to_string() } else { "other".into() }, first_word(&o)));
        }
        // exactly the two encodings of the right parity: v and v − 27
        if accepted == vec![good[64] - 27, good[64]] {
            ses.mark("claim:v-sweep:exactly-the-two-encodings-of-the-right-parity");
        }
        ses.end_case();
    }
    // ------------------------------------------------------------------ 3. claim orders up to and past the limit, several keys
    for limit in 0..=3u64 {
        let (sc, _me) = std_world(&mut ses, &mut sut, &mut rng, &cx, &format!("limit-{limit}"), "{wallet} claims", limit, 3, 3 * limit as u128 + 1, 40);
        for round in 0..limit + 2 {
            for (ki, k) in sc.keys.iter().enumerate() {
                let w = WALLETS[(round as usize * 3 + ki) % 5];
                let o = ses.step(&mut sut, &claim_line(w, &k.eth, &hex::encode(sign(k, &sc.template.replace("{wallet}", w), round % 2 == 1))));
                ses.mark(format!("limit{limit}:round{round}:{}", first_word(&o)));
            }
        }
        ses.end_case();
    }
    // ------------------------------------------------------------------ 4. funding one unit short / collection whitelist full / same wallet twice
    {
        let (sc, me) = std_world(&mut ses, &mut sut, &mut rng, &cx, "short-and-full", "{wallet}", 5, 2, 2, 2);
        let s = |k: &Key, w: &str, sc: &Scn| signed(k, &sc.template, w);
        let k = &sc.keys[0];
        let mut outs = vec![];
        outs.push(ses.step(&mut sut, &claim_line("acct00001", &k.eth, &s(k, "acct00001", &sc))));
        outs.push(ses.step(&mut sut, &claim_line("acct00001", &k.eth, &s(k, "acct00001", &sc)))); // same wallet again: already a member
        outs.push(ses.step(&mut sut, &claim_line("acct00002", &k.eth, &s(k, "acct00002", &sc)))); // out of money
        ses.step(&mut sut, &format!("fund to={} amt={}", hxs(&me), cx.amt - 1));
        outs.push(ses.step(&mut sut, &claim_line("acct00002", &k.eth, &s(k, "acct00002", &sc)))); // one unit short
        ses.step(&mut sut, &format!("fund to={} amt=1", hxs(&me)));
        outs.push(ses.step(&mut sut, &claim_line("acct00002", &k.eth, &s(k, "acct00002", &sc)))); // exactly enough
        ses.step(&mut sut, &format!("fund to={} amt={}", hxs(&me), cx.amt * 3));
        outs.push(ses.step(&mut sut, &claim_line("acct00003", &k.eth, &s(k, "acct00003", &sc)))); // whitelist full (2 members)
        outs.push(ses.step(&mut sut, &claim_line("acct00001", &k.eth, &s(k, "acct00001", &sc)))); // full: even an existing member fails
        ses.step(&mut sut, &format!("cwl_rm sender={} who={}", hxs(CREATOR), hxs("acct00001")));
        outs.push(ses.step(&mut sut, &claim_line("acct00003", &k.eth, &s(k, "acct00003", &sc))));
        let pat: String = outs.iter().map(|o| if o.starts_with("ok") { '+' } else { '-' }).collect();
        ses.mark(format!("scenario:short-and-full:{pat}"));
        ses.end_case();
    }

    // ------------------------------------------------------------------ 5. every order of a small alphabet
    {
        let len: u32 = if ses.tier() == Tier::Thorough { 5 } else { 4 };
        let keys: Vec<Key> = (0..2).map(|_| new_key(&mut rng, 5)).collect();
        let tpl = "I am {wallet}";
        let (w0, w1) = ("acct00001", "acct00002");
        let sg = |k: &Key, w: &str| signed(k, tpl, w);
        let alphabet: Vec<String> = vec![
            claim_line(w0, &keys[0].eth, &sg(&keys[0], w0)),
            claim_line(w1, &keys[0].eth, &sg(&keys[0], w1)),
            claim_line(w0, &keys[1].eth, &sg(&keys[1], w0)),
            claim_line_for(w1, &keys[0].eth, &sg(&keys[0], w0), w0), // replay of w0's signature by w1
            claim_line(w1, &keys[1].eth, &sg(&keys[0], w1)), // signed by the other key
            "FUND".to_string(),
        ];
        let n = alphabet.len() as u64;
        for code in 0..n.pow(len) {
            let (_sc, me) = std_world_with(&mut ses, &mut sut, &cx, keys.clone(), &format!("orders-{code}"), tpl, 1, 2, 40, 1);
            let mut c = code;
            let mut pattern = String::new();
            for _ in 0..len {
                let i = (c % n) as usize;
                let l = &alphabet[i];
                c /= n;
                let o = if l == "FUND" { ses.step(&mut sut, &format!("fund to={} amt={}", hxs(&me), cx.amt)) } else { ses.step(&mut sut, l) };
                pattern.push_str(&format!("{i}{}", if o.starts_with("ok") { '+' } else { '-' }));
            }
            let outcomes: String = pattern.chars().filter(|c| *c == '+' || *c == '-').collect();
            ses.mark(format!("orders:first{}:{outcomes}", pattern.chars().next().unwrap_or('?')));
            ses.end_case();
        }
        ses.mark(format!("orders:all-sequences-len{len}"));
        ses.note(format!("every sequence of length {len} over 5 claims (2 keys × 2 wallets, one replay, one wrong key) + funding, limit 1, funded for 2 claims"));
    }

    // ------------------------------------------------------------------ 6. instantiate at the exact bounds (amount ±1 found on the real code, template 1000 / 1001 bytes)
    {
        let k = new_key(&mut rng, 5);
        let mut cases: Vec<(String, String, u128)> = vec![
            ("amount:min-1".into(), "{wallet}".into(), cx.min.saturating_sub(1)),
            ("amount:min".into(), "{wallet}".into(), cx.min),
            ("tpl:999".into(), format!("{}{}", "z".repeat(991), "{wallet}"), cx.amt),
            ("tpl:1000".into(), format!("{}{}", "z".repeat(992), "{wallet}"), cx.amt),
            ("tpl:1001".into(), format!("{}{}", "z".repeat(993), "{wallet}"), cx.amt),
        ];
        if let Some(m) = cx.max {
            cases.push(("amount:max".into(), "{wallet}".into(), m));
            cases.push(("amount:max+1".into(), "{wallet}".into(), m + 1));
        }
        for (label, tpl, amount) in cases {
            if label == "amount:min-1" && cx.min == 0 {
                continue;
            }
            ses.begin_case(&mut sut, &header(&format!("bounds-{label}"), 1, true, 40, 40));
            ses.step(&mut sut, &format!("fund to={} amt={}", hxs(INST_SENDER), FEE + amount));
            let o = ses.step(
                &mut sut,
                &format!("inst sender={} funds=0:{} amount={amount} limit=1 tpl={} addrs={}", hxs(INST_SENDER), FEE + amount, hxs(&tpl), hx_list(&[k.eth.clone()])),
            );
            ses.mark(format!("inst:{label}:{}", first_word(&o)));
            if o.starts_with("ok") {
                // the accepted extreme is really what a claim pays
                let me = sut.w.as_ref().unwrap().airdrop.clone().unwrap();
                ses.step(&mut sut, &format!("cwl_admins sender={} admins={}", hxs(CREATOR), hx_list(&[CREATOR.to_string(), me])));
                let o2 = ses.step(&mut sut, &claim_line("acct00001", &k.eth, &signed(&k, &tpl, "acct00001")));
                ses.mark(format!("inst:{label}:claim:{}", first_word(&o2)));
            }
            ses.end_case();
        }
    }

    // ------------------------------------------------------------------ 6b. the placeholder in other letter cases / missing / duplicated, at the length bounds;
    // whenever such a template is ACCEPTED: wallet A signs and claims, then wallet B presents A's (address, signature) pair
    {
        let k = new_key(&mut rng, 5);
        let variants: [(&str, &str); 9] = [
            ("lower", "{wallet}"),
            ("capital", "{Wallet}"),
            ("upper", "{WALLET}"),
            ("mixed", "{wAlLeT}"),
            ("double", "{wallet}{wallet}"),
            ("lower-and-upper", "{WALLET} {wallet}"),
            ("none", "no placeholder here"),
            ("unclosed", "{wallet"),
            ("sentence-capital", "My Stargaze address is {Wallet} and I want a Winter Pal."),
        ];
        for (vn, core) in variants {
            // the bare placeholder (shortest template), padded to exactly 1000 bytes (longest accepted), 1001 (refused)
            for (ln, tpl) in [("min", core.to_string()), ("max", format!("{}{core}", "z".repeat(1000 - core.len()))), ("max+1", format!("{}{core}", "z".repeat(1001 - core.len())))] {
                if ln == "max+1" && vn != "lower" && vn != "capital" {
                    continue;
                }
              for order in ["own-first", "replay-first"] {
                ses.begin_case(&mut sut, &header(&format!("placeholder-{vn}-{ln}-{order}"), 1, true, 40, 40));
                ses.step(&mut sut, &format!("fund to={} amt={}", hxs(INST_SENDER), FEE + cx.amt * 3));
                let o = ses.step(
                    &mut sut,
                    &format!("inst sender={} funds=0:{} amount={} limit=2 tpl={} addrs={}", hxs(INST_SENDER), FEE + cx.amt * 3, cx.amt, hxs(&tpl), hx_list(&[k.eth.clone()])),
                );
                ses.mark(format!("placeholder:{vn}:{ln}:inst-{}", first_word(&o)));
                if o.starts_with("ok") {
                    if !tpl.contains("{wallet}") {
                        // not a property clause by itself (the property binds claims, not templates): recorded, not a monitor
                        ses.mark(format!("instantiate:template-without-wallet-placeholder-accepted:{vn}"));
                        ses.note(format!("instantiate accepted a template without the exact `{{wallet}}` placeholder ({vn})"));
                    }
                    let me = sut.w.as_ref().unwrap().airdrop.clone().unwrap();
                    ses.step(&mut sut, &format!("cwl_admins sender={} admins={}", hxs(CREATOR), hx_list(&[CREATOR.to_string(), me])));
                    let (a, b) = ("acct00001", "acct00002");
                    let sig_a = signed(&k, &tpl, a);
                    // A signs and claims; B presents A's (address, signature) pair (limit 2: it is not the limit that stops it);
                    // in the second case B is quicker than A (the signature exists, A has not used it yet)
                    let own = claim_line(a, &k.eth, &sig_a);
                    let replay = claim_line_for(b, &k.eth, &sig_a, a);
                    let (o1, o2) = if order == "own-first" {
                        let o1 = ses.step(&mut sut, &own);
                        (o1, ses.step(&mut sut, &replay))
                    } else {
                        let o2 = ses.step(&mut sut, &replay);
                        (ses.step(&mut sut, &own), o2)
                    };
                    let o3 = ses.step(&mut sut, &claim_line(b, &k.eth, &signed(&k, &tpl, b))); // B's own signature
                    ses.mark(format!("cross-wallet-replay:{vn}:{ln}:{order}:own-{}:replay-{}:then-own-{}", first_word(&o1), first_word(&o2), first_word(&o3)));
                    if vn == "lower" && o1.starts_with("ok") && o2.starts_with("err") && o3.starts_with("ok") {
                        ses.mark(format!("cross-wallet-replay:lower-case-template:refused:{order}"));
                    }
                }
                ses.end_case();
              }
            }
        }
    }

    // ------------------------------------------------------------------ 6c. listed addresses nobody holds a key for (the zero "burn" address of holder
    // snapshots, 0x00…01, 0xff…ff) × structurally valid but unrecoverable / unrelated signatures × several wallets
    {
        let k = new_key(&mut rng, 5);
        let unowned = [format!("0x{}", "0".repeat(40)), format!("0x{}1", "0".repeat(39)), format!("0x{}", "f".repeat(40)), format!("0x{}", "F".repeat(40))];
        let mut list: Vec<String> = unowned.to_vec();
        list.push(k.eth.clone());
        let tpl = "My Stargaze address is {wallet}";
        let (_sc, _me) = std_world_list(&mut ses, &mut sut, &cx, vec![k.clone()], list, "unowned-addresses", tpl, 2, 6, 40, 1);
        if sut.w.as_ref().map(|w| w.listed.contains(&unowned[0])).unwrap_or(false) {
            ses.mark("unowned:zero-address-listed:inst-ok");
        }
        // the secp256k1 group order n
        let n: Vec<u8> = hex::decode("fffffffffffffffffffffffffffffffebaaedce6af48a03bbfd25e8cd0364141").unwrap();
        let mut n_minus_1 = n.clone();
        n_minus_1[31] -= 1;
        let one: Vec<u8> = { let mut x = vec![0u8; 32]; x[31] = 1; x };
        let cat = |r: &[u8], s: &[u8], v: u8| { let mut x = r.to_vec(); x.extend_from_slice(s); x.push(v); x };
        let mut garbage: Vec<(String, Vec<u8>)> = vec![];
        for v in [0u8, 1, 27, 28, 29] {
            garbage.push((format!("zeros-v{v}"), cat(&[0u8; 32], &[0u8; 32], v)));
        }
        garbage.push(("ff64-1b".into(), cat(&[0xff; 32], &[0xff; 32], 27)));
        garbage.push(("ff64-1c".into(), cat(&[0xff; 32], &[0xff; 32], 28)));
        garbage.push(("r=n".into(), cat(&n, &one, 27)));
        garbage.push(("s=n".into(), cat(&one, &n, 27)));
        garbage.push(("r=0".into(), cat(&[0u8; 32], &one, 28)));
        garbage.push(("s=0".into(), cat(&one, &[0u8; 32], 27)));
        garbage.push(("r=s=n-1".into(), cat(&n_minus_1, &n_minus_1, 0)));
        garbage.push(("r=s=1".into(), cat(&one, &one, 1)));
        garbage.push(("random".into(), { let mut x: Vec<u8> = (0..64).map(|_| rng.below(256) as u8).collect(); x.push(27); x }));
        let wallets = ["acct00001", "acct00002", CREATOR];
        let mut all_refused = true;
        for e in &unowned {
            for (gi, (label, g)) in garbage.iter().enumerate() {
                for (wi, w) in wallets.iter().enumerate() {
                    if (gi + wi) % 3 != 0 && !(e == &unowned[0]) {
                        continue; // every combination for the zero address, a third of them for the others
                    }
                    let o = ses.step(&mut sut, &claim_line(w, e, &hex::encode(g)));
                    all_refused &= o.starts_with("err");
                    ses.mark(format!("unowned:{}:{label}:{}", &e[..6], first_word(&o)));
                }
            }
            // a genuine signature of somebody else's key, for the caller's own text, naming the unowned address
            for w in wallets {
                let o = ses.step(&mut sut, &claim_line(w, e, &signed(&k, tpl, w)));
                all_refused &= o.starts_with("err");
                ses.mark(format!("unowned:{}:other-keys-signature:{}", &e[..6], first_word(&o)));
            }
        }
        // garbage for the address whose key exists is refused as well; its genuine signature still works afterwards
        for (_, g) in garbage.iter().take(7) {
            let o = ses.step(&mut sut, &claim_line("acct00001", &k.eth, &hex::encode(g)));
            all_refused &= o.starts_with("err");
        }
        let o = ses.step(&mut sut, &claim_line("acct00001", &k.eth, &signed(&k, tpl, "acct00001")));
        if all_refused && o.starts_with("ok") {
            ses.mark("unowned:all-garbage-signature-claims-refused");
        }
        ses.end_case();
    }

    // ------------------------------------------------------------------ 7. anything but ClaimAirdrop: hypothetical + schema-enumerated messages, sudo, migrate
    {
        let (sc, me) = std_world(&mut ses, &mut sut, &mut rng, &cx, "foreign-messages", "{wallet}", 2, 2, 5, 40);
        let k = sc.keys[0].clone();
        let o = ses.step(&mut sut, &claim_line("acct00001", &k.eth, &signed(&k, &sc.template, "acct00001")));
        assert!(o.starts_with("ok"), "a valid claim in the standard world succeeds: {o}");
        for target in ["airdrop", "immutable"] {
            let unknown = if target == "airdrop" { &cx.unknown_airdrop } else { &cx.unknown_immutable };
            for sender in ["acct00001", INST_SENDER, CREATOR, me.as_str()] {
                let mut msgs = hypothetical_msgs(target, sender, &k.eth);
                let (schema, known) = if target == "airdrop" { (airdrop_exec_schema(), &KNOWN_AIRDROP_EXEC[..]) } else { (immutable_exec_schema(), &KNOWN_IMMUTABLE_EXEC[..]) };
                msgs.extend(unknown_variant_msgs(&schema, known, sender, PROBE).into_iter().map(|x| x.1));
                for (i, m) in msgs.iter().enumerate() {
                    for kind in ["exec", "sudo", "migrate"] {
                        if kind != "exec" && (i > 2 || sender == "acct00001") {
                            continue;
                        }
                        let o = ses.step(&mut sut, &raw_line(kind, target, sender, m));
                        let res = o.split(" ## ").nth(1).unwrap_or("");
                        ses.mark(format!("exec_raw:{target}:{kind}:unchanged:{res}"));
                    }
                }
            }
            for (n, _) in unknown {
                ses.mark(format!("exec_raw:{target}:sent-unknown:{n}"));
            }
        }
        // the world still works exactly as before
        let o = ses.step(&mut sut, &claim_line("acct00002", &k.eth, &signed(&k, &sc.template, "acct00002")));
        ses.mark(format!("exec_raw:then-claim:{}", first_word(&o)));
        let o = ses.step(&mut sut, &claim_line("acct00003", &k.eth, &signed(&k, &sc.template, "acct00003")));
        ses.mark(format!("exec_raw:then-claim-past-limit:{}", first_word(&o)));
        ses.step(&mut sut, "q_imm");
        ses.end_case();
    }

    // ------------------------------------------------------------------ 8. the minter admin swaps the collection whitelist between two claims
    {
        let keys: Vec<Key> = (0..2).map(|_| new_key(&mut rng, 5)).collect();
        let (sc, me) = std_world_with(&mut ses, &mut sut, &cx, keys, "swap-whitelist", "{wallet}", 4, 8, 40, 2);
        let k = sc.keys[0].clone();
        let cl = |w: &str| claim_line(w, &k.eth, &signed(&k, &sc.template, w));
        let o = ses.step(&mut sut, &cl("acct00001"));
        ses.mark(format!("swap:before:claim-{}", first_word(&o)));
        ses.step(&mut sut, "set_wl id=2");
        let o = ses.step(&mut sut, &cl("acct00002")); // the airdrop contract is not an admin of whitelist 2 yet
        ses.mark(format!("swap:not-admin-of-new:claim-{}", first_word(&o)));
        ses.step(&mut sut, &format!("cwl_admins sender={} admins={}", hxs(CREATOR), hx_list(&[CREATOR.to_string(), me.clone()])));
        let o = ses.step(&mut sut, &cl("acct00002"));
        let w = sut.w.as_ref().unwrap();
        if o.starts_with("ok") && w.members_of(&w.wls[1]).contains("acct00002") && !w.members_of(&w.wls[0]).contains("acct00002") {
            ses.mark("swap:claim-lands-on-new-whitelist");
        }
        let o = ses.step(&mut sut, &cl("acct00001")); // already on whitelist 1, now joins whitelist 2 as well
        ses.mark(format!("swap:old-member:claim-{}", first_word(&o)));
        ses.step(&mut sut, "set_wl id=1");
        let o = ses.step(&mut sut, &cl("acct00003"));
        ses.mark(format!("swap:back:claim-{}", first_word(&o)));
        let o = ses.step(&mut sut, &cl("acct00003")); // limit 4 reached by now: 5th claim of this key
        ses.mark(format!("swap:past-limit:claim-{}", first_word(&o)));
        ses.step(&mut sut, "set_wl id=3"); // no such whitelist
        ses.end_case();
    }

    // ------------------------------------------------------------------ 9. time passes: the collection whitelist starts and ends between claims
    {
        let (sc, _me) = std_world_with(&mut ses, &mut sut, &cx, vec![new_key(&mut rng, 5)], "time", "{wallet}", 20, 20, 40, 2);
        let k = sc.keys[0].clone();
        let cl = |w: &str| claim_line(w, &k.eth, &signed(&k, &sc.template, w));
        for (label, t) in [("wl-start-1", WL_START - 1), ("wl-start", WL_START), ("wl-start+1", WL_START + 1), ("wl-end-1", WL_END - 1), ("wl-end", WL_END), ("wl-end+1", WL_END + 1), ("minter-start", MINTER_START), ("minter-start+1", MINTER_START + 1)] {
            ses.step(&mut sut, &format!("time t={t}"));
            let w = WALLETS[(t % 5) as usize];
            let o = ses.step(&mut sut, &cl(w));
            ses.mark(format!("time:{label}:claim-{}", first_word(&o)));
            let o = ses.step(&mut sut, &cl(w)); // same block, same wallet again
            ses.mark(format!("time:{label}:same-block-repeat-{}", first_word(&o)));
            let o = ses.step(&mut sut, &format!("cwl_rm sender={} who={}", hxs(CREATOR), hxs(w)));
            ses.mark(format!("time:{label}:rm:{}", o.split(" ## ").nth(1).unwrap_or("").split(' ').next().unwrap_or("")));
            let o = ses.step(&mut sut, "set_wl id=2");
            ses.mark(format!("time:{label}:set_wl:{o}"));
            ses.step(&mut sut, "set_wl id=1");
        }
        ses.end_case();
    }

    // ------------------------------------------------------------------ 10. the administrators claim; the contract as its own caller
    {
        let (sc, me) = std_world(&mut ses, &mut sut, &mut rng, &cx, "admins-claim", "I, {wallet}, claim", 10, 1, 6, 40);
        let k = sc.keys[0].clone();
        let mut all_ok = true;
        for w in [CREATOR, "acct00010", INST_SENDER, me.as_str()] {
            let o = ses.step(&mut sut, &claim_line(w, &k.eth, &signed(&k, &sc.template, w)));
            all_ok &= o.starts_with("ok");
        }
        ses.mark(format!("admins-claim:{}", if all_ok { "ok" } else { "err" }));
        ses.end_case();
    }

    // ------------------------------------------------------------------ 11. one address listed under two spellings (eligibility and counter are per string)
    for limit in [1u64, 2] {
        let k = new_key(&mut rng, 2);
        let (lower, upper) = (k.eth.clone(), format!("0x{}", k.eth[2..].to_uppercase()));
        let (sc, _me) = std_world_list(&mut ses, &mut sut, &cx, vec![k.clone()], vec![lower.clone(), upper.clone()], &format!("case-variants-{limit}"), "{wallet}", limit, 2 * limit as u128 + 2, 40, 1);
        let mut n_ok = 0u64;
        for round in 0..=limit {
            for e in [&lower, &upper] {
                let w = WALLETS[round as usize % 3];
                let o = ses.step(&mut sut, &claim_line(w, e, &signed(&k, &sc.template, w)));
                n_ok += o.starts_with("ok") as u64;
            }
        }
        // mixed casing that is NOT listed
        let mixed = format!("0x{}{}", k.eth[2..22].to_uppercase(), &k.eth[22..]);
        if mixed != lower && mixed != upper {
            let o = ses.step(&mut sut, &claim_line("acct00001", &mixed, &signed(&k, &sc.template, "acct00001")));
            ses.mark(format!("case-variants:unlisted-spelling:{}", first_word(&o)));
        }
        if n_ok > limit {
            ses.mark("case-variants:per-address-over-limit");
        }
        ses.mark(format!("case-variants:limit{limit}:ok{n_ok}"));
        if limit == 1 {
            if let Ok(p) = std::env::var("C16_DUMP_CASE_VARIANTS") {
                // the same history with `strict=1` (literal per-address clause) as a replay file
                let c = sut.log.clone();
                let mut ops = vec![sut.header.replace("strict=0", "strict=1")];
                ops.extend(c);
                let v = json!({"property": "C16", "kind": "monitor", "key": "sg-eth-airdrop/claim/limit-exceeded-per-address-listed-under-two-spellings",
                    "what": "one Ethereum key, listed as 0xab… and 0xAB…, limit 1: both spellings are paid (2 claims for one address)", "ops": ops,
                    "how_to_replay": "./check C16 --replay corpus/C16/case-variant-double-claim.json"});
                std::fs::write(p, serde_json::to_string_pretty(&v).unwrap()).ok();
            }
        }
        ses.end_case();
    }

    // ------------------------------------------------------------------ 11b. the listed counter-example to the literal per-address clause, in a case of
    // its own (the first finding of a case mutes the later monitors of that case): limit 1, one key listed as 0xab… and
    // 0xAB…, one claim per spelling. With `strict=1` the second claim raises `claim/limit-exceeded-per-address-listed-under-two-spellings`.
    {
        let k = new_key(&mut rng, 2);
        let (lower, upper) = (k.eth.clone(), format!("0x{}", k.eth[2..].to_uppercase()));
        ses.begin_case(&mut sut, &header("two-spellings-literal-clause", 1, true, 40, 40).replace("strict=0", if strict_listed { "strict=1" } else { "strict=0" }));
        ses.step(&mut sut, &format!("fund to={} amt={}", hxs(INST_SENDER), FEE + cx.amt * 3));
        ses.step(
            &mut sut,
            &format!("inst sender={} funds=0:{} amount={} limit=1 tpl={} addrs={}", hxs(INST_SENDER), FEE + cx.amt * 3, cx.amt, hxs("{wallet}"), hx_list(&[lower.clone(), upper.clone()])),
        );
        if let Some(me) = sut.w.as_ref().and_then(|w| w.airdrop.clone()) {
            ses.step(&mut sut, &format!("cwl_admins sender={} admins={}", hxs(CREATOR), hx_list(&[CREATOR.to_string(), me])));
        }
        let sg = signed(&k, "{wallet}", "acct00001");
        let o1 = ses.step(&mut sut, &claim_line("acct00001", &lower, &sg));
        let o2 = ses.step(&mut sut, &claim_line("acct00001", &upper, &sg));
        if o1.starts_with("ok") && o2.starts_with("ok") {
            ses.mark(format!("case-variants:literal-clause-counterexample-reproduced:strict{}", strict_listed as u8));
        } else {
            ses.mark(format!("case-variants:literal-clause-counterexample-gone:{}:{}", first_word(&o1), first_word(&o2)));
            ses.note("the two-spellings double claim no longer reproduces: the known finding of C16 may have been repaired (remove it from known_findings.json)");
        }
        ses.end_case();
    }

    // ------------------------------------------------------------------ 12. a list far beyond any page size
    {
        let keys: Vec<Key> = (0..3).map(|_| new_key(&mut rng, 5)).collect();
        let mut list: Vec<String> = (0..130).map(|_| new_key(&mut rng, 5).eth).collect();
        list.sort();
        list.insert(0, keys[0].eth.clone());
        list.insert(66, keys[1].eth.clone());
        list.push(keys[2].eth.clone());
        let (sc, _me) = std_world_list(&mut ses, &mut sut, &cx, keys.clone(), list.clone(), "big-list", "{wallet}", 1, 4, 200, 1);
        ses.step(&mut sut, "q_imm");
        for (pos, k) in [("first", &keys[0]), ("middle", &keys[1]), ("last", &keys[2])] {
            let o = ses.step(&mut sut, &claim_line("acct00001", &k.eth, &signed(k, &sc.template, "acct00001")));
            ses.mark(format!("big-list:{pos}:{}", first_word(&o)));
            let o = ses.step(&mut sut, &claim_line("acct00002", &k.eth, &signed(k, &sc.template, "acct00002")));
            ses.mark(format!("big-list:{pos}:again:{}", first_word(&o)));
        }
        // listed, but nobody has the key
        ses.step(&mut sut, &claim_line("acct00001", &list[5], &signed(&keys[0], &sc.template, "acct00001")));
        for e in [&list[1], &list[100], &list[131]] {
            ses.step(&mut sut, &format!("q_elig eth={}", hxs(e)));
        }
        // 120 wallets on the collection whitelist through claims is C11's business; here: more claimants than a page
        ses.end_case();
    }

    // ------------------------------------------------------------------ 13. random worlds
    let n_cases = ses.scale(400, 7_000);
    for i in 0..n_cases {
        let n_ops = rng.range(10, 60);
        run_world_case(&mut ses, &mut sut, &mut rng, &cx, i, n_ops);
    }
    // ------------------------------------------------------------------ 14. secp256k1 inside the model (round 5)
    secp_stream(&mut ses, &mut sut, &mut rng);

    if let Ok(p) = std::env::var("C16_DUMP_CLASSES") {
        std::fs::write(p, ses.classes.iter().cloned().collect::<Vec<_>>().join("\n")).ok();
    }
    ses.note("round 5: secp256k1 is also computed inside the model (LP.Secp, Lean): `secp` lines compare deps.api recover / verify / address with the Lean values from the bytes; `rc=` on claim and verify lines compares the model's verdict under realCrypto (no witness) with its witnessed verdict");
    ses.note("signatures: real secp256k1 (k256) personal-sign signatures; witness = hand-written ecrecover / ECDSA verification on k256 group arithmetic + sha3 (independent protocol code over the same curve library), compared with deps.api through the model");
    ses.note("mutation kinds per claim: valid (v=27/28, v=0/1, upper-case hex), replay for another wallet, another key, bit flip, wrong length, every v, non-hex, high-S (both parities), other message, other casing of the address, malformed listed address, no envelope");
    ses.finish(&mut sut);
}
