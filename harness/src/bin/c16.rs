//! C16 — ETH airdrop: only the key holder claims, bound to one wallet, within limits.
//!
//! World-level correspondence: the real `sg-eth-airdrop` (instantiate → reply → real `whitelist-immutable`),
//! a real vending minter + sg721 (created through the real vending factory with the repo's own mock parameters) whose
//! config points to a real `sg-whitelist`, all under cw-multi-test; against `LP.Airdrop` (Lean).
//! Function-level correspondence: `ethereum_verify::{verify_ethereum_text, decode_address, get_recovery_param}`,
//! `str::replace`, `str::contains`, `hex::decode`, Keccak-256.
//!
//! Signatures are produced with `k256` + `sha3`. The per-claim witness handed to the model (digest, recovered
//! public key, verify result) is computed by an INDEPENDENT route: hand-written secp256k1 public-key recovery
//! and verification on `k256`'s group arithmetic (not `deps.api`, not `recover_from_prehash`), own hex decoder.
use std::collections::{BTreeMap, BTreeSet};

use cosmwasm_std::testing::mock_dependencies;
use cosmwasm_std::{coin, coins, Addr, Coin, Timestamp};
use cw_multi_test::{BankSudo, Executor, SudoMsg};
use k256::ecdsa::SigningKey;
use k256::elliptic_curve::ops::Reduce;
use k256::elliptic_curve::point::{AffineCoordinates, DecompressPoint};
use k256::elliptic_curve::sec1::ToEncodedPoint;
use k256::elliptic_curve::subtle::Choice;
use k256::elliptic_curve::PrimeField;
use k256::{AffinePoint, FieldBytes, ProjectivePoint, Scalar, U256};
use lp_harness::boxes::{self, App};
use lp_harness::*;
use sha3::{Digest, Keccak256};

const NATIVE: &str = "ustars";
const GENESIS: u64 = sg_utils::GENESIS_MINT_START_TIME;
const FEE: u128 = sg_eth_airdrop::contract::INSTANTIATION_FEE;
const MIN_AIRDROP: u128 = 10_000_000;
const MAX_AIRDROP: u128 = 100_000_000_000_000;
const CREATOR: &str = "creator";

// ------------------------------------------------------------------------------------------------ byte-string tokens

fn hx(b: &[u8]) -> String {
    let mut s = String::with_capacity(1 + 2 * b.len());
    s.push('x');
    for x in b {
        s.push_str(&format!("{:02x}", x));
    }
    s
}
fn hxs(s: &str) -> String {
    hx(s.as_bytes())
}
fn hx_list(v: &[String]) -> String {
    if v.is_empty() {
        "-".into()
    } else {
        v.iter().map(|s| hxs(s)).collect::<Vec<_>>().join(",")
    }
}
/// own hex decoder (independent of the `hex` crate the contract uses)
fn unhex(s: &[u8]) -> Option<Vec<u8>> {
    if s.len() % 2 != 0 {
        return None;
    }
    let val = |c: u8| -> Option<u8> {
        match c {
            b'0'..=b'9' => Some(c - b'0'),
            b'a'..=b'f' => Some(c - b'a' + 10),
            b'A'..=b'F' => Some(c - b'A' + 10),
            _ => None,
        }
    };
    let mut out = Vec::with_capacity(s.len() / 2);
    for p in s.chunks(2) {
        out.push(val(p[0])? * 16 + val(p[1])?);
    }
    Some(out)
}
fn tok_bytes(t: &str) -> Option<Vec<u8>> {
    unhex(t.strip_prefix('x')?.as_bytes())
}
fn tok_str(t: &str) -> Option<String> {
    String::from_utf8(tok_bytes(t)?).ok()
}
fn kv_s(line: &str, key: &str) -> Option<String> {
    tok_str(kv(line, key)?)
}
fn kv_b(line: &str, key: &str) -> Option<Vec<u8>> {
    tok_bytes(kv(line, key)?)
}
fn kv_slist(line: &str, key: &str) -> Option<Vec<String>> {
    let v = kv(line, key)?;
    if v == "-" {
        return Some(vec![]);
    }
    v.split(',').map(tok_str).collect()
}

// ------------------------------------------------------------------------------------------------ independent crypto

fn keccak(data: &[u8]) -> [u8; 32] {
    let mut h = Keccak256::new();
    h.update(data);
    h.finalize().into()
}
fn personal_digest(text: &str) -> [u8; 32] {
    let mut v = Vec::new();
    v.extend_from_slice(b"\x19Ethereum Signed Message:\n");
    v.extend_from_slice(text.len().to_string().as_bytes());
    v.extend_from_slice(text.as_bytes());
    keccak(&v)
}
fn recid_of(v: u8) -> Option<u8> {
    match v {
        0 | 27 => Some(0),
        1 | 28 => Some(1),
        _ => None,
    }
}
/// Q = r⁻¹(s·R − z·G), R = the curve point with x = r and the parity given by `recid` (Ethereum `ecrecover`)
fn recover_manual(digest: &[u8; 32], rs: &[u8], recid: u8) -> Option<Vec<u8>> {
    if rs.len() != 64 || recid > 1 {
        return None;
    }
    let r_bytes = FieldBytes::clone_from_slice(&rs[..32]);
    let s_bytes = FieldBytes::clone_from_slice(&rs[32..]);
    let r = Option::<Scalar>::from(Scalar::from_repr(r_bytes))?;
    let s = Option::<Scalar>::from(Scalar::from_repr(s_bytes))?;
    if bool::from(r.is_zero()) || bool::from(s.is_zero()) {
        return None;
    }
    let z = <Scalar as Reduce<U256>>::reduce_bytes(FieldBytes::from_slice(digest));
    let big_r = Option::<AffinePoint>::from(AffinePoint::decompress(&r_bytes, Choice::from(recid & 1)))?;
    let big_r = ProjectivePoint::from(big_r);
    let r_inv = Option::<Scalar>::from(r.invert())?;
    let q = (big_r * s - ProjectivePoint::GENERATOR * z) * r_inv;
    if q == ProjectivePoint::IDENTITY {
        return None;
    }
    Some(q.to_affine().to_encoded_point(false).as_bytes().to_vec())
}
/// textbook ECDSA verification: x(z/s·G + r/s·Q) mod n = r
fn verify_manual(digest: &[u8; 32], rs: &[u8], pk: &[u8]) -> Option<bool> {
    if rs.len() != 64 {
        return None;
    }
    let r = Option::<Scalar>::from(Scalar::from_repr(FieldBytes::clone_from_slice(&rs[..32])))?;
    let s = Option::<Scalar>::from(Scalar::from_repr(FieldBytes::clone_from_slice(&rs[32..])))?;
    if bool::from(r.is_zero()) || bool::from(s.is_zero()) {
        return None;
    }
    let ep = k256::EncodedPoint::from_bytes(pk).ok()?;
    let q = Option::<AffinePoint>::from(<AffinePoint as k256::elliptic_curve::sec1::FromEncodedPoint<k256::Secp256k1>>::from_encoded_point(&ep))?;
    let z = <Scalar as Reduce<U256>>::reduce_bytes(FieldBytes::from_slice(digest));
    let s_inv = Option::<Scalar>::from(s.invert())?;
    let x = (ProjectivePoint::GENERATOR * (z * s_inv) + ProjectivePoint::from(q) * (r * s_inv)).to_affine();
    if ProjectivePoint::from(x) == ProjectivePoint::IDENTITY {
        return Some(false);
    }
    let xr = <Scalar as Reduce<U256>>::reduce_bytes(&x.x());
    Some(xr == r)
}
fn eth_addr_of_pk(pk: &[u8]) -> Option<[u8; 20]> {
    if pk.len() != 65 || pk[0] != 4 {
        return None;
    }
    let h = keccak(&pk[1..]);
    let mut a = [0u8; 20];
    a.copy_from_slice(&h[12..]);
    Some(a)
}
fn decode_eth_manual(s: &str) -> Option<Vec<u8>> {
    let b = s.as_bytes();
    if b.len() != 42 || b[0] != b'0' || b[1] != b'x' {
        return None;
    }
    unhex(&b[2..])
}

struct Witness {
    h: Option<[u8; 32]>,
    rs: Option<Vec<u8>>,
    rec: Option<u8>,
    pk: Option<Vec<u8>>,
    ver: Option<bool>,
}
impl Witness {
    fn render(&self) -> String {
        let o = |x: Option<String>| x.unwrap_or_else(|| "-".into());
        format!(
            " h={} rs={} rec={} pk={} ver={}",
            o(self.h.map(|h| hx(&h))),
            o(self.rs.as_ref().map(|v| hx(v))),
            o(self.rec.map(|r| r.to_string())),
            o(self.pk.as_ref().map(|v| hx(v))),
            o(self.ver.map(|b| if b { "1".into() } else { "0".into() }))
        )
    }
}
/// the three primitive results for (text, signature bytes), by the independent route
fn witness_for(text: &str, sig: Option<&[u8]>) -> Witness {
    let h = personal_digest(text);
    let mut w = Witness { h: Some(h), rs: None, rec: None, pk: None, ver: None };
    let Some(sig) = sig else { return w };
    let Some((v, rs)) = sig.split_last() else { return w };
    w.rs = Some(rs.to_vec());
    w.rec = recid_of(*v);
    if let Some(rec) = w.rec {
        w.pk = recover_manual(&h, rs, rec);
        if let Some(pk) = &w.pk {
            w.ver = verify_manual(&h, rs, pk);
        }
    }
    w
}
/// the property's acceptance condition, evaluated without the contract and without the Lean model
fn indep_valid(text: &str, sig_str: &str, eth_str: &str) -> bool {
    let Some(a) = decode_eth_manual(eth_str) else { return false };
    let Some(sig) = unhex(sig_str.as_bytes()) else { return false };
    let w = witness_for(text, Some(&sig));
    match (&w.pk, w.ver) {
        (Some(pk), Some(true)) => eth_addr_of_pk(pk).map(|x| x.to_vec()) == Some(a),
        _ => false,
    }
}
fn well_formed(sig_str: &str, eth_str: &str) -> bool {
    let Some(_) = decode_eth_manual(eth_str) else { return false };
    let Some(sig) = unhex(sig_str.as_bytes()) else { return false };
    sig.len() == 65 && recid_of(sig[64]).is_some()
}

// ------------------------------------------------------------------------------------------------ the world

struct World {
    app: App,
    minter: Addr,
    cwl: Option<Addr>,
    air_code: u64,
    imm_code: u64,
    airdrop: Option<Addr>,
    // harness-side bookkeeping for the monitors (what was configured, not what the contract says)
    template: String,
    listed: BTreeSet<String>,
    limit: u64,
    amount: u128,
    succ: BTreeMap<String, u64>,
    total_succ: u128,
    expected_self_balance: u128,
}

#[derive(Clone, Debug, Default, PartialEq)]
struct Snap {
    b: u128,
    s: u128,
    c: u64,
    m: bool,
    n: u64,
}

impl World {
    fn new(header: &str) -> World {
        // the repo's own wiring (test-suite `configure_mock_minter`), with the REAL minter / factory / sg721 code
        use test_suite::common_setup::setup_minter::vending_minter::mock_params::{mock_create_minter, mock_params};
        let mut app = boxes::custom_mock_app();
        let creator = Addr::unchecked(CREATOR);
        app.sudo(SudoMsg::Bank(BankSudo::Mint { to_address: CREATOR.into(), amount: coins(5_000_000_000 + 1_000_000_000, NATIVE) })).unwrap();
        let minter_code = app.store_code(boxes::vending_minter());
        let factory_code = app.store_code(boxes::vending_factory());
        let sg721_code = app.store_code(boxes::sg721_base());
        let mut params = mock_params(None);
        params.code_id = minter_code;
        params.allowed_sg721_code_ids = vec![sg721_code];
        let creation_fee = params.creation_fee.clone();
        let factory = app
            .instantiate_contract(factory_code, creator.clone(), &vending_factory::msg::InstantiateMsg { params }, &[], "factory", None)
            .expect("factory");
        let mut cp = sg2::tests::mock_collection_params_1(Some(Timestamp::from_nanos(GENESIS)));
        cp.code_id = sg721_code;
        let msg = sg2::msg::Sg2ExecuteMsg::CreateMinter(mock_create_minter(None, cp, None));
        app.execute_contract(creator.clone(), factory, &msg, &[creation_fee]).expect("create minter");
        let minter = Addr::unchecked("contract1");
        let _: vending_minter::msg::ConfigResponse =
            app.wrap().query_wasm_smart(minter.clone(), &vending_minter::msg::QueryMsg::Config {}).expect("contract1 is the vending minter");
        let wl = kv_bool(header, "wl").unwrap_or(false);
        let mut cwl = None;
        if wl {
            let limit = kv_u64(header, "wlimit").unwrap_or(10) as u32;
            let admin = kv_s(header, "admin").unwrap_or_else(|| CREATOR.to_string());
            let code = app.store_code(boxes::whitelist());
            let fee = ((limit as u128 + 999) / 1000) * sg_whitelist::contract::PRICE_PER_1000_MEMBERS;
            let msg = sg_whitelist::msg::InstantiateMsg {
                members: vec![],
                start_time: Timestamp::from_nanos(GENESIS + 100),
                end_time: Timestamp::from_nanos(GENESIS + 10_000_000),
                mint_price: coin(66_000_000, NATIVE),
                per_address_limit: 1,
                member_limit: limit,
                admins: vec![admin],
                admins_mutable: true,
            };
            let a = app.instantiate_contract(code, creator.clone(), &msg, &coins(fee, NATIVE), "whitelist", None).expect("collection whitelist");
            app.execute_contract(creator.clone(), minter.clone(), &vending_minter::msg::ExecuteMsg::SetWhitelist { whitelist: a.to_string() }, &[])
                .expect("set whitelist");
            cwl = Some(a);
        }
        let air_code = app.store_code(boxes::eth_airdrop());
        let imm_code = app.store_code(boxes::whitelist_immutable());
        World {
            app,
            minter,
            cwl,
            air_code,
            imm_code,
            airdrop: None,
            template: String::new(),
            listed: BTreeSet::new(),
            limit: 0,
            amount: 0,
            succ: BTreeMap::new(),
            total_succ: 0,
            expected_self_balance: 0,
        }
    }
    fn bal(&self, who: &str) -> u128 {
        self.app.wrap().query_balance(who, NATIVE).map(|c| c.amount.u128()).unwrap_or(0)
    }
    fn count(&self, eth: &str) -> u64 {
        let Some(a) = &self.airdrop else { return 0 };
        // cw-storage-plus Map "amc" with a &str key: len-prefixed namespace + raw key
        let mut key = vec![0u8, 3];
        key.extend_from_slice(b"amc");
        key.extend_from_slice(eth.as_bytes());
        match self.app.wrap().query_wasm_raw(a, key) {
            Ok(Some(v)) => String::from_utf8_lossy(&v).parse().unwrap_or(u64::MAX),
            _ => 0,
        }
    }
    fn has_member(&self, who: &str) -> bool {
        let Some(w) = &self.cwl else { return false };
        self.app
            .wrap()
            .query_wasm_smart::<sg_whitelist::msg::HasMemberResponse>(w, &sg_whitelist::msg::QueryMsg::HasMember { member: who.to_string() })
            .map(|r| r.has_member)
            .unwrap_or(false)
    }
    fn num_members(&self) -> u64 {
        let Some(w) = &self.cwl else { return 0 };
        self.app
            .wrap()
            .query_wasm_smart::<sg_whitelist::msg::ConfigResponse>(w, &sg_whitelist::msg::QueryMsg::Config {})
            .map(|r| r.num_members as u64)
            .unwrap_or(u64::MAX)
    }
    fn eligible(&self, eth: &str) -> Option<bool> {
        let a = self.airdrop.as_ref()?;
        self.app.wrap().query_wasm_smart::<bool>(a, &sg_eth_airdrop::msg::QueryMsg::AirdropEligible { eth_address: eth.to_string() }).ok()
    }
    fn snap(&self, sender: &str, eth: &str) -> Snap {
        let me = self.airdrop.as_ref().map(|a| a.to_string()).unwrap_or_default();
        Snap { b: self.bal(&me), s: self.bal(sender), c: self.count(eth), m: self.has_member(sender), n: self.num_members() }
    }
}

struct S {
    w: Option<World>,
    header: String,
    log: Vec<String>,
    pending: Option<(String, String)>,
}

impl S {
    fn world(&mut self) -> &mut World {
        self.w.as_mut().expect("begin first")
    }
    fn rebuild(&mut self) {
        let log = std::mem::take(&mut self.log);
        self.w = Some(World::new(&self.header.clone()));
        for l in &log {
            let _ = self.exec_inner(l);
        }
        self.log = log;
    }

    fn exec_inner(&mut self, line: &str) -> Result<(String, String, Option<(String, String)>), String> {
        let op = line.split_whitespace().next().unwrap_or("").to_string();
        let mut finding: Option<(String, String)> = None;
        let bad = |p: &str, what: String| Some((format!("sg-eth-airdrop/{op}/{p}"), format!("{what} on `{line}`")));
        let okerr = |b: bool| if b { "ok" } else { "err" };
        let out: (String, String) = match op.as_str() {
            // ---------------------------------------------------------------- world ops
            "fund" => {
                let to = kv_s(line, "to").ok_or("to")?;
                let amt = kv_u128(line, "amt").ok_or("amt")?;
                let w = self.world();
                if amt > 0 {
                    w.app.sudo(SudoMsg::Bank(BankSudo::Mint { to_address: to.clone(), amount: coins(amt, NATIVE) })).map_err(|e| e.to_string())?;
                }
                if w.airdrop.as_ref().map(|a| a.as_str() == to).unwrap_or(false) {
                    w.expected_self_balance += amt;
                }
                (line.to_string(), format!("ok s={}", w.bal(&to)))
            }
            "inst" => {
                let sender = kv_s(line, "sender").ok_or("sender")?;
                let funds: Vec<Coin> = kv_pairs(line, "funds").ok_or("funds")?.iter().map(|(d, a)| coin(*a, lp_harness::world::denom(*d as u64))).collect();
                let amount = kv_u128(line, "amount").ok_or("amount")?;
                let limit = kv_u64(line, "limit").ok_or("limit")?;
                let tpl = kv_s(line, "tpl").ok_or("tpl")?;
                let addrs = kv_slist(line, "addrs").ok_or("addrs")?;
                let w = self.world();
                if w.airdrop.is_some() {
                    return Err("second inst".into());
                }
                let msg = sg_eth_airdrop::msg::InstantiateMsg {
                    admin: Addr::unchecked(&sender),
                    claim_msg_plaintext: tpl.clone(),
                    airdrop_amount: amount,
                    addresses: addrs.clone(),
                    whitelist_code_id: w.imm_code,
                    minter_address: w.minter.clone(),
                    per_address_limit: limit as u32,
                };
                let code = w.air_code;
                let r = w.app.instantiate_contract(code, Addr::unchecked(&sender), &msg, &funds, "sg-eth-airdrop", None);
                match r {
                    Ok(a) => {
                        w.airdrop = Some(a.clone());
                        w.template = tpl;
                        w.listed = addrs.into_iter().collect();
                        w.limit = limit;
                        w.amount = amount;
                        let b = w.bal(a.as_str());
                        w.expected_self_balance = b;
                        let paid: u128 = funds.iter().filter(|c| c.denom == NATIVE).map(|c| c.amount.u128()).sum();
                        if b != paid - FEE {
                            finding = bad("fee", format!("contract holds {b} after instantiate, expected funds {paid} − fee {FEE}"));
                        }
                        (format!("{line} self={}", hxs(a.as_str())), format!("ok b={} s={}", b, w.bal(&sender)))
                    }
                    Err(_) => (format!("{line} self=-"), format!("err s={}", w.bal(&sender))),
                }
            }
            "claim" => {
                let sender = kv_s(line, "sender").ok_or("sender")?;
                let eth = kv_s(line, "eth").ok_or("eth")?;
                let sig = kv_s(line, "sig").ok_or("sig")?;
                let w = self.world();
                let Some(air) = w.airdrop.clone() else {
                    return Ok((format!("{line} h=- rs=- rec=- pk=- ver=-"), "err".into(), None));
                };
                let text = w.template.replace("{wallet}", &sender);
                let sig_bytes = unhex(sig.as_bytes());
                let wit = witness_for(&text, sig_bytes.as_deref());
                let before = w.snap(&sender, &eth);
                let msg = sg_eth_airdrop::msg::ExecuteMsg::ClaimAirdrop { eth_address: eth.clone(), eth_sig: sig.clone() };
                let r = w.app.execute_contract(Addr::unchecked(&sender), air.clone(), &msg, &[]);
                let ok = r.is_ok();
                let after = w.snap(&sender, &eth);
                // ---- monitors: the property, evaluated on the implementation's own observations
                if ok {
                    *w.succ.entry(eth.clone()).or_insert(0) += 1;
                    w.total_succ += 1;
                    if sender != air.as_str() {
                        w.expected_self_balance -= w.amount.min(w.expected_self_balance);
                    }
                    if !w.listed.contains(&eth) {
                        finding = bad("not-listed-accepted", format!("claim for {eth} accepted but it is not on the airdrop's list"));
                    } else if !well_formed(&sig, &eth) {
                        finding = bad("malformed-accepted", "malformed Ethereum address or signature accepted".into());
                    } else if !indep_valid(&text, &sig, &eth) {
                        finding = bad(
                            "invalid-signature-accepted",
                            format!("signature is not a valid personal-sign signature by {eth} over the claim text for wallet {sender}"),
                        );
                    } else if before.c >= w.limit || w.succ[&eth] > w.limit {
                        finding = bad("limit-exceeded", format!("{eth} claimed {} times, per-address limit {}", w.succ[&eth], w.limit));
                    } else if sender != air.as_str() && (after.s != before.s + w.amount || after.b + w.amount != before.b) {
                        finding = bad("wrong-payout", format!("caller {}→{}, contract {}→{}, airdrop amount {}", before.s, after.s, before.b, after.b, w.amount));
                    } else if !after.m {
                        finding = bad("not-whitelisted", format!("caller {sender} is not on the collection whitelist after a successful claim"));
                    } else if after.c != before.c + 1 {
                        finding = bad("counter", format!("claim counter {}→{}", before.c, after.c));
                    }
                } else if before != after {
                    finding = bad("failed-claim-effect", format!("failed claim changed state {:?} → {:?}", before, after));
                }
                if finding.is_none() && after.b != w.expected_self_balance {
                    finding = bad(
                        "total-paid",
                        format!("contract balance {} ≠ funded − {} successful claims × {} = {}", after.b, w.total_succ, w.amount, w.expected_self_balance),
                    );
                }
                let e = w.eligible(&eth).unwrap_or(false);
                (
                    format!("{line}{}", wit.render()),
                    format!("{} b={} s={} c={} m={} n={} e={}", okerr(ok), after.b, after.s, after.c, after.m as u8, after.n, e as u8),
                )
            }
            "cwl_add" | "cwl_rm" => {
                let sender = kv_s(line, "sender").ok_or("sender")?;
                let who = kv_s(line, "who").ok_or("who")?;
                let w = self.world();
                let ok = match w.cwl.clone() {
                    None => false,
                    Some(c) => {
                        let msg = if op == "cwl_add" {
                            sg_whitelist::msg::ExecuteMsg::AddMembers(sg_whitelist::msg::AddMembersMsg { to_add: vec![who.clone()] })
                        } else {
                            sg_whitelist::msg::ExecuteMsg::RemoveMembers(sg_whitelist::msg::RemoveMembersMsg { to_remove: vec![who.clone()] })
                        };
                        w.app.execute_contract(Addr::unchecked(&sender), c, &msg, &[]).is_ok()
                    }
                };
                let n = if w.cwl.is_some() { w.num_members() } else { 0 };
                (line.to_string(), format!("{} n={} m={}", okerr(ok), n, w.has_member(&who) as u8))
            }
            "cwl_admins" => {
                let sender = kv_s(line, "sender").ok_or("sender")?;
                let admins = kv_slist(line, "admins").ok_or("admins")?;
                let w = self.world();
                let ok = match w.cwl.clone() {
                    None => false,
                    Some(c) => w.app.execute_contract(Addr::unchecked(&sender), c, &sg_whitelist::msg::ExecuteMsg::UpdateAdmins { admins }, &[]).is_ok(),
                };
                (line.to_string(), okerr(ok).to_string())
            }
            "q_elig" => {
                let eth = kv_s(line, "eth").ok_or("eth")?;
                let w = self.world();
                match w.eligible(&eth) {
                    Some(b) => {
                        if b != w.listed.contains(&eth) {
                            finding = bad("eligible-query", format!("AirdropEligible({eth}) = {b} but listed = {}", !b));
                        }
                        (line.to_string(), format!("ok {}", b as u8))
                    }
                    None => (line.to_string(), "err".into()),
                }
            }
            "q_imm" => {
                // the whitelist-immutable the reply registered: distinct-address count and per-address limit
                let w = self.world();
                match w.airdrop.clone() {
                    None => (line.to_string(), "err".into()),
                    Some(a) => {
                        let raw = w.app.wrap().query_wasm_raw(a, b"cfg".to_vec()).map_err(|e| e.to_string())?.ok_or("no cfg")?;
                        let cfg: serde_json::Value = serde_json::from_slice(&raw).map_err(|e| e.to_string())?;
                        let imm = cfg["whitelist_address"].as_str().ok_or("no whitelist_address")?.to_string();
                        let count: u64 = w.app.wrap().query_wasm_smart(&imm, &whitelist_immutable::msg::QueryMsg::AddressCount {}).map_err(|e| e.to_string())?;
                        let limit: u32 = w.app.wrap().query_wasm_smart(&imm, &whitelist_immutable::msg::QueryMsg::PerAddressLimit {}).map_err(|e| e.to_string())?;
                        let distinct = w.listed.len() as u64;
                        if count != distinct || limit as u64 != w.limit {
                            finding = bad("immutable-list", format!("whitelist-immutable has {count} addresses / limit {limit}; instantiated with {distinct} distinct / {}", w.limit));
                        }
                        (line.to_string(), format!("ok count={count} limit={limit}"))
                    }
                }
            }
            "q_minter" => {
                let w = self.world();
                match w.airdrop.clone() {
                    None => (line.to_string(), "err".into()),
                    Some(a) => {
                        let m: Addr = w.app.wrap().query_wasm_smart(a, &sg_eth_airdrop::msg::QueryMsg::GetMinter {}).map_err(|e| e.to_string())?;
                        (line.to_string(), format!("ok {}", (m == w.minter) as u8))
                    }
                }
            }
            // ---------------------------------------------------------------- function level
            "repl" => {
                let tpl = kv_s(line, "tpl").ok_or("tpl")?;
                let wl = kv_s(line, "w").ok_or("w")?;
                (line.to_string(), format!("ok {}", hxs(&tpl.replace("{wallet}", &wl))))
            }
            "replp" => {
                let pat = kv_s(line, "pat").ok_or("pat")?;
                let rep = kv_s(line, "rep").ok_or("rep")?;
                let s = kv_s(line, "s").ok_or("s")?;
                (line.to_string(), format!("ok {}", hxs(&s.replace(pat.as_str(), &rep))))
            }
            "contains" => {
                let tpl = kv_s(line, "tpl").ok_or("tpl")?;
                (line.to_string(), format!("ok {}", tpl.contains("{wallet}") as u8))
            }
            "keccak" => {
                let d = kv_b(line, "d").ok_or("d")?;
                (line.to_string(), format!("ok {}", hx(&keccak(&d))))
            }
            "envelope" => {
                let t = kv_s(line, "text").ok_or("text")?;
                let mut v = format!("\x19Ethereum Signed Message:\n{}", t.len()).into_bytes();
                v.extend_from_slice(t.as_bytes());
                (line.to_string(), format!("ok {}", hx(&v)))
            }
            "hexdec" => {
                let s = kv_s(line, "s").ok_or("s")?;
                match hex::decode(&s) {
                    Ok(b) => (line.to_string(), format!("ok {}", hx(&b))),
                    Err(_) => (line.to_string(), "err".into()),
                }
            }
            "decode" => {
                let a = kv_s(line, "a").ok_or("a")?;
                match ethereum_verify::decode_address(&a) {
                    Ok(b) => {
                        if decode_eth_manual(&a).is_none() {
                            finding = bad("malformed-accepted", "decode_address accepted a malformed address".into());
                        }
                        (line.to_string(), format!("ok {}", hx(&b)))
                    }
                    Err(_) => (line.to_string(), "err".into()),
                }
            }
            "recparam" => {
                let v = kv_u64(line, "v").ok_or("v")?;
                if v > 255 {
                    (line.to_string(), "err".into())
                } else {
                    match ethereum_verify::get_recovery_param(v as u8) {
                        Ok(r) => {
                            if recid_of(v as u8) != Some(r) {
                                finding = bad("malformed-accepted", format!("recovery id {v} accepted as {r}"));
                            }
                            (line.to_string(), format!("ok {r}"))
                        }
                        Err(_) => (line.to_string(), "err".into()),
                    }
                }
            }
            "verify" => {
                let text = kv_s(line, "text").ok_or("text")?;
                let sig = kv_b(line, "sig").ok_or("sig")?;
                let signer = kv_s(line, "signer").ok_or("signer")?;
                let wit = witness_for(&text, Some(&sig));
                let deps = mock_dependencies();
                let r = ethereum_verify::verify_ethereum_text(deps.as_ref(), &text, &sig, &signer);
                let o = match r {
                    Ok(b) => {
                        if b && !indep_valid(&text, &hex::encode(&sig), &signer) {
                            finding = bad("invalid-signature-accepted", "verify_ethereum_text returned true for a signature the independent check rejects".into());
                        }
                        format!("ok {}", b as u8)
                    }
                    Err(_) => "err".into(),
                };
                (format!("{line}{}", wit.render()), o)
            }
            _ => return Err(format!("bad op {op}")),
        };
        Ok((out.0, out.1, finding))
    }
}

impl Sut for S {
    fn begin(&mut self, header: &str) -> (String, String) {
        self.header = header.to_string();
        self.log.clear();
        self.pending = None;
        self.w = Some(World::new(header));
        (header.to_string(), "case".to_string())
    }
    fn exec(&mut self, line: &str) -> (String, String) {
        self.pending = None;
        let l = line.to_string();
        let r = catch(|| self.exec_inner(&l));
        match r {
            Ok(Ok((m, o, f))) => {
                self.log.push(l);
                self.pending = f;
                (m, o)
            }
            Ok(Err(_)) => (l, "bad-op".into()),
            Err(_) => {
                // a panic inside contract code = failed transaction; the App may be half-written: rebuild
                self.rebuild();
                (l, "err".into())
            }
        }
    }
    fn monitor(&mut self) -> Option<(String, String)> {
        self.pending.take()
    }
}

/// Wildcard-free matches over the message enums the model covers: a new / renamed message kind (say, a way to
/// withdraw coins or to edit the immutable list) stops this file from compiling instead of going unnoticed.
#[allow(dead_code)]
fn message_surface(e: &sg_eth_airdrop::msg::ExecuteMsg, q: &sg_eth_airdrop::msg::QueryMsg) -> (&'static str, &'static str) {
    use sg_eth_airdrop::msg::{ExecuteMsg as E, QueryMsg as Q};
    (
        match e {
            E::ClaimAirdrop { eth_address: _, eth_sig: _ } => "claim",
        },
        match q {
            Q::AirdropEligible { eth_address: _ } => "q_elig",
            Q::GetMinter {} => "q_minter",
        },
    )
}
/// whitelist-immutable has no execute messages at all: the airdrop's list cannot be edited
#[allow(dead_code)]
fn immutable_surface(i: &whitelist_immutable::msg::ExecuteMsg) -> ! {
    match *i {}
}

// ------------------------------------------------------------------------------------------------ generators

#[derive(Clone)]
struct Key {
    sk: SigningKey,
    /// the string under which this key appears in claims (casing varies)
    eth: String,
}
fn new_key(rng: &mut Rng, style: u64) -> Key {
    loop {
        let mut b = [0u8; 32];
        for c in b.chunks_mut(8) {
            c.copy_from_slice(&rng.next_u64().to_be_bytes());
        }
        if let Ok(sk) = SigningKey::from_bytes(&b.into()) {
            let pk = sk.verifying_key().to_encoded_point(false);
            let addr = eth_addr_of_pk(pk.as_bytes()).unwrap();
            let lower = hex::encode(addr);
            let eth = match style {
                0 => format!("0x{}", lower.to_uppercase()),
                1 => format!("0x{}", lower.chars().enumerate().map(|(i, c)| if i % 3 == 0 { c.to_ascii_uppercase() } else { c }).collect::<String>()),
                _ => format!("0x{lower}"),
            };
            let _ = addr;
            return Key { sk, eth };
        }
    }
}
/// r‖s‖v over the personal-sign digest of `text`; `raw_v`: v ∈ {0,1} instead of {27,28}
fn sign(k: &Key, text: &str, raw_v: bool) -> Vec<u8> {
    let d = personal_digest(text);
    let (sig, rid) = k.sk.sign_prehash_recoverable(&d).expect("sign");
    let mut v = sig.to_bytes().to_vec();
    v.push(rid.to_byte() + if raw_v { 0 } else { 27 });
    v
}
/// (r, n−s, v with flipped parity): the "other" encoding of the same signature
fn malleate(sig: &[u8], flip_v: bool) -> Vec<u8> {
    let s = Option::<Scalar>::from(Scalar::from_repr(FieldBytes::clone_from_slice(&sig[32..64]))).unwrap();
    let mut out = sig[..32].to_vec();
    out.extend_from_slice(&(-s).to_repr());
    let v = sig[64];
    out.push(if !flip_v {
        v
    } else {
        match v {
            27 => 28,
            28 => 27,
            0 => 1,
            1 => 0,
            x => x,
        }
    });
    out
}

const TEMPLATES: &[&str] = &[
    "My Stargaze address is {wallet} and I want a Winter Pal.",
    "{wallet}",
    "x{wallet}",
    "{wallet}y",
    "{wallet}{wallet}",
    "{{wallet}",
    "{wallet}}",
    "{wallet{wallet}}",
    "{wallet} {WALLET} {wallet }{wallet}",
    "{wal{wallet}let}",
    "claim for {wallet} — ✓ ĞM {wallet}\n",
    "a{wallet}b{wallet}c{wallet}d",
    "{wallet{wallet{wallet}",
];
const WALLETS: &[&str] = &[
    "acct00001", "acct00002", "acct00003", "acct000031", "acct0000", "{wallet}", "a{wallet}b", "wallet}", "{wallet", "stars1qqqq4kdla12mh86psg4y4h6hh05g2hmqoap350",
    "stars1qqqq4kdla12mh86psg4y4h6hh05g2hmqoap35", "buyer2", "xyz",
];

struct Scn {
    keys: Vec<Key>,
    template: String,
    limit: u64,
    live: bool,
}

fn claim_line(sender: &str, eth: &str, sig: &str) -> String {
    format!("claim sender={} eth={} sig={}", hxs(sender), hxs(eth), hxs(sig))
}

/// one claim op of mutation kind `kind`; returns (line, kind label)
fn gen_claim(rng: &mut Rng, sc: &Scn, kind: u64, ki: usize, wi: usize) -> (String, &'static str) {
    let k = &sc.keys[ki];
    let w = WALLETS[wi];
    let text = sc.template.replace("{wallet}", w);
    let good = sign(k, &text, false);
    let h = |b: &[u8]| hex::encode(b);
    match kind {
        0 => (claim_line(w, &k.eth, &h(&good)), "valid"),
        1 => (claim_line(w, &k.eth, &h(&sign(k, &text, true))), "valid-raw-v"),
        2 => (claim_line(w, &k.eth, &h(&good).to_uppercase()), "valid-upper-hex"),
        3 => {
            let w2 = WALLETS[(wi + 1 + rng.below(WALLETS.len() as u64 - 1) as usize) % WALLETS.len()];
            (claim_line(w2, &k.eth, &h(&good)), "replay-other-wallet")
        }
        4 => {
            let k2 = &sc.keys[(ki + 1) % sc.keys.len()];
            (claim_line(w, &k.eth, &h(&sign(k2, &text, false))), "other-key")
        }
        5 => {
            let mut s = good.clone();
            let bit = rng.below(64 * 8) as usize;
            s[bit / 8] ^= 1 << (bit % 8);
            (claim_line(w, &k.eth, &h(&s)), "bit-flip")
        }
        6 => {
            let s: Vec<u8> = match rng.below(6) {
                0 => good[..64].to_vec(),
                1 => {
                    let mut x = good.clone();
                    x.push(27);
                    x
                }
                2 => vec![],
                3 => vec![27],
                4 => good[1..].to_vec(),
                _ => {
                    let mut x = good[..63].to_vec();
                    x.push(good[64]);
                    x
                }
            };
            (claim_line(w, &k.eth, &h(&s)), "wrong-length")
        }
        7 => {
            let mut s = good.clone();
            s[64] = rng.below(256) as u8;
            (claim_line(w, &k.eth, &h(&s)), "random-v")
        }
        8 => {
            let mut t = h(&good);
            match rng.below(4) {
                0 => {
                    let i = rng.below(t.len() as u64) as usize;
                    t.replace_range(i..i + 1, "g");
                }
                1 => {
                    t.pop();
                }
                2 => t = format!("0x{t}"),
                _ => t.push(' '),
            }
            (claim_line(w, &k.eth, &t), "non-hex")
        }
        9 => (claim_line(w, &k.eth, &h(&malleate(&good, true))), "high-s-flipped-v"),
        10 => (claim_line(w, &k.eth, &h(&malleate(&good, false))), "high-s-same-v"),
        11 => {
            let t2 = format!("{} ", sc.template).replace("{wallet}", w);
            (claim_line(w, &k.eth, &h(&sign(k, &t2, false))), "other-message")
        }
        12 => {
            // same 20 bytes, other casing of the address string (eligibility is by string)
            let alt = if k.eth[2..].chars().any(|c| c.is_ascii_uppercase()) { format!("0x{}", k.eth[2..].to_lowercase()) } else { format!("0x{}", k.eth[2..].to_uppercase()) };
            (claim_line(w, &alt, &h(&good)), "other-casing")
        }
        13 => {
            // malformed variants of the address string (some of them are put on the list by the scenario)
            let e = malformed_eth(&k.eth, rng.below(6));
            (claim_line(w, &e, &h(&good)), "malformed-address")
        }
        14 => {
            // signature over the bare keccak of the text (no personal-sign envelope)
            let d = keccak(text.as_bytes());
            let (sig, rid) = k.sk.sign_prehash_recoverable(&d).unwrap();
            let mut s = sig.to_bytes().to_vec();
            s.push(27 + rid.to_byte());
            (claim_line(w, &k.eth, &h(&s)), "no-envelope")
        }
        _ => {
            // wrong v parity only
            let s = {
                let mut x = good.clone();
                x[64] = if x[64] == 27 { 28 } else { 27 };
                x
            };
            (claim_line(w, &k.eth, &h(&s)), "flipped-v")
        }
    }
}
fn malformed_eth(eth: &str, which: u64) -> String {
    match which {
        0 => eth[..41].to_string(),
        1 => format!("{eth}0"),
        2 => format!("00{}", &eth[2..]),
        3 => {
            let mut s = eth.to_string();
            s.replace_range(10..11, "g");
            s
        }
        4 => format!("0X{}", &eth[2..]),
        _ => {
            // 42 bytes with a two-byte UTF-8 character
            let mut s = eth[..40].to_string();
            s.push('é');
            s
        }
    }
}

/// the state class a claim for `eth` meets (harness-side observations only): listed? below the limit?
/// collection whitelist: none / airdrop contract not an admin / full / open; contract solvent?
fn state_class(sut: &S, eth: &str) -> String {
    let Some(w) = sut.w.as_ref() else { return "-".into() };
    let Some(air) = w.airdrop.as_ref() else { return "noinst".into() };
    let c = w.count(eth);
    let wl = match &w.cwl {
        None => "nowl",
        Some(c) => {
            let admins: Vec<String> = w
                .app
                .wrap()
                .query_wasm_smart::<sg_whitelist::msg::AdminListResponse>(c, &sg_whitelist::msg::QueryMsg::AdminList {})
                .map(|r| r.admins)
                .unwrap_or_default();
            let cfg = w.app.wrap().query_wasm_smart::<sg_whitelist::msg::ConfigResponse>(c, &sg_whitelist::msg::QueryMsg::Config {}).ok();
            let full = cfg.map(|c| c.num_members >= c.member_limit).unwrap_or(false);
            if !admins.iter().any(|a| a == air.as_str()) {
                "notadmin"
            } else if full {
                "full"
            } else {
                "open"
            }
        }
    };
    format!(
        "{}{}{}{}",
        if w.listed.contains(eth) { "L" } else { "u" },
        if c < w.limit { "<" } else { "=" },
        wl,
        if w.bal(air.as_str()) >= w.amount { "$" } else { "!" }
    )
}

fn run_world_case(ses: &mut Session, sut: &mut S, rng: &mut Rng, idx: u64, n_ops: u64) {
    // ---------- scenario
    let wl = !rng.chance(1, 12);
    let wlimit = *rng.pick(&[1u64, 2, 3, 5, 40, 40, 40, 40, 40, 40, 40, 40]);
    let header = format!("case world-{idx} wl={} wlimit={wlimit} admin={}", wl as u8, hxs(CREATOR));
    ses.begin_case(sut, &header);
    let nkeys = rng.range(2, 4) as usize;
    let keys: Vec<Key> = (0..nkeys)
        .map(|_| {
            let st = rng.below(6);
            new_key(rng, st)
        })
        .collect();
    let template = if rng.chance(1, 15) { format!("{}{}", "z".repeat(992 - rng.below(3) as usize), "{wallet}") } else { rng.pick(TEMPLATES).to_string() };
    let limit = *rng.pick(&[0u64, 1, 1, 2, 3, 4, 6, 9, 15]);
    let amount = *rng.pick(&[MIN_AIRDROP, MIN_AIRDROP + 1, 66_000_000, 123_456_789, 1_000_000_000]);
    // the list: most keys, sometimes other casings, malformed entries, duplicates
    let mut list: Vec<String> = vec![];
    for (i, k) in keys.iter().enumerate() {
        if i == 0 || rng.chance(3, 4) {
            list.push(k.eth.clone());
        }
        if rng.chance(1, 5) {
            list.push(format!("0x{}", k.eth[2..].to_lowercase()));
        }
        if rng.chance(1, 4) {
            list.push(malformed_eth(&k.eth, rng.below(6)));
        }
        if rng.chance(1, 6) {
            list.push(k.eth.clone());
        }
    }
    rng.shuffle(&mut list);
    let claims_funded = if rng.chance(1, 4) { rng.range(0, 3) } else { rng.range(3, 30) } as u128;
    let short = if rng.chance(1, 4) { 1 } else { 0 };
    let funding = FEE + (amount * claims_funded).saturating_sub(short);
    let inst_sender = "acct00900";
    ses.step(sut, &format!("fund to={} amt={}", hxs(inst_sender), funding + 5));
    // ---------- instantiate (sometimes first a faulty attempt)
    let inst = |tpl: &str, amount: u128, funds: &str, addrs: &[String], limit: u64| {
        format!("inst sender={} funds={funds} amount={amount} limit={limit} tpl={} addrs={}", hxs(inst_sender), hxs(tpl), hx_list(addrs))
    };
    if rng.chance(1, 3) {
        let f = rng.below(12);
        let l = match f {
            0 => inst(&template, MIN_AIRDROP - 1, &format!("0:{funding}"), &list, limit),
            1 => inst(&template, MAX_AIRDROP + 1, &format!("0:{funding}"), &list, limit),
            2 => inst(&template.replace("{wallet}", "{wallet"), amount, &format!("0:{funding}"), &list, limit),
            3 => inst(&format!("{}{}", "z".repeat(993), "{wallet}"), amount, &format!("0:{funding}"), &list, limit),
            4 => inst(&template, amount, &format!("0:{}", FEE - 1), &list, limit),
            5 => inst(&template, amount, "-", &list, limit),
            6 => inst(&template, amount, &format!("1:{funding}"), &list, limit),
            7 => inst(&template, amount, &format!("0:{FEE},1:5"), &list, limit),
            8 => inst(&template, amount, &format!("0:{funding}"), &[], limit),
            9 => inst(&template, amount, &format!("0:{}", funding + 6), &list, limit),
            10 => inst("", amount, &format!("0:{funding}"), &list, limit),
            _ => inst(&template, 0, &format!("0:{funding}"), &list, limit),
        };
        let o = ses.step(sut, &l);
        ses.mark(format!("inst:fault{f}:{}", o.split(' ').next().unwrap_or("")));
    }
    // claims before the contract exists
    if rng.chance(1, 10) {
        let sc0 = Scn { keys: keys.clone(), template: template.clone(), limit, live: false };
        let (l, _) = gen_claim(rng, &sc0, 0, 0, 0);
        ses.step(sut, &l);
        ses.step(sut, &format!("q_elig eth={}", hxs(&keys[0].eth)));
        ses.mark("claim:before-inst");
    }
    let live = sut.w.as_ref().map(|w| w.airdrop.is_some()).unwrap_or(false);
    if !live {
        let o = ses.step(sut, &inst(&template, amount, &format!("0:{funding}"), &list, limit));
        ses.mark(format!("inst:valid:{}:tpl{}:lim{limit}", o.split(' ').next().unwrap_or(""), template.len().min(1000) / 500));
    }
    let live = sut.w.as_ref().map(|w| w.airdrop.is_some()).unwrap_or(false);
    let sc = Scn { keys, template, limit, live };
    if !sc.live {
        ses.end_case();
        return;
    }
    let me = sut.w.as_ref().unwrap().airdrop.clone().unwrap().to_string();
    // make the airdrop contract an admin of the collection whitelist (as the repo's test does) — mostly
    let admin_mode = rng.below(14);
    if admin_mode > 0 {
        ses.step(sut, &format!("cwl_admins sender={} admins={}", hxs(CREATOR), hx_list(&[CREATOR.to_string(), me.clone()])));
    }
    for k in &sc.keys {
        ses.step(sut, &format!("q_elig eth={}", hxs(&k.eth)));
    }
    ses.step(sut, "q_minter");
    ses.step(sut, "q_imm");
    // ---------- operations
    for _ in 0..n_ops {
        let r = rng.below(100);
        if r < 78 {
            let ki = rng.below(sc.keys.len() as u64) as usize;
            let wi = rng.below(WALLETS.len() as u64) as usize;
            let kind = if rng.chance(11, 20) { rng.below(3) } else { 3 + rng.below(13) };
            let (l, label) = gen_claim(rng, &sc, kind, ki, wi);
            let eth = kv_s(&l, "eth").unwrap();
            let cls = state_class(sut, &eth);
            let o = ses.step(sut, &l);
            ses.count(&format!("claim-kind:{label}:{}", o.split(' ').next().unwrap_or("")));
            if kind < 3 {
                ses.count(&format!("valid-claim-meets:{cls}:{}", o.split(' ').next().unwrap_or("")));
            }
            ses.mark(format!("claim:{label}:{}:{cls}", o.split(' ').next().unwrap_or("")));
        } else if r < 84 {
            let amt = *rng.pick(&[1u128, sc_amount(sut), sc_amount(sut) - 1, 5 * sc_amount(sut)]);
            ses.step(sut, &format!("fund to={} amt={amt}", hxs(&me)));
            ses.mark("fund:self");
        } else if r < 90 {
            let who = *rng.pick(WALLETS);
            let sender = if rng.chance(4, 5) { CREATOR } else { "buyer" };
            let o = ses.step(sut, &format!("cwl_add sender={} who={}", hxs(sender), hxs(who)));
            ses.mark(format!("cwl_add:{}:{}", sender, o.split(' ').next().unwrap_or("")));
        } else if r < 94 {
            let who = *rng.pick(WALLETS);
            let o = ses.step(sut, &format!("cwl_rm sender={} who={}", hxs(CREATOR), hxs(who)));
            ses.mark(format!("cwl_rm:{}", o.split(' ').next().unwrap_or("")));
        } else if r < 97 {
            let with_me = rng.chance(5, 6);
            let sender = if rng.chance(5, 6) { CREATOR } else { "buyer" };
            let mut admins = vec![CREATOR.to_string()];
            if with_me {
                admins.push(me.clone());
            }
            let o = ses.step(sut, &format!("cwl_admins sender={} admins={}", hxs(sender), hx_list(&admins)));
            ses.mark(format!("cwl_admins:{with_me}:{}", o.split(' ').next().unwrap_or("")));
        } else {
            let k = rng.pick(&sc.keys).clone();
            let e = if rng.chance(1, 2) { k.eth.clone() } else { malformed_eth(&k.eth, rng.below(6)) };
            ses.step(sut, &format!("q_elig eth={}", hxs(&e)));
        }
    }
    let _ = sc.limit;
    ses.end_case();
}
fn sc_amount(sut: &S) -> u128 {
    sut.w.as_ref().map(|w| w.amount).unwrap_or(MIN_AIRDROP)
}

/// a fixed, fully valid deployment: `nkeys` listed keys, airdrop contract is whitelist admin, funded for `funded` claims
fn std_world(ses: &mut Session, sut: &mut S, rng: &mut Rng, name: &str, template: &str, limit: u64, nkeys: usize, funded: u128, wlimit: u64) -> (Scn, String) {
    let keys: Vec<Key> = (0..nkeys).map(|_| new_key(rng, 5)).collect();
    std_world_with(ses, sut, keys, name, template, limit, funded, wlimit)
}
fn std_world_with(ses: &mut Session, sut: &mut S, keys: Vec<Key>, name: &str, template: &str, limit: u64, funded: u128, wlimit: u64) -> (Scn, String) {
    ses.begin_case(sut, &format!("case {name} wl=1 wlimit={wlimit} admin={}", hxs(CREATOR)));
    let list: Vec<String> = keys.iter().map(|k| k.eth.clone()).collect();
    let amount = 66_000_000u128;
    ses.step(sut, &format!("fund to={} amt={}", hxs("acct00900"), FEE + amount * funded));
    ses.step(
        sut,
        &format!("inst sender={} funds=0:{} amount={amount} limit={limit} tpl={} addrs={}", hxs("acct00900"), FEE + amount * funded, hxs(template), hx_list(&list)),
    );
    let me = sut.w.as_ref().unwrap().airdrop.clone().expect("std world instantiates").to_string();
    ses.step(sut, &format!("cwl_admins sender={} admins={}", hxs(CREATOR), hx_list(&[CREATOR.to_string(), me.clone()])));
    (Scn { keys, template: template.to_string(), limit, live: true }, me)
}

fn main() {
    let mut ses = Session::new("C16");
    let mut sut = S { w: None, header: String::new(), log: vec![], pending: None };
    if ses.maybe_replay(&mut sut) {
        ses.finish(&mut sut);
    }
    let mut rng = ses.rng.fork();

    // ------------------------------------------------------------------ 1. function level
    ses.begin_case(&mut sut, &format!("case functions wl=0 wlimit=0 admin={}", hxs(CREATOR)));
    // str::replace / contains on adversarial templates × adversarial wallets
    let mut tpls: Vec<String> = TEMPLATES.iter().map(|s| s.to_string()).collect();
    tpls.extend(["", "{", "}", "{wallet", "wallet}", "{wallet}{", "{{{wallet}}}", "{wallet}{wallet}{wallet}", "{walle{wallet}t}", "é{wallet}é", "{wallet}\u{1F600}{wallet}"].iter().map(|s| s.to_string()));
    let n_rand_tpl = ses.scale(300, 20_000);
    for _ in 0..n_rand_tpl {
        // random strings over a tiny alphabet that makes partial and overlapping matches likely
        let n = rng.below(24);
        let mut s = String::new();
        for _ in 0..n {
            match rng.below(8) {
                0 | 1 => s.push_str("{wallet}"),
                2 => s.push_str("{wallet"),
                3 => s.push_str("wallet}"),
                4 => s.push('{'),
                5 => s.push('}'),
                6 => s.push_str("{w"),
                _ => s.push('a'),
            }
        }
        tpls.push(s);
    }
    for (i, t) in tpls.iter().enumerate() {
        ses.step(&mut sut, &format!("contains tpl={}", hxs(t)));
        for w in [WALLETS[i % WALLETS.len()], WALLETS[(i * 7 + 3) % WALLETS.len()], ""] {
            ses.step(&mut sut, &format!("repl tpl={} w={}", hxs(t), hxs(w)));
        }
        ses.mark(format!("repl:occ{}:len{}", t.matches("{wallet}").count().min(4), t.len().min(64) / 16));
    }
    // generic pattern replace: overlapping occurrences
    for _ in 0..ses.scale(300, 20_000) {
        let alpha = ["a", "b", "ab", "aa"];
        let pat: String = (0..rng.range(1, 3)).map(|_| *rng.pick(&alpha)).collect();
        let s: String = (0..rng.below(12)).map(|_| *rng.pick(&alpha)).collect();
        let rep: String = (0..rng.below(3)).map(|_| *rng.pick(&["a", "b", "c", "ab"])).collect();
        ses.step(&mut sut, &format!("replp pat={} rep={} s={}", hxs(&pat), hxs(&rep), hxs(&s)));
    }
    ses.mark("replp:overlap");
    // Keccak-256 (Lean implementation vs sha3) incl. the rate boundaries 135/136/137, 271/272/273
    for n in (0..300usize).chain([407, 408, 409, 1000, 1090]) {
        let d: Vec<u8> = (0..n).map(|_| rng.below(256) as u8).collect();
        ses.step(&mut sut, &format!("keccak d={}", hx(&d)));
        ses.mark(format!("keccak:blocks{}:{}", n / 136, if n % 136 == 135 { "pad1" } else if n % 136 == 0 { "full" } else { "mid" }));
    }
    // envelope: decimal length boundaries
    for n in [0usize, 1, 9, 10, 11, 99, 100, 101, 999, 1000, 1001, 1090] {
        let t: String = (0..n).map(|_| (b'a' + rng.below(26) as u8) as char).collect();
        ses.step(&mut sut, &format!("envelope text={}", hxs(&t)));
        ses.mark(format!("envelope:digits{}", n.to_string().len()));
    }
    ses.step(&mut sut, &format!("envelope text={}", hxs("héllo ✓")));
    // hex::decode
    for s in ["", "0", "00", "0g", "g0", "abCDef", "ABCDEF0123456789", "0x00", " 00", "00 ", "é0", "0é", "000"] {
        ses.step(&mut sut, &format!("hexdec s={}", hxs(s)));
    }
    ses.mark("hexdec:edge");
    // decode_address
    let k0 = new_key(&mut rng, 5);
    let mut addrs: Vec<String> = vec![k0.eth.clone(), k0.eth.to_uppercase(), format!("0x{}", k0.eth[2..].to_uppercase()), format!("0X{}", &k0.eth[2..]), String::new(), "0x".into()];
    for i in 0..6 {
        addrs.push(malformed_eth(&k0.eth, i));
    }
    addrs.push(format!("{}  ", &k0.eth[..40]));
    addrs.push(format!("0x{}", "0".repeat(40)));
    addrs.push(format!("0x{}", "f".repeat(40)));
    addrs.push(format!("0x{}", "G".repeat(40)));
    addrs.push("0".repeat(42));
    for l in 38..46 {
        addrs.push(format!("0x{}", "a".repeat(l)));
    }
    for a in &addrs {
        let o = ses.step(&mut sut, &format!("decode a={}", hxs(a)));
        ses.mark(format!("decode:len{}:{}", a.len().min(50), o.split(' ').next().unwrap_or("")));
    }
    // get_recovery_param: every byte
    for v in 0..=255u64 {
        let o = ses.step(&mut sut, &format!("recparam v={v}"));
        ses.mark(format!("recparam:{}", if o == "err" { "err".to_string() } else { format!("ok{v}") }));
    }
    // verify_ethereum_text: every v, every length, bit flips, other signer, other message
    let nk = ses.scale(3, 40);
    for _ in 0..nk {
        let k = new_key(&mut rng, 5);
        let k2 = new_key(&mut rng, 5);
        let text: String = { let n = rng.below(80); (0..n).map(|_| (b' ' + rng.below(90) as u8) as char).collect() };
        let good = sign(&k, &text, false);
        let vline = |text: &str, sig: &[u8], signer: &str| format!("verify text={} sig={} signer={}", hxs(text), hx(sig), hxs(signer));
        let o = ses.step(&mut sut, &vline(&text, &good, &k.eth));
        assert_eq!(o, "ok 1", "a freshly made signature must verify");
        ses.mark("verify:valid:ok1");
        for v in 0..=255u8 {
            let mut s = good.clone();
            s[64] = v;
            let o = ses.step(&mut sut, &vline(&text, &s, &k.eth));
            ses.mark(format!("verify:v{}:{}", if recid_of(v).is_some() { v.to_string() } else { "other".into() }, o.replace(' ', "")));
        }
        for len in 0..=130usize {
            let s: Vec<u8> = (0..len).map(|i| if i < 65 { good[i] } else { 27 }).collect();
            let mut s2 = s.clone();
            if len > 0 {
                *s2.last_mut().unwrap() = good[64];
            }
            for x in [s, s2] {
                let o = ses.step(&mut sut, &vline(&text, &x, &k.eth));
                ses.mark(format!("verify:len{}:{}", if len == 65 { "65" } else if len < 65 { "short" } else { "long" }, o.replace(' ', "")));
            }
        }
        for bit in 0..(64 * 8) {
            if bit % ses.scale(7, 1) as usize != 0 {
                continue;
            }
            let mut s = good.clone();
            s[bit / 8] ^= 1 << (bit % 8);
            let o = ses.step(&mut sut, &vline(&text, &s, &k.eth));
            ses.mark(format!("verify:bitflip:{}", o.replace(' ', "")));
        }
        let o = ses.step(&mut sut, &vline(&text, &good, &k2.eth));
        ses.mark(format!("verify:other-signer:{}", o.replace(' ', "")));
        let o = ses.step(&mut sut, &vline(&format!("{text}."), &good, &k.eth));
        ses.mark(format!("verify:other-message:{}", o.replace(' ', "")));
        let o = ses.step(&mut sut, &vline(&text, &sign(&k2, &text, false), &k.eth));
        ses.mark(format!("verify:other-key:{}", o.replace(' ', "")));
        let o = ses.step(&mut sut, &vline(&text, &malleate(&good, true), &k.eth));
        ses.mark(format!("verify:high-s-flipped-v:{}", o.replace(' ', "")));
        let o = ses.step(&mut sut, &vline(&text, &malleate(&good, false), &k.eth));
        ses.mark(format!("verify:high-s-same-v:{}", o.replace(' ', "")));
        let o = ses.step(&mut sut, &vline(&text, &sign(&k, &text, true), &k.eth));
        ses.mark(format!("verify:raw-v:{}", o.replace(' ', "")));
        let o = ses.step(&mut sut, &vline(&text, &good, &format!("0x{}", k.eth[2..].to_uppercase())));
        ses.mark(format!("verify:upper-signer:{}", o.replace(' ', "")));
        for i in 0..6 {
            let o = ses.step(&mut sut, &vline(&text, &good, &malformed_eth(&k.eth, i)));
            ses.mark(format!("verify:malformed-signer{i}:{}", o.replace(' ', "")));
        }
        // r or s out of range / zero
        for (r0, s0) in [(0u8, 1u8), (1, 0), (255, 1), (1, 255)] {
            let mut s = vec![r0; 32];
            s.extend(vec![s0; 32]);
            s.push(27);
            let o = ses.step(&mut sut, &vline(&text, &s, &k.eth));
            ses.mark(format!("verify:degenerate-rs:{}", o.replace(' ', "")));
        }
    }
    ses.end_case();

    // ------------------------------------------------------------------ 2. every recovery byte through the contract
    {
        let (sc, _me) = std_world(&mut ses, &mut sut, &mut rng, "v-sweep", "My Stargaze address is {wallet} and I want a Winter Pal.", 300, 1, 4, 40);
        let k = &sc.keys[0];
        let w = "acct00001";
        let good = sign(k, &sc.template.replace("{wallet}", w), false);
        for v in 0..=255u8 {
            let mut s = good.clone();
            s[64] = v;
            let o = ses.step(&mut sut, &claim_line(w, &k.eth, &hex::encode(&s)));
            ses.mark(format!("claim:v{}:{}", if recid_of(v).is_some() { v.to_string() } else { "other".into() }, o.split(' ').next().unwrap()));
        }
        ses.end_case();
    }
    // ------------------------------------------------------------------ 3. claim orders up to and past the limit, several keys
    for limit in 0..=3u64 {
        let (sc, _me) = std_world(&mut ses, &mut sut, &mut rng, &format!("limit-{limit}"), "{wallet} claims", limit, 3, 3 * limit as u128 + 1, 40);
        for round in 0..limit + 2 {
            for (ki, k) in sc.keys.iter().enumerate() {
                let w = WALLETS[(round as usize * 3 + ki) % 5];
                let o = ses.step(&mut sut, &claim_line(w, &k.eth, &hex::encode(sign(k, &sc.template.replace("{wallet}", w), round % 2 == 1))));
                ses.mark(format!("limit{limit}:round{round}:{}", o.split(' ').next().unwrap()));
            }
        }
        ses.end_case();
    }
    // ------------------------------------------------------------------ 4. funding one unit short / collection whitelist full / same wallet twice
    {
        let (sc, me) = std_world(&mut ses, &mut sut, &mut rng, "short-and-full", "{wallet}", 5, 2, 2, 2);
        let s = |k: &Key, w: &str, sc: &Scn| hex::encode(sign(k, &sc.template.replace("{wallet}", w), false));
        let k = &sc.keys[0];
        ses.step(&mut sut, &claim_line("acct00001", &k.eth, &s(k, "acct00001", &sc)));
        ses.step(&mut sut, &claim_line("acct00001", &k.eth, &s(k, "acct00001", &sc))); // same wallet again: already a member
        ses.step(&mut sut, &claim_line("acct00002", &k.eth, &s(k, "acct00002", &sc))); // out of money
        ses.step(&mut sut, &format!("fund to={} amt={}", hxs(&me), 66_000_000 - 1));
        ses.step(&mut sut, &claim_line("acct00002", &k.eth, &s(k, "acct00002", &sc))); // one unit short
        ses.step(&mut sut, &format!("fund to={} amt=1", hxs(&me)));
        ses.step(&mut sut, &claim_line("acct00002", &k.eth, &s(k, "acct00002", &sc))); // exactly enough
        ses.step(&mut sut, &format!("fund to={} amt={}", hxs(&me), 66_000_000u128 * 3));
        ses.step(&mut sut, &claim_line("acct00003", &k.eth, &s(k, "acct00003", &sc))); // whitelist full (2 members)
        ses.step(&mut sut, &claim_line("acct00001", &k.eth, &s(k, "acct00001", &sc))); // full: even an existing member fails
        ses.step(&mut sut, &format!("cwl_rm sender={} who={}", hxs(CREATOR), hxs("acct00001")));
        ses.step(&mut sut, &claim_line("acct00003", &k.eth, &s(k, "acct00003", &sc)));
        ses.mark("scenario:short-and-full");
        ses.end_case();
    }

    // ------------------------------------------------------------------ 5. every order of a small alphabet
    {
        let len: u32 = if ses.tier() == Tier::Thorough { 5 } else { 4 };
        let keys: Vec<Key> = (0..2).map(|_| new_key(&mut rng, 5)).collect();
        let tpl = "I am {wallet}";
        let (w0, w1) = ("acct00001", "acct00002");
        let sg = |k: &Key, w: &str| hex::encode(sign(k, &tpl.replace("{wallet}", w), false));
        let alphabet: Vec<String> = vec![
            claim_line(w0, &keys[0].eth, &sg(&keys[0], w0)),
            claim_line(w1, &keys[0].eth, &sg(&keys[0], w1)),
            claim_line(w0, &keys[1].eth, &sg(&keys[1], w0)),
            claim_line(w1, &keys[0].eth, &sg(&keys[0], w0)), // replay of w0's signature by w1
            claim_line(w1, &keys[1].eth, &sg(&keys[0], w1)), // signed by the other key
            "FUND".to_string(),
        ];
        let n = alphabet.len() as u64;
        for code in 0..n.pow(len) {
            let (_sc, me) = std_world_with(&mut ses, &mut sut, keys.clone(), &format!("orders-{code}"), tpl, 1, 2, 40);
            let mut c = code;
            let mut pattern = String::new();
            for _ in 0..len {
                let i = (c % n) as usize;
                let l = &alphabet[i];
                c /= n;
                let o = if l == "FUND" { ses.step(&mut sut, &format!("fund to={} amt=66000000", hxs(&me))) } else { ses.step(&mut sut, l) };
                pattern.push_str(&format!("{i}{}", if o.starts_with("ok") { '+' } else { '-' }));
            }
            let outcomes: String = pattern.chars().filter(|c| *c == '+' || *c == '-').collect();
            ses.mark(format!("orders:first{}:{outcomes}", pattern.chars().next().unwrap_or('?')));
            ses.end_case();
        }
        ses.mark(format!("orders:all-sequences-len{len}"));
        ses.note(format!("every sequence of length {len} over 5 claims (2 keys × 2 wallets, one replay, one wrong key) + funding, limit 1, funded for 2 claims"));
    }

    // ------------------------------------------------------------------ 6. random worlds
    let n_cases = ses.scale(500, 8_000);
    for i in 0..n_cases {
        let n_ops = rng.range(10, 60);
        run_world_case(&mut ses, &mut sut, &mut rng, i, n_ops);
    }
    ses.note("signatures: real secp256k1 (k256) personal-sign signatures; witness = hand-written ecrecover / ECDSA verification on k256 group arithmetic + sha3, compared with deps.api through the model");
    ses.note("mutation kinds per claim: valid (v=27/28, v=0/1, upper-case hex), replay for another wallet, another key, bit flip, wrong length, every v, non-hex, high-S (both parities), other message, other casing of the address, malformed listed address, no envelope");
    ses.finish(&mut sut);
}
