//! C07 — price rules. The REAL vending / open-edition factories, all 9 minter variants and their whitelists inside one
//! cw-multi-test `App`, driven by protocol lines and compared with `LP.PriceRules` (Lean).
//!
//! After every state-changing step the generator issues a `probe`: four mint attempts (current_price−1, current_price,
//! current_price+1, current_price in a wrong denom) by an eligible buyer against the very same `App` state. Each attempt is
//! `App::execute_multi([mint, sentinel])` where the sentinel message always fails, so cw-multi-test itself rolls the whole
//! attempt back (no copy of the world is needed) and the error tells which of the two messages failed.
use cosmwasm_std::{coin, Addr, Binary, CosmosMsg, WasmMsg};
use lp_harness::minters::*;
use lp_harness::world::{addr, denom, denom_id};
use lp_harness::*;
use serde_json::{json, Value};
use sha2::{Digest, Sha256};

const HOUR: u64 = 3_600_000_000_000;
const H12: u64 = 12 * HOUR;
const DAY: u64 = 24 * HOUR;
const ADMIN: u64 = 10;
const STRANGER: u64 = 11;
const PROBE_BUYER: u64 = 29;
const CREATION_FEE: u128 = 5_000_000_000;
const SENTINEL: &str = "probe_sentinel";

// ------------------------------------------------------------------------------------------------ merkle helper

fn sha(b: &[u8]) -> [u8; 32] {
    let mut h = Sha256::new();
    h.update(b);
    h.finalize().into()
}
fn pair(a: [u8; 32], b: [u8; 32]) -> [u8; 32] {
    let mut v = [a, b];
    v.sort_unstable();
    sha(&v.concat())
}
/// sorted-pair sha256 tree over the member strings; returns (root hex, proof hex list per member)
fn merkle(members: &[String]) -> (String, Vec<Vec<String>>) {
    let mut level: Vec<[u8; 32]> = members.iter().map(|m| sha(m.as_bytes())).collect();
    let mut idx: Vec<usize> = (0..members.len()).collect();
    let mut proofs: Vec<Vec<String>> = vec![vec![]; members.len()];
    while level.len() > 1 {
        let mut next = vec![];
        for i in (0..level.len()).step_by(2) {
            if i + 1 < level.len() {
                next.push(pair(level[i], level[i + 1]));
            } else {
                next.push(level[i]);
            }
        }
        for (m, p) in idx.iter_mut().enumerate() {
            let sib = *p ^ 1;
            if sib < level.len() {
                proofs[m].push(hex::encode(level[sib]));
            }
            *p /= 2;
        }
        level = next;
    }
    (hex::encode(level[0]), proofs)
}

// ------------------------------------------------------------------------------------------------ observations

#[derive(Clone, Debug, Default, PartialEq)]
struct Obs {
    fmin: (u64, u128),
    air: (u64, u128),
    nwl: usize,
    m: Option<MObs>,
}
#[derive(Clone, Debug, Default, PartialEq)]
struct MObs {
    pubp: (u64, u128),
    disc: Option<(u64, u128)>,
    last: Option<u64>,
    start: u64,
    stop: Option<u64>,
    wl: Option<usize>,
    qpub: (u64, u128),
    qair: (u64, u128),
    qwl: Option<(u64, u128)>,
    qcur: (u64, u128),
    qdisc: Option<(u64, u128)>,
}

fn jc(v: &Value) -> (u64, u128) {
    (denom_id(v["denom"].as_str().unwrap_or("?")), v["amount"].as_str().and_then(|s| s.parse().ok()).unwrap_or(u128::MAX))
}
fn joc(v: &Value) -> Option<(u64, u128)> {
    if v.is_null() {
        None
    } else {
        Some(jc(v))
    }
}
fn jt(v: &Value) -> u64 {
    v.as_str().and_then(|s| s.parse().ok()).unwrap_or(u64::MAX)
}
fn rc(c: &(u64, u128)) -> String {
    format!("{}:{}", c.0, c.1)
}
fn roc(c: &Option<(u64, u128)>) -> String {
    c.as_ref().map(rc).unwrap_or_else(|| "-".into())
}

impl Obs {
    fn render(&self) -> String {
        let head = format!("fmin={} air={} nwl={}", rc(&self.fmin), rc(&self.air), self.nwl);
        match &self.m {
            None => format!("{head} m=none"),
            Some(m) => format!(
                "{head} pub={} disc={} last={} start={} stop={} wl={} qpub={} qair={} qwl={} qcur={} qdisc={}",
                rc(&m.pubp), roc(&m.disc), fmt_opt(&m.last), m.start, fmt_opt(&m.stop), fmt_opt(&m.wl),
                rc(&m.qpub), rc(&m.qair), roc(&m.qwl), rc(&m.qcur), roc(&m.qdisc)
            ),
        }
    }
}

// ------------------------------------------------------------------------------------------------ the system under test

struct S {
    kind: MinterKind,
    w: World,
    factory: String,
    minter: Option<String>,
    wls: Vec<String>,
    mints_ok: u32,
    members: Vec<String>,
    root: String,
    proofs: Vec<Vec<String>>,
    // monitor bookkeeping (the implementation's own trace)
    finding: Option<(String, String)>,
    last_disc_change: Option<u64>,
    /// denom of the factory minimum when this case's minter was created (to tell the recorded governance denom-switch history
    /// apart from any other way of ending up with a price in the wrong denom)
    fmin_denom_at_create: Option<u64>,
    dust: bool,
}

fn wl_kind(k: MinterKind) -> WlKind {
    if k.is_flex() {
        WlKind::Flex
    } else if k.is_merkle() {
        WlKind::Merkle
    } else {
        WlKind::Plain
    }
}

impl S {
    fn new() -> S {
        let members: Vec<String> = (20..=29).map(addr).collect();
        let (root, proofs) = merkle(&members);
        S {
            kind: MinterKind::Vending,
            w: World::new(GENESIS),
            factory: String::new(),
            minter: None,
            wls: vec![],
            mints_ok: 0,
            members,
            root,
            proofs,
            finding: None,
            last_disc_change: None,
            fmin_denom_at_create: None,
            dust: false,
        }
    }
    fn vname(&self) -> &'static str {
        self.kind.name()
    }
    fn flag(&mut self, op: &str, pred: &str, what: String) {
        if self.finding.is_none() {
            self.finding = Some((format!("{}/{}/{}", self.vname(), op, pred), what));
        }
    }

    fn exec_raw(&mut self, sender: u64, contract: &str, msg: String, funds: &[(u64, u128)]) -> Result<(), String> {
        for (d, a) in funds {
            self.w.fund(&addr(sender), *d, *a);
        }
        let coins = World::coins(funds);
        let app = &mut self.w.app;
        let m = WasmMsg::Execute { contract_addr: contract.to_string(), msg: Binary::from(msg.into_bytes()), funds: coins };
        match catch(|| cw_multi_test::Executor::execute(app, Addr::unchecked(addr(sender)), m.into())) {
            Ok(Ok(_)) => Ok(()),
            Ok(Err(e)) => Err(format!("{:#}", e)),
            Err(p) => Err(format!("panic: {p}")),
        }
    }

    fn mint_msg(&self, buyer: u64) -> String {
        if self.kind.is_merkle() {
            let i = self.members.iter().position(|m| *m == addr(buyer));
            let proof = i.map(|i| self.proofs[i].clone()).unwrap_or_default();
            json!({"mint": {"stage": null, "proof_hashes": proof, "allocation": null}}).to_string()
        } else {
            json!({"mint": {}}).to_string()
        }
    }

    /// one probe attempt: true = the mint itself succeeded (then rolled back). `self.dust` is set when the mint failed only
    /// because sg1::distribute_mint_fees produced a zero-amount bank send (a dust network fee; C06's territory).
    fn attempt(&mut self, buyer: u64, funds: &[(u64, u128)]) -> bool {
        let minter = self.minter.clone().unwrap();
        let mint = WasmMsg::Execute { contract_addr: minter, msg: Binary::from(self.mint_msg(buyer).into_bytes()), funds: World::coins(funds) };
        let sentinel = WasmMsg::Execute {
            contract_addr: self.factory.clone(),
            msg: Binary::from(format!("{{\"{SENTINEL}\":{{}}}}").into_bytes()),
            funds: vec![],
        };
        let app = &mut self.w.app;
        let msgs: Vec<CosmosMsg> = vec![mint.into(), sentinel.into()];
        match catch(|| app.execute_multi(Addr::unchecked(addr(buyer)), msgs)) {
            Ok(Ok(_)) => panic!("probe sentinel did not fail: the probe mint was committed"),
            Ok(Err(e)) => {
                let t = format!("{:#}", e);
                if std::env::var("C07_DEBUG").is_ok() {
                    eprintln!("probe {:?}: {}", funds, t);
                }
                if t.contains("Cannot transfer empty coins amount") {
                    self.dust = true;
                }
                t.contains(SENTINEL)
            }
            Err(_) => false,
        }
    }

    fn obs(&self) -> Obs {
        let p = self.w.query(&self.factory, &json!({"params": {}})).expect("factory params");
        let mut o = Obs {
            fmin: jc(&p["params"]["min_mint_price"]),
            air: jc(&p["params"]["extension"]["airdrop_mint_price"]),
            nwl: self.wls.len(),
            m: None,
        };
        if let Some(m) = &self.minter {
            let c = self.w.query(m, &json!({"config": {}})).expect("minter config");
            let q = self.w.query(m, &json!({"mint_price": {}})).expect("mint price query");
            let last = self
                .w
                .dump(m)
                .iter()
                .find(|(k, _)| k.as_slice() == b"last_discount_time")
                .map(|(_, v)| jt(&serde_json::from_slice::<Value>(v).unwrap_or(Value::Null)));
            let wl = match c["whitelist"].as_str() {
                Some(a) => Some(self.wls.iter().position(|x| x == a).unwrap_or(999_999)),
                None => None,
            };
            o.m = Some(MObs {
                pubp: jc(&c["mint_price"]),
                disc: joc(&c["discount_price"]),
                last,
                start: jt(&c["start_time"]),
                stop: if c["end_time"].is_null() { None } else { Some(jt(&c["end_time"])) },
                wl,
                qpub: jc(&q["public_price"]),
                qair: jc(&q["airdrop_price"]),
                qwl: joc(&q["whitelist_price"]),
                qcur: jc(&q["current_price"]),
                qdisc: joc(&q["discount_price"]),
            });
        }
        o
    }

    /// is the attached whitelist open right now (the whitelist contract's own answer)
    fn wl_active(&self, idx: Option<usize>) -> bool {
        match idx.and_then(|i| self.wls.get(i)) {
            Some(a) => self.w.query(a, &json!({"config": {}})).map(|v| v["is_active"].as_bool().unwrap_or(false)).unwrap_or(false),
            None => false,
        }
    }
    fn wl_price(&self, idx: usize) -> Option<(u64, u128)> {
        self.wls.get(idx).and_then(|a| self.w.query(a, &json!({"config": {}})).ok()).map(|v| jc(&v["mint_price"]))
    }

    fn do_probe(&mut self) -> String {
        if self.minter.is_none() {
            return "probe none".into();
        }
        let before = self.w.dump(self.minter.as_ref().unwrap());
        let o = self.obs();
        let m = o.m.clone().unwrap();
        let cur = m.qcur;
        for d in [cur.0, cur.0 + 7] {
            self.w.fund(&addr(PROBE_BUYER), d, cur.1.saturating_add(2));
        }
        let f = |d: u64, a: u128| -> Vec<(u64, u128)> { if a == 0 { vec![] } else { vec![(d, a)] } };
        let lo = if cur.1 == 0 { None } else { Some(self.attempt(PROBE_BUYER, &f(cur.0, cur.1 - 1))) };
        self.dust = false;
        let eq = self.attempt(PROBE_BUYER, &f(cur.0, cur.1));
        let eq_dust = self.dust;
        let hi = self.attempt(PROBE_BUYER, &f(cur.0, cur.1 + 1));
        let wd = self.attempt(PROBE_BUYER, &f(cur.0 + 7, cur.1.max(1)));
        if self.w.dump(self.minter.as_ref().unwrap()) != before {
            panic!("probe changed the minter's storage (rollback failed)");
        }
        // ---- monitors on the real price
        let now = self.w.time();
        let wl_active = self.wl_active(m.wl);
        let gate = (wl_active || now >= m.start) && m.stop.map(|e| now < e).unwrap_or(true);
        if lo == Some(true) || hi || wd {
            self.flag("mint", "charged-ne-queried", format!("MintPrice.current_price={} but a mint paying lo={:?} hi={} wrongdenom={} was accepted", rc(&cur), lo, hi, wd));
        }
        if gate && !eq && !eq_dust {
            self.flag("mint", "queried-price-rejected", format!("mint window open, MintPrice.current_price={} but paying exactly that was rejected", rc(&cur)));
        }
        if !wl_active {
            // a public buyer: whatever was accepted must not exceed the advertised public price
            let mut accepted: Vec<u128> = vec![];
            if lo == Some(true) {
                accepted.push(cur.1 - 1)
            }
            if eq {
                accepted.push(cur.1)
            }
            if hi {
                accepted.push(cur.1 + 1)
            }
            if let Some(a) = accepted.iter().find(|a| **a > m.qpub.1) {
                self.flag("mint", "charged-above-public", format!("public buyer charged {a} > advertised public price {}", rc(&m.qpub)));
            }
            if eq && cur.0 != m.qpub.0 {
                self.flag("mint", "charged-above-public", format!("public buyer charged in denom {} but public price is {}", cur.0, rc(&m.qpub)));
            }
        }
        let b = |x: bool| if x { "1" } else { "0" };
        format!("probe cur={} lo={} eq={} hi={} wd={}", rc(&cur), lo.map(|x| b(x).to_string()).unwrap_or("-".into()), b(eq), b(hi), b(wd))
    }

    fn do_migrate(&mut self, va: u64, vb: u64, vc: u64) -> bool {
        let Some(m) = self.minter.clone() else { return false };
        let key = b"contract_info".to_vec();
        let old = self.w.dump(&m).into_iter().find(|(k, _)| *k == key).map(|(_, v)| v).expect("contract_info");
        let mut info: Value = serde_json::from_slice(&old).unwrap();
        info["version"] = json!(format!("{va}.{vb}.{vc}"));
        self.w.app.contract_storage_mut(&Addr::unchecked(&m)).set(&key, info.to_string().as_bytes());
        let code = self.w.codes.minters[self.kind.idx()];
        let r = self.w.migrate(&addr(ADMIN), &m, code, &json!({}));
        if r.is_err() {
            self.w.app.contract_storage_mut(&Addr::unchecked(&m)).set(&key, &old);
        }
        r.is_ok()
    }
}

impl Sut for S {
    fn begin(&mut self, header: &str) -> (String, String) {
        let kind = MinterKind::from_idx(kv_u64(header, "kind").unwrap() as usize);
        let now = kv_u64(header, "now").unwrap();
        let mut w = World::new(now);
        let mut p = w.default_params(kind);
        p.min_mint_price = (kv_u64(header, "fd").unwrap(), kv_u128(header, "fmin").unwrap());
        p.airdrop_mint_price = (0, kv_u128(header, "air").unwrap());
        p.max_per_address_limit = 50;
        p.mint_fee_bps = kv_u64(header, "bps").unwrap();
        let factory = w.new_factory(kind.factory(), &p).expect("factory");
        for b in 20..=29u64 {
            for d in [0u64, 1, 2] {
                w.fund(&addr(b), d, 1u128 << 110);
            }
        }
        self.kind = kind;
        self.w = w;
        self.factory = factory;
        self.minter = None;
        self.wls = vec![];
        self.mints_ok = 0;
        self.finding = None;
        self.last_disc_change = None;
        self.fmin_denom_at_create = None;
        (header.to_string(), "case".to_string())
    }

    fn exec(&mut self, line: &str) -> (String, String) {
        self.finding = None;
        let op = line.split_whitespace().next().unwrap_or("");
        let before = self.obs();
        let now = self.w.time();
        let by = kv_u64(line, "by").unwrap_or(ADMIN);
        let paid: Vec<(u64, u128)> = if kv_bool(line, "paid") == Some(true) { vec![(0, 1)] } else { vec![] };
        let minter = self.minter.clone().unwrap_or_else(|| "contract999".to_string());
        let ok: bool = match op {
            "probe" => return (line.to_string(), self.do_probe()),
            "t" => {
                self.w.set_time(kv_u64(line, "now").unwrap());
                true
            }
            "wl" => {
                let st = WlStage {
                    start: kv_u64(line, "s").unwrap(),
                    end: kv_u64(line, "e").unwrap(),
                    mint_price: (kv_u64(line, "d").unwrap(), kv_u128(line, "p").unwrap()),
                    per_address_limit: 3,
                    mint_count_limit: None,
                    members: (20..=29).map(|a| (a, 3)).collect(),
                    merkle_root: self.root.clone(),
                };
                let a = WlArgs { admin: ADMIN, member_limit: 1000, admins_mutable: true, whale_cap: None, stages: vec![st] };
                match self.w.new_whitelist(wl_kind(self.kind), &a) {
                    Ok(addr_) => {
                        self.wls.push(addr_);
                        true
                    }
                    Err(_) => false,
                }
            }
            "create" => {
                let p = self.w.default_params(self.kind);
                let mut a = self.w.default_create(self.kind, &p);
                a.creator = by;
                a.per_address_limit = 3;
                a.start_time = kv_u64(line, "s").unwrap();
                a.mint_price = (kv_u64(line, "d").unwrap(), kv_u128(line, "p").unwrap());
                let cap = kv_bool(line, "cap").unwrap();
                if self.kind.is_open_edition() {
                    a.end_time = kv_opt_u64(line, "e").unwrap();
                    a.num_tokens = if cap { Some(100) } else { None };
                } else {
                    a.num_tokens = Some(100);
                }
                a.whitelist = kv_opt_u64(line, "wl").unwrap().map(|k| self.wls.get(k as usize).cloned().unwrap_or_else(|| "contract999".into()));
                a.funds = vec![(0, CREATION_FEE)];
                self.w.fund(&addr(by), 0, CREATION_FEE);
                if self.minter.is_some() {
                    false // the model follows one minter per case; never generated
                } else {
                    match self.w.create_minter(&self.factory.clone(), self.kind, &a) {
                        Ok((m, _c)) => {
                            self.minter = Some(m);
                            true
                        }
                        Err(_) => {
                            // the fee was not spent: take it back so balances do not drift
                            false
                        }
                    }
                }
            }
            "ump" => self.exec_raw(by, &minter, format!("{{\"update_mint_price\":{{\"price\":\"{}\"}}}}", kv_u128(line, "p").unwrap()), &paid).is_ok(),
            "udp" => self.exec_raw(by, &minter, format!("{{\"update_discount_price\":{{\"price\":\"{}\"}}}}", kv_u128(line, "p").unwrap()), &paid).is_ok(),
            "rdp" => self.exec_raw(by, &minter, "{\"remove_discount_price\":{}}".to_string(), &paid).is_ok(),
            "swl" => {
                let k = kv_u64(line, "k").unwrap() as usize;
                let wl = self.wls.get(k).cloned().unwrap_or_else(|| "contract999".into());
                self.exec_raw(by, &minter, json!({"set_whitelist": {"whitelist": wl}}).to_string(), &paid).is_ok()
            }
            "ust" => self.exec_raw(by, &minter, format!("{{\"update_start_time\":\"{}\"}}", kv_u64(line, "t").unwrap()), &paid).is_ok(),
            "sudomin" => {
                let c = (kv_u64(line, "d").unwrap(), kv_u128(line, "a").unwrap());
                self.w.sudo(&self.factory.clone(), &json!({"update_params": {"min_mint_price": jcoin(c), "extension": {}}})).is_ok()
            }
            "sudoair" => {
                let c = (kv_u64(line, "d").unwrap(), kv_u128(line, "a").unwrap());
                self.w.sudo(&self.factory.clone(), &json!({"update_params": {"extension": {"airdrop_mint_price": jcoin(c)}}})).is_ok()
            }
            "mint" => {
                let buyer = kv_u64(line, "buyer").unwrap();
                let funds: Vec<(u64, u128)> = kv_pairs(line, "funds").unwrap().into_iter().map(|(d, a)| (d as u64, a)).collect();
                let msg = self.mint_msg(buyer);
                let r = self.exec_raw(buyer, &minter, msg, &funds).is_ok();
                if r {
                    self.mints_ok += 1;
                }
                r
            }
            "migrate" => {
                let v = (kv_u64(line, "va").unwrap(), kv_u64(line, "vb").unwrap(), kv_u64(line, "vc").unwrap());
                let r = self.do_migrate(v.0, v.1, v.2);
                if r && v < (3, 9, 0) {
                    // a pre-3.9.0 contract cannot have had a discount change: the anchor is re-initialised like at instantiate
                    self.last_disc_change = None;
                }
                r
            }
            _ => return (line.to_string(), "bad-op".into()),
        };
        let after = self.obs();

        // ------------------------------------------------------------------ monitors (transcription of the property)
        let fmin = before.fmin; // the minimum in force at that moment (none of the ops below changes it)
        if ok {
            match op {
                "create" => {
                    let p = (kv_u64(line, "d").unwrap(), kv_u128(line, "p").unwrap());
                    self.fmin_denom_at_create = Some(fmin.0);
                    if p.1 < fmin.1 {
                        self.flag("create", "below-floor", format!("minter created with price {} below factory minimum {}", rc(&p), rc(&fmin)));
                    }
                    if p.0 != fmin.0 {
                        self.flag("create", "denom-differs-from-factory-min", format!("minter created with price {} but factory minimum is {}", rc(&p), rc(&fmin)));
                    }
                }
                "ump" | "udp" => {
                    let p = kv_u128(line, "p").unwrap();
                    let set = if op == "ump" { after.m.as_ref().map(|m| m.pubp) } else { after.m.as_ref().and_then(|m| m.disc) };
                    if p < fmin.1 {
                        self.flag(op, "below-floor", format!("price {p} accepted below factory minimum {}", rc(&fmin)));
                    }
                    if let Some(s) = set {
                        if s.0 != fmin.0 {
                            // the one recorded finding is the history "governance switched the factory minimum's denom after
                            // this minter was created"; a mismatch with no such switch is a different (new) violation
                            let pred = if self.fmin_denom_at_create.is_some() && self.fmin_denom_at_create != Some(fmin.0) { "denom-differs-from-factory-min-after-governance-denom-switch" } else { "denom-differs-from-factory-min" };
                            self.flag(op, pred, format!("price {} set while the factory minimum in force is {}", rc(&s), rc(&fmin)));
                        }
                    }
                }
                "swl" => {
                    let k = kv_u64(line, "k").unwrap() as usize;
                    if let Some(wp) = self.wl_price(k) {
                        if wp.1 < fmin.1 {
                            self.flag("swl", "below-floor", format!("whitelist with price {} attached below factory minimum {}", rc(&wp), rc(&fmin)));
                        }
                        if wp.0 != fmin.0 {
                            self.flag("swl", "denom-differs-from-factory-min", format!("whitelist with price {} attached, factory minimum is {}", rc(&wp), rc(&fmin)));
                        }
                    }
                }
                _ => {}
            }
            // discount rules, against the harness's own record of discount changes
            if op == "udp" {
                let bm = before.m.as_ref().unwrap();
                let p = kv_u128(line, "p").unwrap();
                if now < bm.start {
                    self.flag("udp", "before-start", format!("discount set at {now} before start {}", bm.start));
                }
                if p > bm.pubp.1 {
                    self.flag("udp", "above-public", format!("discount {p} set above public price {}", rc(&bm.pubp)));
                }
                if let Some(l) = self.last_disc_change {
                    if now < l + H12 {
                        self.flag("udp", "cooldown", format!("discount changed at {now}, less than 12 h after the previous change at {l}"));
                    }
                }
                self.last_disc_change = Some(now);
            }
            if op == "rdp" {
                if let Some(l) = self.last_disc_change {
                    if now < l + HOUR {
                        self.flag("rdp", "cooldown", format!("discount removed at {now}, less than 1 h after the previous change at {l}"));
                    }
                }
                self.last_disc_change = Some(now);
            }
            if op == "mint" {
                // a real mint: what was charged vs what the query advertised just before
                let bm = before.m.as_ref().unwrap();
                let funds: Vec<(u64, u128)> = kv_pairs(line, "funds").unwrap().into_iter().map(|(d, a)| (d as u64, a)).collect();
                let charged = funds.first().cloned().unwrap_or((bm.qcur.0, 0));
                if charged.1 != bm.qcur.1 || (charged.1 != 0 && charged.0 != bm.qcur.0) {
                    self.flag("mint", "charged-ne-queried", format!("mint accepted {} but MintPrice.current_price was {}", rc(&charged), rc(&bm.qcur)));
                }
                if !self.wl_active(bm.wl) && charged.1 > bm.qpub.1 {
                    self.flag("mint", "charged-above-public", format!("public buyer charged {} > advertised public price {}", rc(&charged), rc(&bm.qpub)));
                }
            }
        }
        // every op: public price never raised after the start; discount never above the public price
        if let (Some(bm), Some(am)) = (&before.m, &after.m) {
            if now >= bm.start && am.pubp.1 > bm.pubp.1 {
                self.flag(op, "raised-after-start", format!("public price went {} -> {} at {now}, start was {}", rc(&bm.pubp), rc(&am.pubp), bm.start));
            }
            if op == "ump" && ok && now >= bm.start && am.pubp.1 >= bm.pubp.1 {
                self.flag(op, "raised-after-start", format!("UpdateMintPrice after start accepted {} (was {})", rc(&am.pubp), rc(&bm.pubp)));
            }
        }
        if let Some(am) = &after.m {
            if let Some(d) = am.disc {
                if d.1 > am.pubp.1 || d.0 != am.pubp.0 {
                    self.flag(op, "discount-above-public", format!("stored discount {} exceeds public price {}", rc(&d), rc(&am.pubp)));
                }
            }
            // the query's stored fields
            if am.qpub != am.pubp || am.qdisc != am.disc {
                self.flag(op, "query-fields", format!("MintPrice public/discount {} / {} differ from Config {} / {}", rc(&am.qpub), roc(&am.qdisc), rc(&am.pubp), roc(&am.disc)));
            }
        }
        if !ok && before != after && op != "migrate" {
            self.flag(op, "failed-op-changed-state", format!("`{line}` failed but the observable price state changed"));
        }
        (line.to_string(), format!("{} {}", if ok { "ok" } else { "err" }, after.render()))
    }

    fn monitor(&mut self) -> Option<(String, String)> {
        self.finding.take()
    }
}

// ------------------------------------------------------------------------------------------------ generators

struct Gen {
    kind: MinterKind,
    now: u64,
    fd: u64,
    created: bool,
    nwl: usize,
    wl_windows: Vec<(u64, u64)>,
}

fn amount(rng: &mut Rng, around: u128) -> u128 {
    match rng.below(8) {
        0 => around.saturating_sub(1),
        1 => around,
        2 => around + 1,
        3 => 0,
        4 => around / 2,
        5 => around * 2 + rng.below(1000) as u128,
        6 => rng.sized_u128(90),
        _ => around + rng.below(1_000_000) as u128,
    }
}

/// last observation rendered by the implementation -> fields the generator steers by
fn field<'a>(out: &'a str, k: &str) -> Option<&'a str> {
    kv(out, k)
}
fn fcoin(out: &str, k: &str) -> Option<(u64, u128)> {
    let v = field(out, k)?;
    let (d, a) = v.split_once(':')?;
    Some((d.parse().ok()?, a.parse().ok()?))
}

fn main() {
    let mut ses = Session::new("C07");
    let mut sut = S::new();
    if ses.maybe_replay(&mut sut) {
        ses.finish(&mut sut);
    }
    let mut rng = ses.rng.fork();
    let denom_switch = std::env::var("C07_DENOM_SWITCH").map(|v| v == "1").unwrap_or(false)
        || load_known("C07").iter().any(|k| k.key.ends_with("denom-differs-from-factory-min-after-governance-denom-switch"));

    // ------------------------------------------------------------------ 0. fixed corpus: the repaired defect F-C07 and boundary walks
    for kind in VENDING_KINDS {
        let k = kind.idx();
        let t0 = GENESIS + DAY;
        let s = t0 + DAY;
        let lines = vec![
            format!("case kind={k} now={t0} fd=0 fmin=50 air=0 bps=1000 corpus=fc07"),
            format!("create by=10 d=0 p=1000 s={s} e=- cap=1 wl=-"),
            "probe".to_string(),
            format!("t now={}", s - 1),
            "udp by=10 paid=0 p=900".to_string(),
            format!("t now={s}"),
            "probe".to_string(),
            "udp by=10 paid=0 p=900".to_string(),
            "probe".to_string(),
            "ump by=10 paid=0 p=500".to_string(),
            "probe".to_string(),
            format!("mint buyer=20 funds=0:900"),
            format!("mint buyer=20 funds=0:500"),
            format!("t now={}", s + HOUR - 1),
            "rdp by=10 paid=0".to_string(),
            format!("t now={}", s + HOUR),
            "rdp by=10 paid=0".to_string(),
            format!("t now={}", s + HOUR + H12 - 1),
            "udp by=10 paid=0 p=400".to_string(),
            format!("t now={}", s + HOUR + H12),
            "udp by=10 paid=0 p=501".to_string(),
            "udp by=10 paid=0 p=49".to_string(),
            "udp by=10 paid=0 p=500".to_string(),
            "probe".to_string(),
            "ump by=10 paid=0 p=500".to_string(),
            "ump by=10 paid=0 p=499".to_string(),
            "probe".to_string(),
            "migrate va=3 vb=8 vc=0".to_string(),
            "udp by=10 paid=0 p=300".to_string(),
            "probe".to_string(),
        ];
        ses.run_case(&mut sut, &lines);
        ses.mark(format!("corpus:fc07:{}", kind.name()));
    }

    // ------------------------------------------------------------------ 1. random structured histories
    let n_cases = ses.scale(1080, 27000);
    for ci in 0..n_cases {
        let kind = ALL_MINTERS[(ci % 9) as usize];
        let k = kind.idx();
        let oe = kind.is_open_edition();
        let t0 = GENESIS + DAY * rng.range(1, 400) + rng.below(DAY);
        // factory: mostly native minimum, sometimes another denom, sometimes a zero minimum
        let fd: u64 = if rng.chance(1, 5) { 1 } else { 0 };
        let fmin: u128 = match rng.below(6) {
            0 => 0,
            1 => 1,
            2 => rng.sized_u128(80),
            _ => 50_000_000,
        };
        let air: u128 = if rng.chance(1, 3) { 0 } else { rng.below(100_000_000) as u128 };
        let mut g = Gen { kind, now: t0, fd, created: false, nwl: 0, wl_windows: vec![] };
        let bps = *rng.pick(&[1000u64, 1000, 1000, 500, 0, 10_000, 1]);
        ses.begin_case(&mut sut, &format!("case kind={k} now={t0} fd={fd} fmin={fmin} air={air} bps={bps}"));
        let tag = |s: &str| format!("{}:{s}", if oe { "oe" } else { "vend" });

        // -- whitelists before the minter exists (0..2), prices around the floor
        let start = t0 + rng.range(2, 6) * HOUR + rng.below(1000);
        let mut out = String::new();
        for _ in 0..rng.below(3) {
            let ws = g.now + rng.range(1, 2 * HOUR);
            let we = if rng.chance(1, 8) { ws } else { ws + rng.range(1, 3 * HOUR) };
            let wd = if rng.chance(1, 6) { 1 - fd } else { fd };
            let wp = amount(&mut rng, fmin);
            out = ses.step(&mut sut, &format!("wl d={wd} p={wp} s={ws} e={we}"));
            if out.starts_with("ok") {
                g.nwl += 1;
                g.wl_windows.push((ws, we));
                ses.mark(tag(&format!("wl:{}:{}", if wd == fd { "denom-ok" } else { "denom-bad" }, if wp < fmin { "below" } else { "ok" })));
            }
        }
        // -- sometimes governance moves the floor before creation
        if rng.chance(1, 4) && (fd == 0 || denom_switch) {
            let a = amount(&mut rng, fmin);
            out = ses.step(&mut sut, &format!("sudomin d=0 a={a}"));
        }

        // -- create (retry with a valid price if a mutated one fails)
        for attempt in 0..3 {
            ses.step(&mut sut, "probe");
            // the floor in force, read from the implementation's last observation
            let fm = fcoin(&out, "fmin").unwrap_or((fd, fmin));
            let valid = attempt == 2 || rng.chance(7, 10);
            let (pd, pp) = if valid {
                (fm.0, fm.1 + rng.below(1_000_000_000) as u128 + 1)
            } else {
                match rng.below(4) {
                    0 => (fm.0, fm.1.saturating_sub(1)),
                    1 => (1 - fm.0.min(1), fm.1 + 5),
                    2 => (fm.0, 0),
                    _ => (fm.0, fm.1),
                }
            };
            let cap = if oe { !(rng.chance(1, 4) && air != 0) } else { true };
            let e = if oe {
                if cap && rng.chance(1, 3) { "-".to_string() } else { (start + rng.range(1, 3) * DAY).to_string() }
            } else {
                "-".to_string()
            };
            let wl = if g.nwl > 0 && rng.chance(1, 3) { rng.below(g.nwl as u64).to_string() } else { "-".to_string() };
            let s = if valid || rng.chance(1, 2) { start } else { *rng.pick(&[g.now - 1, g.now, g.now + 1]) };
            out = ses.step(&mut sut, &format!("create by=10 d={pd} p={pp} s={s} e={e} cap={} wl={wl}", cap as u8));
            ses.mark(tag(&format!("create:{}:{}", if valid { "valid" } else { "mutated" }, &out[..2])));
            if out.starts_with("ok") {
                g.created = true;
                break;
            }
        }
        ses.step(&mut sut, "probe");

        // -- the history
        let n_ops = rng.range(12, 30);
        for _ in 0..n_ops {
            let pubp = fcoin(&out, "pub").unwrap_or((fd, fmin + 100));
            let disc = fcoin(&out, "disc");
            let fm = fcoin(&out, "fmin").unwrap_or((fd, fmin));
            let st: u64 = field(&out, "start").and_then(|s| s.parse().ok()).unwrap_or(start);
            let last: Option<u64> = field(&out, "last").and_then(|s| s.parse().ok());
            let stop: Option<u64> = field(&out, "stop").and_then(|s| s.parse().ok());
            let before_start = g.now < st;

            // which op (weights depend on the phase)
            let weights: [(&str, u64); 9] = if before_start {
                [("ump", 18), ("swl", 30), ("ust", 8), ("sudomin", 9), ("sudoair", 3), ("udp", 5), ("rdp", 5), ("mint", 16), ("migrate", 4)]
            } else {
                [("ump", 22), ("swl", 4), ("ust", 3), ("sudomin", 9), ("sudoair", 3), ("udp", 26), ("rdp", 12), ("mint", 17), ("migrate", 4)]
            };
            let total: u64 = weights.iter().map(|w| w.1).sum();
            let mut r = rng.below(total);
            let mut opk = "mint";
            for (n, wgt) in weights {
                if r < wgt {
                    opk = n;
                    break;
                }
                r -= wgt;
            }
            if opk == "migrate" && oe {
                opk = "mint";
            }

            // clock: an instant the state makes interesting (±1 ns), preferring the nearest ones and the one the
            // chosen op depends on; otherwise a small random step
            let mut inst: Vec<u64> = vec![st];
            if let Some(l) = last {
                inst.push(l + H12);
                inst.push(l + HOUR);
            }
            if let Some(e) = stop {
                inst.push(e);
            }
            for (a, b) in &g.wl_windows {
                inst.push(*a);
                inst.push(*b);
            }
            let mut cands: Vec<u64> = inst.iter().flat_map(|t| [t - 1, *t, t + 1]).filter(|t| *t >= g.now).collect();
            cands.sort();
            cands.dedup();
            let target: Option<u64> = match opk {
                "udp" if !before_start => last.map(|l| (l + H12).max(st)),
                "rdp" if !before_start => last.map(|l| l + HOUR),
                _ => None,
            };
            let t = if let (Some(x), true) = (target, rng.chance(3, 5)) {
                let extra = rng.below(HOUR);
                let c = *rng.pick(&[x - 1, x, x, x + 1, x + extra]);
                c.max(g.now)
            } else if opk == "swl" && before_start && rng.chance(2, 3) {
                g.now + rng.below(60_000_000_000)
            } else if !cands.is_empty() && rng.chance(1, 2) {
                cands[rng.below(cands.len().min(4) as u64) as usize]
            } else if rng.chance(1, 2) {
                g.now + rng.below(20 * 60_000_000_000)
            } else {
                g.now
            };
            if t != g.now {
                g.now = t;
                out = ses.step(&mut sut, &format!("t now={t}"));
                let rel = |x: u64| if t + 1 == x { "m1" } else if t == x { "0" } else if t == x + 1 { "p1" } else { "" };
                if !rel(st).is_empty() {
                    ses.mark(tag(&format!("clock:start{}", rel(st))));
                }
                if let Some(l) = last {
                    if !rel(l + H12).is_empty() {
                        ses.mark(tag(&format!("clock:last12h{}", rel(l + H12))));
                    }
                    if !rel(l + HOUR).is_empty() {
                        ses.mark(tag(&format!("clock:last1h{}", rel(l + HOUR))));
                    }
                }
                if let Some(e) = stop {
                    if !rel(e).is_empty() {
                        ses.mark(tag(&format!("clock:end{}", rel(e))));
                    }
                }
                for (a, b) in &g.wl_windows {
                    if !rel(*a).is_empty() {
                        ses.mark(tag(&format!("clock:wlstart{}", rel(*a))));
                    }
                    if !rel(*b).is_empty() {
                        ses.mark(tag(&format!("clock:wlend{}", rel(*b))));
                    }
                }
                if rng.chance(1, 2) {
                    ses.step(&mut sut, "probe");
                }
            }
            let started_now = g.now >= st;
            let by = if rng.chance(1, 14) { STRANGER } else { ADMIN };
            let paid = if rng.chance(1, 18) { 1 } else { 0 };
            let phase = if started_now { "after" } else { "before" };
            let within = |rng: &mut Rng, lo: u128, hi: u128| -> u128 {
                if hi <= lo {
                    lo
                } else {
                    let span = hi - lo;
                    lo + (rng.next_u128() % (span + 1))
                }
            };
            let mut pclass = "";
            let line = match opk {
                "ump" => {
                    // valid: [floor, pub-1] after the start, [floor, ..] before; mutations: the boundaries
                    let p = match rng.below(10) {
                        0 => { pclass = "floor-1"; fm.1.saturating_sub(1) }
                        1 => { pclass = "floor"; fm.1 }
                        2 => { pclass = "pub"; pubp.1 }
                        3 => { pclass = "pub+1"; pubp.1 + 1 }
                        4 => { pclass = "pub-1"; pubp.1.saturating_sub(1) }
                        5 => { pclass = "disc±1"; disc.map(|d| *rng.pick(&[d.1.saturating_sub(1), d.1, d.1 + 1])).unwrap_or(pubp.1 / 2) }
                        6 => { pclass = "zero"; 0 }
                        7 if !started_now => { pclass = "raise"; pubp.1 + rng.below(1_000_000_000) as u128 }
                        _ => { pclass = "lower"; within(&mut rng, fm.1, pubp.1.saturating_sub(1)) }
                    };
                    format!("ump by={by} paid={paid} p={p}")
                }
                "udp" => {
                    let p = match rng.below(9) {
                        0 => { pclass = "floor-1"; fm.1.saturating_sub(1) }
                        1 => { pclass = "floor"; fm.1 }
                        2 => { pclass = "pub"; pubp.1 }
                        3 => { pclass = "pub+1"; pubp.1 + 1 }
                        4 => { pclass = "zero"; 0 }
                        _ => { pclass = "within"; within(&mut rng, fm.1, pubp.1) }
                    };
                    format!("udp by={by} paid={paid} p={p}")
                }
                "rdp" => format!("rdp by={by} paid={paid}"),
                "swl" => {
                    // a fresh whitelist, then try to attach it (or an older one)
                    if g.nwl < 6 && rng.chance(2, 3) {
                        let ws = g.now + rng.range(1, 2 * HOUR);
                        let we = ws + rng.range(1, 3 * HOUR);
                        let wd = if rng.chance(1, 7) { 1 - fm.0.min(1) } else { fm.0 };
                        let wp = match rng.below(8) {
                            0 => fm.1.saturating_sub(1),
                            1 => fm.1,
                            2 => 0,
                            3 => pubp.1 + rng.below(1000) as u128,
                            _ => within(&mut rng, fm.1, pubp.1.max(fm.1) + 10),
                        };
                        let o = ses.step(&mut sut, &format!("wl d={wd} p={wp} s={ws} e={we}"));
                        if o.starts_with("ok") {
                            g.nwl += 1;
                            g.wl_windows.push((ws, we));
                            out = o;
                        }
                    }
                    let k = if g.nwl == 0 || rng.chance(1, 20) { g.nwl as u64 + 1 } else if rng.chance(2, 3) { g.nwl as u64 - 1 } else { rng.below(g.nwl as u64) };
                    format!("swl by={by} paid={paid} k={k}")
                }
                "sudomin" => {
                    if fm.0 == 0 || denom_switch {
                        let d = if rng.chance(1, 8) { 1 } else { 0 };
                        let a = match rng.below(8) {
                            0 => { pclass = "pub"; pubp.1 }
                            1 => { pclass = "pub+1"; pubp.1 + 1 }
                            2 => { pclass = "disc+1"; disc.map(|d| d.1 + 1).unwrap_or(fm.1 + 1) }
                            3 => { pclass = "zero"; 0 }
                            4 => { pclass = "huge"; rng.sized_u128(90) }
                            _ => { pclass = "below-pub"; within(&mut rng, 0, pubp.1) }
                        };
                        format!("sudomin d={d} a={a}")
                    } else {
                        format!("sudoair d=0 a={}", rng.below(1_000_000) as u128)
                    }
                }
                "sudoair" => format!("sudoair d={} a={}", if rng.chance(1, 5) { 1 } else { 0 }, rng.below(100_000_000)),
                "ust" => {
                    let t = *rng.pick(&[g.now.saturating_sub(1), g.now, g.now + 1, st + HOUR, st.saturating_sub(HOUR).max(g.now), stop.unwrap_or(st), stop.unwrap_or(st) + 1]);
                    format!("ust by={by} paid={paid} t={t}")
                }
                "migrate" => {
                    let v = *rng.pick(&[(3u64, 8u64, 9u64), (3, 9, 0), (3, 16, 0), (3, 16, 1), (2, 99, 99), (4, 0, 0), (3, 15, 7)]);
                    format!("migrate va={} vb={} vc={}", v.0, v.1, v.2)
                }
                _ => {
                    // a real mint: mostly the advertised price, sometimes the public / discount / off-by-one amount
                    let cur = fcoin(&out, "qcur").unwrap_or(pubp);
                    let a = match rng.below(8) {
                        0 => { pclass = "cur+1"; cur.1 + 1 }
                        1 => { pclass = "cur-1"; cur.1.saturating_sub(1) }
                        2 => { pclass = "pub"; pubp.1 }
                        _ => { pclass = "cur"; cur.1 }
                    };
                    let d = if rng.chance(1, 12) { 1 - cur.0.min(1) } else { cur.0 };
                    let buyer = 20 + (sut.mints_ok as u64 % 8);
                    let funds = if a == 0 { "-".to_string() } else { format!("{d}:{a}") };
                    format!("mint buyer={buyer} funds={funds}")
                }
            };
            let opk = line.split_whitespace().next().unwrap().to_string();
            let o = ses.step(&mut sut, &line);
            if o.starts_with("ok") || o.starts_with("err") {
                out = o.clone();
            }
            let wl_on = field(&o, "qwl").map(|v| v != "-").unwrap_or(false);
            let wl_cur = wl_on && field(&o, "qwl") == field(&o, "qcur") && field(&o, "qcur") != field(&o, "qpub");
            let has_disc = field(&o, "disc").map(|v| v != "-").unwrap_or(false);
            ses.mark(tag(&format!(
                "{opk}:{phase}:{}:{pclass}:wl{}{}:disc{}:{}{}",
                &o[..2.min(o.len())], wl_on as u8, if wl_cur { "a" } else { "" }, has_disc as u8,
                if by == ADMIN { "adm" } else { "str" }, if paid == 1 { ":paid" } else { "" }
            )));
            if opk != "mint" || rng.chance(1, 2) {
                let pr = ses.step(&mut sut, "probe");
                ses.mark(tag(&format!("probe:{phase}:wl{}:disc{}:{}", wl_on as u8, has_disc as u8, pr.split_whitespace().skip(2).collect::<Vec<_>>().join(""))));
            }
        }
        ses.end_case();
        let _ = (g.kind, g.fd, g.created);
    }
    ses.note("times: start, LAST_DISCOUNT_TIME+12h, +1h, open-edition end, whitelist start/end, each −1 ns / exact / +1 ns; amounts around the factory minimum, the public price and the standing discount (±1), 0, random up to 2^90");
    ses.note("probe = 4 real mint attempts (price−1, price, price+1, wrong denom) rolled back by cw-multi-test's own transaction cache (execute_multi with a failing sentinel message); the minter's raw storage is compared before/after every probe");
    if !denom_switch {
        ses.note("governance min-price changes are generated only on factories whose minimum is in the native denom (sudo only accepts the native denom, so on other factories every change switches the denom — see docs/C07.md, C07_denom_switch_counterexample); set C07_DENOM_SWITCH=1 to include them");
    }
    if std::env::var("C07_DEBUG").is_ok() {
        for c in &ses.classes {
            eprintln!("class {c}");
        }
    }
    ses.finish(&mut sut);
}

#[allow(dead_code)]
fn _unused() {
    let _ = (coin(1, "x"), denom(0));
}
