//! C07 — price rules. The REAL vending / open-edition factories, all 9 minter variants and their whitelists (plain, flex,
//! Merkle AND the three tiered kinds) inside one cw-multi-test `App`, driven by protocol lines and compared with
//! `LP.PriceRules` / `LP.PriceRulesT` (Lean).
//!
//! Round 3:
//! * the environment moves: tiered whitelists, whitelist admin updates after attachment (`wltime`, `wlstage`, `wladd`,
//!   `wlrm`), `mint_fee_bps` changes (`sudofee`), factory `migrate` with an UpdateParamsMsg (`facmig`), open-edition
//!   `UpdateEndTime` (`uet`), minter `migrate` on all 9 variants, and a run-time sweep over every OTHER ExecuteMsg variant of
//!   the minter crate (`surface`; the variants are enumerated from `schema_for!(ExecuteMsg)`, unknown ones are built from
//!   the schema and sent under the same monitors);
//! * the monitors are evaluated against the harness's OWN ghost record (the floor, fee rate, start time, public price,
//!   discount, attached whitelist it itself set by messages that were accepted), not against what the minter reports about
//!   its past; what a mint costs is the buyer's balance difference;
//! * no dependence on error text, event attributes or raw storage keys: the probe learns whether the mint went through from a
//!   sentinel CONTRACT (second message of the same `execute_multi`; it records that it was reached and fails, so
//!   cw-multi-test rolls the attempt back), `LAST_DISCOUNT_TIME` is read through each crate's typed `state::` constant, the
//!   cw2 version through `cw2::{get,set}_contract_version`;
//! * output lines are `primary ## drift` (see Driver/C07.lean): airdrop price, `end_time`, whitelist count, acceptance of
//!   environment steps and the fate of mints whose network fee is dust are outside the projection.
use cosmwasm_std::{coin, Addr, Binary, CosmosMsg, Deps, DepsMut, Empty, Env, MessageInfo, Response, StdError, StdResult, WasmMsg};
use lp_harness::minters::*;
use lp_harness::world::{addr, denom, denom_id};
use lp_harness::*;
use serde_json::{json, Value};
use sha2::{Digest, Sha256};
use std::sync::atomic::{AtomicBool, Ordering};

const HOUR: u64 = 3_600_000_000_000;
const H12: u64 = 12 * HOUR;
const DAY: u64 = 24 * HOUR;
const ADMIN: u64 = 10;
const STRANGER: u64 = 11;
const GOV: u64 = 90;
const PROBE_BUYER: u64 = 29;
const CREATION_FEE: u128 = 5_000_000_000;
/// a network fee below this may be split by sg1 into an empty part (C06/C02 own that): outside the projection
const DUST_MAX: u128 = 16;

// ------------------------------------------------------------------------------------------------ merkle helper

fn sha(b: &[u8]) -> [u8; 32] {
    let mut h = Sha256::new();
    h.update(b);
    h.finalize().into()
}
fn pair(a: [u8; 32], b: [u8; 32]) -> [u8; 32] {
    let mut v = [a, b];
    v.sort_unstable();
    sha(&v.concat())
}
/// blake3 truncated to 16 bytes (tiered-whitelist-merkletree), zero-padded to the common 32-byte carrier
fn b3(b: &[u8]) -> [u8; 32] {
    let mut out = [0u8; 32];
    out[..16].copy_from_slice(&blake3::hash(b).as_bytes()[..16]);
    out
}
/// sorted-pair tree over the member strings; returns (root hex, proof hex list per member).
/// `wide` = sha256 / 32 bytes (whitelist-merkletree); otherwise blake3 / 16 bytes (tiered-whitelist-merkletree)
fn merkle(members: &[String], wide: bool) -> (String, Vec<Vec<String>>) {
    let n = if wide { 32 } else { 16 };
    let h = |b: &[u8]| if wide { sha(b) } else { b3(b) };
    let pair = |a: [u8; 32], b: [u8; 32]| -> [u8; 32] {
        if wide {
            pair(a, b)
        } else {
            let mut v = [a[..16].to_vec(), b[..16].to_vec()];
            v.sort_unstable();
            b3(&v.concat())
        }
    };
    let mut level: Vec<[u8; 32]> = members.iter().map(|m| h(m.as_bytes())).collect();
    let mut idx: Vec<usize> = (0..members.len()).collect();
    let mut proofs: Vec<Vec<String>> = vec![vec![]; members.len()];
    while level.len() > 1 {
        let mut next = vec![];
        for i in (0..level.len()).step_by(2) {
            if i + 1 < level.len() {
                next.push(pair(level[i], level[i + 1]));
            } else {
                next.push(level[i]);
            }
        }
        for (m, p) in idx.iter_mut().enumerate() {
            let sib = *p ^ 1;
            if sib < level.len() {
                proofs[m].push(hex::encode(&level[sib][..n]));
            }
            *p /= 2;
        }
        level = next;
    }
    (hex::encode(&level[0][..n]), proofs)
}

// ------------------------------------------------------------------------------------------------ the message surface, at run time

fn exec_schema(kind: MinterKind) -> Value {
    use cosmwasm_schema::schema_for;
    let s = match kind {
        MinterKind::Vending => serde_json::to_value(schema_for!(vending_minter::msg::ExecuteMsg)),
        MinterKind::VendingFeatured => serde_json::to_value(schema_for!(vending_minter_featured::msg::ExecuteMsg)),
        MinterKind::VendingFlex => serde_json::to_value(schema_for!(vending_minter_wl_flex::msg::ExecuteMsg)),
        MinterKind::VendingFlexFeatured => serde_json::to_value(schema_for!(vending_minter_wl_flex_featured::msg::ExecuteMsg)),
        MinterKind::VendingMerkle => serde_json::to_value(schema_for!(vending_minter_merkle_wl::msg::ExecuteMsg)),
        MinterKind::VendingMerkleFeatured => serde_json::to_value(schema_for!(vending_minter_merkle_wl_featured::msg::ExecuteMsg)),
        MinterKind::OpenEdition => serde_json::to_value(schema_for!(open_edition_minter::msg::ExecuteMsg)),
        MinterKind::OpenEditionFlex => serde_json::to_value(schema_for!(open_edition_minter_wl_flex::msg::ExecuteMsg)),
        MinterKind::OpenEditionMerkle => serde_json::to_value(schema_for!(open_edition_minter_merkle_wl::msg::ExecuteMsg)),
        MinterKind::TokenMerge => serde_json::to_value(schema_for!(token_merge_minter::msg::ExecuteMsg)),
        MinterKind::Base => serde_json::to_value(schema_for!(base_minter::msg::ExecuteMsg)),
    };
    s.unwrap_or(Value::Null)
}

/// variants that have a protocol op of their own (the operations of the property, and `update_end_time` = `uet`)
const MODELLED: [&str; 7] = ["mint", "update_mint_price", "update_discount_price", "remove_discount_price", "set_whitelist", "update_start_time", "update_end_time"];
/// the other variants that exist today; anything else is reported as unknown — and sent all the same.
/// Order = order of sending: the ones that end a sale go last.
const OTHER_TODAY: [&str; 7] = ["update_start_trading_time", "update_per_address_limit", "mint_to", "mint_for", "shuffle", "purge", "burn_remaining"];

/// (variant name, schema node of the variant)
fn variants_of(schema: &Value) -> Vec<(String, Value)> {
    let mut out = vec![];
    for v in schema.get("oneOf").or_else(|| schema.get("anyOf")).and_then(|x| x.as_array()).cloned().unwrap_or_default() {
        if let Some(e) = v.get("enum").and_then(|e| e.as_array()) {
            for n in e {
                if let Some(n) = n.as_str() {
                    out.push((n.to_string(), Value::Null));
                }
            }
        } else if let Some(req) = v.get("required").and_then(|r| r.as_array()).and_then(|r| r.first()).and_then(|r| r.as_str()) {
            out.push((req.to_string(), v["properties"][req].clone()));
        }
    }
    out
}

/// a minimal value for a schema node: required properties only, `null` where allowed (unless `fill`), `n` for numbers and
/// numeric strings, an account for address-like names
fn build_value(node: &Value, defs: &Value, hint: &str, n: u128, fill: bool, wide_str: bool, depth: u32) -> Value {
    if depth > 8 {
        return Value::Null;
    }
    if let Some(r) = node.get("$ref").and_then(|r| r.as_str()) {
        let name = r.rsplit('/').next().unwrap_or("");
        return build_value(&defs[name], defs, name, n, fill, wide_str, depth + 1);
    }
    if let Some(a) = node.get("allOf").and_then(|a| a.as_array()) {
        if let Some(f) = a.first() {
            return build_value(f, defs, hint, n, fill, wide_str, depth + 1);
        }
    }
    for key in ["anyOf", "oneOf"] {
        if let Some(a) = node.get(key).and_then(|a| a.as_array()) {
            let nullable = a.iter().any(|x| x.get("type").and_then(|t| t.as_str()) == Some("null"));
            if nullable && !fill {
                return Value::Null;
            }
            if let Some(f) = a.iter().find(|x| x.get("type").and_then(|t| t.as_str()) != Some("null")) {
                if let Some(req) = f.get("required").and_then(|r| r.as_array()).and_then(|r| r.first()).and_then(|r| r.as_str()) {
                    let mut m = serde_json::Map::new();
                    m.insert(req.to_string(), build_value(&f["properties"][req], defs, req, n, fill, wide_str, depth + 1));
                    return Value::Object(m);
                }
                return build_value(f, defs, hint, n, fill, wide_str, depth + 1);
            }
        }
    }
    let ty = match node.get("type") {
        Some(Value::String(s)) => s.clone(),
        Some(Value::Array(a)) => {
            if a.iter().any(|x| x.as_str() == Some("null")) && !fill {
                return Value::Null;
            }
            a.iter().filter_map(|x| x.as_str()).find(|x| *x != "null").unwrap_or("null").to_string()
        }
        _ => "object".to_string(),
    };
    match ty.as_str() {
        "object" => {
            let mut m = serde_json::Map::new();
            let names: Vec<String> = if fill {
                node.get("properties").and_then(|p| p.as_object()).map(|o| o.keys().cloned().collect()).unwrap_or_default()
            } else {
                node.get("required").and_then(|r| r.as_array()).map(|r| r.iter().filter_map(|x| x.as_str().map(String::from)).collect()).unwrap_or_default()
            };
            for r in names {
                m.insert(r.clone(), build_value(&node["properties"][&r], defs, &r, n, fill, wide_str, depth + 1));
            }
            Value::Object(m)
        }
        "string" => {
            let h = hint.to_ascii_lowercase();
            if h == "denom" {
                Value::String(denom(0))
            } else if ["recipient", "address", "addr", "whitelist", "sender", "contract", "collection", "owner", "admin"].iter().any(|k| h.contains(k)) {
                Value::String(addr(STRANGER))
            } else if h.contains("binary") || h == "msg" {
                Value::String("e30=".into())
            } else if h.contains("uri") || h.contains("url") {
                Value::String("ipfs://bafybeigi3bwpvyvsmnbj46ra4hyffcxdeaj6ntfk5jpic5mx27x6ih2qvq/1".into())
            } else {
                Value::String(n.to_string())
            }
        }
        "integer" | "number" => {
            let small = node.get("format").and_then(|f| f.as_str()).map(|f| ["uint8", "int8", "uint16", "int16", "uint32", "int32"].contains(&f)).unwrap_or(false);
            // serde-json-wasm reads 128-bit integers from JSON STRINGS although the schema says `integer`
            let wide = node.get("format").and_then(|f| f.as_str()).map(|f| f.contains("128")).unwrap_or(false);
            if wide && wide_str {
                Value::String(n.to_string())
            } else if small {
                json!((n % 40 + 1) as u64)
            } else {
                json!(n.min(u64::MAX as u128) as u64)
            }
        }
        "boolean" => json!(false),
        "array" => json!([]),
        _ => Value::Null,
    }
}

fn build_variant(schema: &Value, name: &str, node: &Value, n: u128, fill: bool, wide_str: bool) -> Value {
    if node.is_null() {
        return Value::String(name.to_string());
    }
    let defs = schema.get("definitions").cloned().unwrap_or(Value::Null);
    let mut m = serde_json::Map::new();
    m.insert(name.to_string(), build_value(node, &defs, name, n, fill, wide_str, 0));
    Value::Object(m)
}

// ------------------------------------------------------------------------------------------------ the probe's sentinel contract

/// Set by the sentinel contract when it is executed. The probe sends `[Mint, sentinel]` in ONE `execute_multi`: the sentinel
/// runs only if the mint before it succeeded; it then fails, so cw-multi-test discards the whole attempt. No error text is read.
static SENTINEL_REACHED: AtomicBool = AtomicBool::new(false);

fn sentinel_box() -> lp_harness::boxes::Boxed {
    fn exec(_d: DepsMut, _e: Env, _i: MessageInfo, _m: Empty) -> StdResult<Response> {
        SENTINEL_REACHED.store(true, Ordering::SeqCst);
        Err(StdError::generic_err("rollback"))
    }
    fn inst(_d: DepsMut, _e: Env, _i: MessageInfo, _m: Empty) -> StdResult<Response> {
        Ok(Response::new())
    }
    fn query(_d: Deps, _e: Env, _m: Empty) -> StdResult<Binary> {
        Ok(Binary::default())
    }
    Box::new(cw_multi_test::ContractWrapper::new(exec, inst, query))
}

// ------------------------------------------------------------------------------------------------ observations

type C = (u64, u128);

#[derive(Clone, Debug, Default, PartialEq)]
struct Obs {
    fmin: C,
    air: C,
    nwl: usize,
    m: Option<MObs>,
}
#[derive(Clone, Debug, Default, PartialEq)]
struct MObs {
    pubp: C,
    disc: Option<C>,
    last: Option<u64>,
    start: u64,
    stop: Option<u64>,
    wl: Option<usize>,
    qpub: C,
    qair: C,
    qwl: Option<C>,
    qcur: C,
    qdisc: Option<C>,
}

fn jc(v: &Value) -> C {
    (denom_id(v["denom"].as_str().unwrap_or("?")), v["amount"].as_str().and_then(|s| s.parse().ok()).unwrap_or(u128::MAX))
}
fn joc(v: &Value) -> Option<C> {
    if v.is_null() {
        None
    } else {
        Some(jc(v))
    }
}
fn jt(v: &Value) -> u64 {
    v.as_str().and_then(|s| s.parse().ok()).unwrap_or(u64::MAX)
}
fn rc(c: &C) -> String {
    format!("{}:{}", c.0, c.1)
}
fn roc(c: &Option<C>) -> String {
    c.as_ref().map(rc).unwrap_or_else(|| "-".into())
}

impl Obs {
    /// the property's projection (primary part of the output line)
    fn render_p(&self) -> String {
        match &self.m {
            None => format!("fmin={} m=none", rc(&self.fmin)),
            Some(m) => format!(
                "fmin={} pub={} disc={} last={} start={} wl={} qpub={} qwl={} qcur={} qdisc={}",
                rc(&self.fmin), rc(&m.pubp), roc(&m.disc), fmt_opt(&m.last), m.start, fmt_opt(&m.wl),
                rc(&m.qpub), roc(&m.qwl), rc(&m.qcur), roc(&m.qdisc)
            ),
        }
    }
    /// owned by other properties (after ` ## `)
    fn render_d(&self) -> String {
        let head = format!("air={} nwl={}", rc(&self.air), self.nwl);
        match &self.m {
            None => head,
            Some(m) => format!("{head} stop={} qair={}", fmt_opt(&m.stop), rc(&m.qair)),
        }
    }
    /// the part of the state a FAILED operation of the property must leave alone
    fn price_state(&self) -> (C, Option<(C, Option<C>, Option<u64>, u64, Option<usize>)>) {
        (self.fmin, self.m.as_ref().map(|m| (m.pubp, m.disc, m.last, m.start, m.wl)))
    }
}

/// a whitelist contract as the harness created it and as the whitelist contract itself reports its content
#[derive(Clone, Debug)]
struct WlG {
    addr: String,
    kind: WlKind,
    denom: u64,
    /// (price, start, end) per stage; exactly one entry for the plain kinds
    stages: Vec<(u128, u64, u64)>,
}
fn is_tiered(k: WlKind) -> bool {
    matches!(k, WlKind::Tiered | WlKind::TieredFlex | WlKind::TieredMerkle)
}

// ------------------------------------------------------------------------------------------------ the system under test

struct S {
    kind: MinterKind,
    w: World,
    factory: String,
    minter: Option<String>,
    sentinel: String,
    wls: Vec<WlG>,
    mints_ok: u32,
    members: Vec<String>,
    root: String,
    proofs: Vec<Vec<String>>,
    /// the same members under tiered-whitelist-merkletree's hash (blake3, 16 bytes)
    root16: String,
    proofs16: Vec<Vec<String>>,
    finding: Option<(String, String)>,
    /// opt-in flags of the case header (`optin=cwl,cwld,tier,wlmut`, one flag per key): monitors for the reported-but-undecided behaviours
    optin: Vec<String>,
    // ---- ghost record: what the harness itself set through messages that were accepted
    g_fmin: C,
    g_bps: u64,
    g_start: Option<u64>,
    /// "once the mint has started": sticky — the first block time at which an operation ran at or after the start time set
    ever_started: Option<u64>,
    g_pub: Option<C>,
    g_disc: Option<C>,
    g_wl: Option<usize>,
    last_disc_change: Option<u64>,
    /// a migrate from a pre-3.9.0 version re-anchored the cooldown since the last discount change (see C07X_…migrate…)
    reanchored: bool,
    /// denom of the factory minimum when this case's minter was created (to tell the recorded governance denom-switch history
    /// apart from any other way of ending up with a price in the wrong denom)
    fmin_denom_at_create: Option<u64>,
    /// what the last real mint took out of the buyer's account, per denom
    last_charged: Vec<C>,
    /// results of the last `surface` sweep, for the evidence: (variant, sender, ok, known)
    surface_log: Vec<(String, &'static str, bool, bool)>,
    counts: Vec<String>,
    /// stage prices of the whitelist the last whitelist-admin message went to, before that message
    wl_prev: Vec<u128>,
}

fn wl_kinds(k: MinterKind) -> (WlKind, WlKind) {
    if k.is_flex() {
        (WlKind::Flex, WlKind::TieredFlex)
    } else if k.is_merkle() {
        (WlKind::Merkle, WlKind::TieredMerkle)
    } else {
        (WlKind::Plain, WlKind::Tiered)
    }
}

fn dusty(price: C, bps: u64) -> bool {
    let fee = price.1.saturating_mul(bps as u128) / 10_000;
    fee > 0 && fee < DUST_MAX
}

impl S {
    fn new() -> S {
        let members: Vec<String> = (20..=29).map(addr).collect();
        let (root, proofs) = merkle(&members, true);
        let (root16, proofs16) = merkle(&members, false);
        S {
            kind: MinterKind::Vending,
            w: World::new(GENESIS),
            factory: String::new(),
            minter: None,
            sentinel: String::new(),
            wls: vec![],
            mints_ok: 0,
            members,
            root,
            proofs,
            root16,
            proofs16,
            finding: None,
            optin: vec![],
            g_fmin: (0, 0),
            g_bps: 0,
            g_start: None,
            ever_started: None,
            g_pub: None,
            g_disc: None,
            g_wl: None,
            last_disc_change: None,
            reanchored: false,
            fmin_denom_at_create: None,
            last_charged: vec![],
            surface_log: vec![],
            counts: vec![],
            wl_prev: vec![],
        }
    }
    fn vname(&self) -> &'static str {
        self.kind.name()
    }
    fn opted(&self, f: &str) -> bool {
        self.optin.iter().any(|x| x == f)
    }
    fn flag(&mut self, op: &str, pred: &str, what: String) {
        if self.finding.is_none() {
            self.finding = Some((format!("{}/{}/{}", self.vname(), op, pred), what));
        }
    }

    fn exec_raw(&mut self, sender: u64, contract: &str, msg: String, funds: &[C]) -> Result<(), String> {
        for (d, a) in funds {
            self.w.fund(&addr(sender), *d, *a);
        }
        self.send_raw(sender, contract, msg, funds)
    }
    /// execute without crediting the sender first
    fn send_raw(&mut self, sender: u64, contract: &str, msg: String, funds: &[C]) -> Result<(), String> {
        let coins = World::coins(funds);
        let app = &mut self.w.app;
        let m = WasmMsg::Execute { contract_addr: contract.to_string(), msg: Binary::from(msg.into_bytes()), funds: coins };
        match catch(|| cw_multi_test::Executor::execute(app, Addr::unchecked(addr(sender)), m.into())) {
            Ok(Ok(_)) => Ok(()),
            Ok(Err(e)) => Err(format!("{:#}", e)),
            Err(p) => Err(format!("panic: {p}")),
        }
    }

    fn mint_msg(&self, buyer: u64) -> String {
        if self.kind.is_merkle() {
            let i = self.members.iter().position(|m| *m == addr(buyer));
            let tiered = self.g_wl.and_then(|k| self.wls.get(k)).map(|g| g.kind == WlKind::TieredMerkle).unwrap_or(false);
            let proof = i.map(|i| if tiered { self.proofs16[i].clone() } else { self.proofs[i].clone() }).unwrap_or_default();
            json!({"mint": {"stage": null, "proof_hashes": proof, "allocation": null}}).to_string()
        } else {
            json!({"mint": {}}).to_string()
        }
    }

    /// one probe attempt: true = the mint itself succeeded (the sentinel contract behind it was reached; then rolled back)
    fn attempt(&mut self, buyer: u64, funds: &[C]) -> bool {
        let minter = self.minter.clone().unwrap();
        let mint = WasmMsg::Execute { contract_addr: minter, msg: Binary::from(self.mint_msg(buyer).into_bytes()), funds: World::coins(funds) };
        let sentinel = WasmMsg::Execute { contract_addr: self.sentinel.clone(), msg: Binary::from(b"{}".to_vec()), funds: vec![] };
        let app = &mut self.w.app;
        let msgs: Vec<CosmosMsg> = vec![mint.into(), sentinel.into()];
        SENTINEL_REACHED.store(false, Ordering::SeqCst);
        match catch(|| app.execute_multi(Addr::unchecked(addr(buyer)), msgs)) {
            Ok(Ok(_)) => panic!("probe sentinel did not fail: the probe mint was committed"),
            Ok(Err(_)) | Err(_) => SENTINEL_REACHED.load(Ordering::SeqCst),
        }
    }

    /// `LAST_DISCOUNT_TIME` through the crate's own typed storage constant (no raw key)
    fn last_discount(&self, m: &str) -> Option<u64> {
        let st = self.w.app.contract_storage(&Addr::unchecked(m));
        let t = match self.kind {
            MinterKind::Vending => vending_minter::state::LAST_DISCOUNT_TIME.may_load(&*st),
            MinterKind::VendingFeatured => vending_minter_featured::state::LAST_DISCOUNT_TIME.may_load(&*st),
            MinterKind::VendingFlex => vending_minter_wl_flex::state::LAST_DISCOUNT_TIME.may_load(&*st),
            MinterKind::VendingFlexFeatured => vending_minter_wl_flex_featured::state::LAST_DISCOUNT_TIME.may_load(&*st),
            MinterKind::VendingMerkle => vending_minter_merkle_wl::state::LAST_DISCOUNT_TIME.may_load(&*st),
            MinterKind::VendingMerkleFeatured => vending_minter_merkle_wl_featured::state::LAST_DISCOUNT_TIME.may_load(&*st),
            _ => Ok(None),
        };
        t.ok().flatten().map(|t| t.nanos())
    }

    fn obs(&self) -> Obs {
        let p = self.w.query(&self.factory, &json!({"params": {}})).expect("factory params");
        let mut o = Obs {
            fmin: jc(&p["params"]["min_mint_price"]),
            air: jc(&p["params"]["extension"]["airdrop_mint_price"]),
            nwl: self.wls.len(),
            m: None,
        };
        if let Some(m) = &self.minter {
            let c = self.w.query(m, &json!({"config": {}})).expect("minter config");
            let q = self.w.query(m, &json!({"mint_price": {}})).expect("mint price query");
            let wl = match c["whitelist"].as_str() {
                Some(a) => Some(self.wls.iter().position(|x| x.addr == a).unwrap_or(999_999)),
                None => None,
            };
            o.m = Some(MObs {
                pubp: jc(&c["mint_price"]),
                disc: joc(&c["discount_price"]),
                last: self.last_discount(m),
                start: jt(&c["start_time"]),
                stop: if c["end_time"].is_null() { None } else { Some(jt(&c["end_time"])) },
                wl,
                qpub: jc(&q["public_price"]),
                qair: jc(&q["airdrop_price"]),
                qwl: joc(&q["whitelist_price"]),
                qcur: jc(&q["current_price"]),
                qdisc: joc(&q["discount_price"]),
            });
        }
        o
    }

    /// is the whitelist open right now (the WHITELIST contract's own answer; it is not the contract under test)
    fn wl_active(&self, idx: Option<usize>) -> bool {
        match idx.and_then(|i| self.wls.get(i)) {
            Some(g) => self.w.query(&g.addr, &json!({"config": {}})).map(|v| v["is_active"].as_bool().unwrap_or(false)).unwrap_or(false),
            None => false,
        }
    }
    /// the price the whitelist contract reports right now
    fn wl_price(&self, idx: usize) -> Option<C> {
        self.wls.get(idx).and_then(|g| self.w.query(&g.addr, &json!({"config": {}})).ok()).map(|v| jc(&v["mint_price"]))
    }
    /// content of a whitelist contract as it reports it itself: (denom, stages)
    fn observe_wl(&self, a: &str, kind: WlKind) -> (u64, Vec<(u128, u64, u64)>) {
        if is_tiered(kind) {
            let r = self.w.query(a, &json!({"stages": {}})).unwrap_or(Value::Null);
            let mut d = 0;
            let mut out = vec![];
            for s in r["stages"].as_array().cloned().unwrap_or_default() {
                let sg = &s["stage"];
                let p = jc(&sg["mint_price"]);
                d = p.0;
                out.push((p.1, jt(&sg["start_time"]), jt(&sg["end_time"])));
            }
            (d, out)
        } else {
            let c = self.w.query(a, &json!({"config": {}})).expect("whitelist config");
            let p = jc(&c["mint_price"]);
            (p.0, vec![(p.1, jt(&c["start_time"]), jt(&c["end_time"]))])
        }
    }
    /// the model line that says "whitelist contract k now has this content"
    fn wlset_line(&self, k: usize) -> String {
        let g = &self.wls[k];
        if is_tiered(g.kind) {
            format!(
                "wlset k={k} kind=t d={} p={} s={} e={}",
                g.denom,
                fmt_list(&g.stages.iter().map(|s| s.0).collect::<Vec<_>>()),
                fmt_list(&g.stages.iter().map(|s| s.1).collect::<Vec<_>>()),
                fmt_list(&g.stages.iter().map(|s| s.2).collect::<Vec<_>>())
            )
        } else {
            let s = g.stages[0];
            format!("wlset k={k} kind=p d={} p={} s={} e={}", g.denom, s.0, s.1, s.2)
        }
    }

    fn create_wl(&mut self, kind: WlKind, d: u64, stages: &[(u128, u64, u64)]) -> Option<usize> {
        let sts: Vec<WlStage> = stages
            .iter()
            .map(|(p, s, e)| WlStage {
                start: *s,
                end: *e,
                mint_price: (d, *p),
                per_address_limit: 3,
                mint_count_limit: None,
                members: (20..=29).map(|a| (a, 3)).collect(),
                merkle_root: if kind == WlKind::TieredMerkle { self.root16.clone() } else { self.root.clone() },
            })
            .collect();
        if sts.is_empty() {
            return None;
        }
        let a = WlArgs { admin: ADMIN, member_limit: 1000, admins_mutable: true, whale_cap: None, stages: sts };
        match self.w.new_whitelist(kind, &a) {
            Ok(addr_) => {
                let (dd, st) = self.observe_wl(&addr_, kind);
                self.wls.push(WlG { addr: addr_, kind, denom: dd, stages: st });
                Some(self.wls.len() - 1)
            }
            Err(e) => {
                if std::env::var("C07_DEBUG").is_ok() {
                    eprintln!("whitelist {kind:?} not created: {e}");
                }
                None
            }
        }
    }

    /// a message to whitelist contract k from its admin; afterwards the ghost is refreshed from the contract's own report
    fn wl_admin(&mut self, k: usize, msg: Value) -> bool {
        let Some(g) = self.wls.get(k).cloned() else { return false };
        let r = self.w.exec(&addr(ADMIN), &g.addr, &msg, &[]).is_ok();
        let (d, st) = self.observe_wl(&g.addr, g.kind);
        self.wls[k].denom = d;
        self.wls[k].stages = st;
        r
    }

    fn do_probe(&mut self) -> String {
        if self.minter.is_none() {
            return "probe none".into();
        }
        self.finding = None;
        let before = self.w.dump(self.minter.as_ref().unwrap());
        let o = self.obs();
        let m = o.m.clone().unwrap();
        let cur = m.qcur;
        for d in [cur.0, cur.0 + 7] {
            self.w.fund(&addr(PROBE_BUYER), d, cur.1.saturating_add(2));
        }
        let f = |d: u64, a: u128| -> Vec<C> { if a == 0 { vec![] } else { vec![(d, a)] } };
        let lo = if cur.1 == 0 { None } else { Some(self.attempt(PROBE_BUYER, &f(cur.0, cur.1 - 1))) };
        let eq = self.attempt(PROBE_BUYER, &f(cur.0, cur.1));
        let hi = self.attempt(PROBE_BUYER, &f(cur.0, cur.1 + 1));
        let wd = self.attempt(PROBE_BUYER, &f(cur.0 + 7, cur.1.max(1)));
        if self.w.dump(self.minter.as_ref().unwrap()) != before {
            panic!("probe changed the minter's storage (rollback failed)");
        }
        // ---- monitors on the real price
        let now = self.w.time();
        let wl_active = self.wl_active(self.g_wl);
        let gate = (wl_active || self.g_start.map(|s| now >= s).unwrap_or(false)) && m.stop.map(|e| now < e).unwrap_or(true);
        let is_dust = dusty(cur, self.g_bps);
        if lo == Some(true) || hi || wd {
            self.flag("mint", "charged-ne-queried", format!("MintPrice.current_price={} but a mint paying lo={:?} hi={} wrongdenom={} was accepted", rc(&cur), lo, hi, wd));
        }
        if gate && !eq && !is_dust {
            self.flag("mint", "queried-price-rejected", format!("mint window open, MintPrice.current_price={} but paying exactly that was rejected", rc(&cur)));
        }
        if !wl_active {
            // a public buyer: whatever was accepted must not exceed the public price (the advertised one AND the one the harness set)
            let pubs: Vec<C> = [Some(m.qpub), self.g_pub].into_iter().flatten().collect();
            let mut accepted: Vec<u128> = vec![];
            if lo == Some(true) {
                accepted.push(cur.1 - 1)
            }
            if eq {
                accepted.push(cur.1)
            }
            if hi {
                accepted.push(cur.1 + 1)
            }
            for p in pubs {
                if let Some(a) = accepted.iter().find(|a| **a > p.1) {
                    self.flag("mint", "charged-above-public", format!("public buyer charged {a} > public price {}", rc(&p)));
                }
                if eq && cur.1 != 0 && cur.0 != p.0 {
                    self.flag("mint", "charged-above-public", format!("public buyer charged in denom {} but the public price is {}", cur.0, rc(&p)));
                }
            }
        }
        let b = |x: bool| if x { "1" } else { "0" };
        let los = lo.map(|x| b(x).to_string()).unwrap_or("-".into());
        if is_dust {
            format!("probe cur={} lo={} eq=* hi={} wd={} ## eqd={}", rc(&cur), los, b(hi), b(wd), b(eq))
        } else {
            format!("probe cur={} lo={} eq={} hi={} wd={} ## eqd=-", rc(&cur), los, b(eq), b(hi), b(wd))
        }
    }

    /// minter `migrate` with the stored cw2 version rewritten to va.vb.vc (through cw2's own accessors)
    fn do_migrate(&mut self, va: u64, vb: u64, vc: u64) -> bool {
        let Some(m) = self.minter.clone() else { return false };
        let a = Addr::unchecked(&m);
        let old = {
            let st = self.w.app.contract_storage(&a);
            cw2::get_contract_version(&*st).expect("cw2 contract version")
        };
        {
            let mut st = self.w.app.contract_storage_mut(&a);
            cw2::set_contract_version(&mut *st, old.contract.clone(), format!("{va}.{vb}.{vc}")).expect("set version");
        }
        let code = self.w.codes.minters[self.kind.idx()];
        let r = self.w.migrate(&addr(ADMIN), &m, code, &json!({}));
        if r.is_err() {
            let mut st = self.w.app.contract_storage_mut(&a);
            cw2::set_contract_version(&mut *st, old.contract, old.version).expect("restore version");
        }
        r.is_ok()
    }

    /// every ExecuteMsg variant of this minter crate that has no protocol op of its own, from a stranger and from the admin.
    /// The variants come from the crate's JSON schema at run time; an unknown one is built from the schema (two argument
    /// sizes, optional fields absent and filled) and sent under the same state monitors.
    fn do_surface(&mut self) {
        self.surface_log.clear();
        let Some(minter) = self.minter.clone() else { return };
        let schema = exec_schema(self.kind);
        let mut vars: Vec<(String, Value)> = variants_of(&schema).into_iter().filter(|(n, _)| !MODELLED.contains(&n.as_str())).collect();
        let rank = |n: &str| OTHER_TODAY.iter().position(|x| *x == n).map(|i| i + 1).unwrap_or(0);
        vars.sort_by_key(|(n, _)| rank(n));
        let big = self.g_pub.map(|p| p.1).unwrap_or(0).saturating_add(1_000_003);
        for (name, node) in vars {
            let known = OTHER_TODAY.contains(&name.as_str());
            let mut shapes: Vec<Value> = vec![build_variant(&schema, &name, &node, 1, false, true)];
            if !known {
                for (n, fill, ws) in [(big, false, true), (1, true, true), (big, true, true), (1, false, false), (big, false, false), (1, true, false), (big, true, false)] {
                    let v = build_variant(&schema, &name, &node, n, fill, ws);
                    if !shapes.contains(&v) {
                        shapes.push(v);
                    }
                }
            }
            for (sender, sname) in [(STRANGER, "str"), (ADMIN, "adm")] {
                let mut any_ok = false;
                for msg in &shapes {
                    let pre = self.obs();
                    let r = self.exec_raw(sender, &minter, msg.to_string(), &[]).is_ok();
                    any_ok |= r;
                    let post = self.obs();
                    if pre.price_state() != post.price_state() {
                        self.flag("surface", &format!("{name}/price-state-changed"), format!("`{msg}` from {sname} (accepted={r}) changed the price state: {} -> {}", pre.render_p(), post.render_p()));
                    }
                }
                self.surface_log.push((name.clone(), sname, any_ok, known));
            }
        }
    }
}

impl Sut for S {
    fn begin(&mut self, header: &str) -> (String, String) {
        let kind = MinterKind::from_idx(kv_u64(header, "kind").unwrap() as usize);
        let now = kv_u64(header, "now").unwrap();
        let mut w = World::new(now);
        let code = w.app.store_code(sentinel_box());
        let sentinel = w.instantiate(code, &addr(GOV), &json!({}), &[], None).expect("sentinel");
        let mut p = w.default_params(kind);
        p.min_mint_price = (kv_u64(header, "fd").unwrap(), kv_u128(header, "fmin").unwrap());
        p.airdrop_mint_price = (0, kv_u128(header, "air").unwrap());
        p.max_per_address_limit = 50;
        p.mint_fee_bps = kv_u64(header, "bps").unwrap();
        // instantiated here (not through `World::new_factory`) so that the factory has a wasm admin and can be migrated
        let fcode = w.factory_code(kind.factory());
        let factory = w.instantiate(fcode, &addr(GOV), &json!({"params": p.to_json(kind.factory())}), &[], Some(&addr(GOV))).expect("factory");
        for b in 20..=29u64 {
            for d in [0u64, 1, 2] {
                w.fund(&addr(b), d, 1u128 << 110);
            }
        }
        self.kind = kind;
        self.w = w;
        self.factory = factory;
        self.sentinel = sentinel;
        self.minter = None;
        self.wls = vec![];
        self.mints_ok = 0;
        self.finding = None;
        self.optin = kv(header, "optin").map(|s| s.split(',').map(String::from).collect()).unwrap_or_default();
        self.g_fmin = p.min_mint_price;
        self.g_bps = p.mint_fee_bps;
        self.g_start = None;
        self.ever_started = None;
        self.g_pub = None;
        self.g_disc = None;
        self.g_wl = None;
        self.last_disc_change = None;
        self.reanchored = false;
        self.fmin_denom_at_create = None;
        self.last_charged = vec![];
        self.surface_log = vec![];
        (header.to_string(), "case".to_string())
    }

    fn exec(&mut self, line: &str) -> (String, String) {
        self.finding = None;
        let op = line.split_whitespace().next().unwrap_or("");
        if op == "probe" {
            return (line.to_string(), self.do_probe());
        }
        let before = self.obs();
        let now = self.w.time();
        let by = kv_u64(line, "by").unwrap_or(ADMIN);
        let paid: Vec<C> = if kv_bool(line, "paid") == Some(true) { vec![(0, 1)] } else { vec![] };
        let minter = self.minter.clone().unwrap_or_else(|| "contract999".to_string());
        let mut model_line = line.to_string();
        let mut tag: Option<&str> = None;
        let mut show_st = false;
        let ok: bool = match op {
            "t" => {
                self.w.set_time(kv_u64(line, "now").unwrap());
                tag = Some("env");
                true
            }
            // ---------------------------------------------------------------- whitelist contracts (environment)
            "wl" | "wlt" => {
                tag = Some("env");
                let d = kv_u64(line, "d").unwrap();
                let (pk, tk) = wl_kinds(self.kind);
                let made = if op == "wl" {
                    self.create_wl(pk, d, &[(kv_u128(line, "p").unwrap(), kv_u64(line, "s").unwrap(), kv_u64(line, "e").unwrap())])
                } else {
                    let ps = kv_list(line, "p").unwrap();
                    let ss = kv_list(line, "s").unwrap();
                    let es = kv_list(line, "e").unwrap();
                    let st: Vec<(u128, u64, u64)> = ps.iter().zip(ss.iter()).zip(es.iter()).map(|((p, s), e)| (*p, *s as u64, *e as u64)).collect();
                    self.create_wl(tk, d, &st)
                };
                model_line = match made {
                    Some(k) => self.wlset_line(k),
                    None => "noop".into(),
                };
                made.is_some()
            }
            "wltime" | "wlstage" | "wladd" | "wlrm" => {
                tag = Some("env");
                let k = kv_u64(line, "k").unwrap() as usize;
                let ts = |x: Option<Option<u64>>| x.flatten().map(|t| Value::String(t.to_string())).unwrap_or(Value::Null);
                let kind = self.wls.get(k).map(|g| g.kind);
                let msg = match op {
                    "wltime" => {
                        let t = kv_u64(line, "t").unwrap().to_string();
                        if kv(line, "which") == Some("s") {
                            json!({"update_start_time": t})
                        } else {
                            json!({"update_end_time": t})
                        }
                    }
                    "wlstage" => {
                        let mut m = json!({"stage_id": kv_u64(line, "i").unwrap(), "start_time": ts(kv_opt_u64(line, "s")), "end_time": ts(kv_opt_u64(line, "e"))});
                        if let Some(Some(p)) = kv_opt_u128(line, "p") {
                            let d = kv_opt_u64(line, "d").flatten().or(self.wls.get(k).map(|g| g.denom)).unwrap_or(0);
                            m["mint_price"] = jcoin((d, p));
                        }
                        json!({"update_stage_config": m})
                    }
                    "wladd" => {
                        let d = self.wls.get(k).map(|g| g.denom).unwrap_or(0);
                        let mut st = json!({"name": "added", "start_time": kv_u64(line, "s").unwrap().to_string(), "end_time": kv_u64(line, "e").unwrap().to_string(),
                            "mint_price": jcoin((d, kv_u128(line, "p").unwrap())), "mint_count_limit": null});
                        let members: Vec<Value> = if kind == Some(WlKind::TieredFlex) {
                            (20..=29).map(|a| json!({"address": addr(a), "mint_count": 3})).collect()
                        } else {
                            st["per_address_limit"] = json!(3);
                            (20..=29).map(|a| Value::String(addr(a))).collect()
                        };
                        json!({"add_stage": {"stage": st, "members": members}})
                    }
                    _ => json!({"remove_stage": {"stage_id": kv_u64(line, "i").unwrap()}}),
                };
                self.wl_prev = self.wls.get(k).map(|g| g.stages.iter().map(|s| s.0).collect()).unwrap_or_default();
                let r = self.wl_admin(k, msg);
                model_line = if k < self.wls.len() { self.wlset_line(k) } else { "noop".into() };
                r
            }
            // ---------------------------------------------------------------- the operations of the property
            "create" => {
                let p = self.w.default_params(self.kind);
                let mut a = self.w.default_create(self.kind, &p);
                a.creator = by;
                a.per_address_limit = 3;
                a.start_time = kv_u64(line, "s").unwrap();
                a.mint_price = (kv_u64(line, "d").unwrap(), kv_u128(line, "p").unwrap());
                let cap = kv_bool(line, "cap").unwrap();
                if self.kind.is_open_edition() {
                    a.end_time = kv_opt_u64(line, "e").unwrap();
                    a.num_tokens = if cap { Some(100) } else { None };
                } else {
                    a.num_tokens = Some(100);
                }
                a.whitelist = kv_opt_u64(line, "wl").unwrap().map(|k| self.wls.get(k as usize).map(|g| g.addr.clone()).unwrap_or_else(|| "contract999".into()));
                a.funds = vec![(0, CREATION_FEE)];
                self.w.fund(&addr(by), 0, CREATION_FEE);
                if self.minter.is_some() {
                    false // the model follows one minter per case; never generated
                } else {
                    match self.w.create_minter(&self.factory.clone(), self.kind, &a) {
                        Ok((m, _c)) => {
                            self.minter = Some(m);
                            true
                        }
                        Err(_) => false,
                    }
                }
            }
            "ump" => self.exec_raw(by, &minter, json!({"update_mint_price": {"price": kv_u128(line, "p").unwrap().to_string()}}).to_string(), &paid).is_ok(),
            "udp" => self.exec_raw(by, &minter, json!({"update_discount_price": {"price": kv_u128(line, "p").unwrap().to_string()}}).to_string(), &paid).is_ok(),
            "rdp" => self.exec_raw(by, &minter, json!({"remove_discount_price": {}}).to_string(), &paid).is_ok(),
            "swl" => {
                let k = kv_u64(line, "k").unwrap() as usize;
                let wl = self.wls.get(k).map(|g| g.addr.clone()).unwrap_or_else(|| "contract999".into());
                self.exec_raw(by, &minter, json!({"set_whitelist": {"whitelist": wl}}).to_string(), &paid).is_ok()
            }
            "ust" => self.exec_raw(by, &minter, json!({"update_start_time": kv_u64(line, "t").unwrap().to_string()}).to_string(), &paid).is_ok(),
            // open edition `UpdateEndTime`: `PriceRules.updateEnd` decides it (the end time gates UpdateMintPrice and Mint)
            "uet" => self.exec_raw(by, &minter, json!({"update_end_time": kv_u64(line, "t").unwrap().to_string()}).to_string(), &paid).is_ok(),
            "sudomin" => {
                let c = (kv_u64(line, "d").unwrap(), kv_u128(line, "a").unwrap());
                self.w.sudo(&self.factory.clone(), &json!({"update_params": {"min_mint_price": jcoin(c), "extension": {}}})).is_ok()
            }
            "sudoair" => {
                tag = Some("env");
                show_st = true;
                let c = (kv_u64(line, "d").unwrap(), kv_u128(line, "a").unwrap());
                self.w.sudo(&self.factory.clone(), &json!({"update_params": {"extension": {"airdrop_mint_price": jcoin(c)}}})).is_ok()
            }
            "sudofee" => {
                tag = Some("env");
                let b = kv_u64(line, "bps").unwrap();
                let r = self.w.sudo(&self.factory.clone(), &json!({"update_params": {"mint_fee_bps": b, "extension": {}}})).is_ok();
                if r {
                    self.g_bps = b;
                } else {
                    model_line = "noop".into();
                }
                r
            }
            "facmig" => {
                let d = kv_opt_u64(line, "d").unwrap();
                let a = kv_opt_u128(line, "a").unwrap();
                let b = kv_opt_u64(line, "bps").unwrap();
                let min: Option<C> = match (d, a) {
                    (Some(d), Some(a)) => Some((d, a)),
                    _ => None,
                };
                let msg = if min.is_none() && b.is_none() {
                    Value::Null
                } else {
                    let mut m = json!({"extension": {}});
                    if let Some(c) = min {
                        m["min_mint_price"] = jcoin(c);
                    }
                    if let Some(b) = b {
                        m["mint_fee_bps"] = json!(b);
                    }
                    m
                };
                let code = self.w.factory_code(self.kind.factory());
                let f = self.factory.clone();
                let r = self.w.migrate(&addr(GOV), &f, code, &msg).is_ok();
                if r {
                    if let Some(b) = b {
                        self.g_bps = b;
                    }
                }
                r
            }
            "mint" => {
                let buyer = kv_u64(line, "buyer").unwrap();
                let funds: Vec<C> = kv_pairs(line, "funds").unwrap().into_iter().map(|(d, a)| (d as u64, a)).collect();
                if let Some(bm) = &before.m {
                    if dusty(bm.qcur, self.g_bps) && funds == vec![bm.qcur] {
                        tag = Some("dust");
                        show_st = true;
                    }
                }
                for (d, a) in &funds {
                    self.w.fund(&addr(buyer), *d, *a);
                }
                let mut denoms: Vec<u64> = funds.iter().map(|f| f.0).collect();
                if let Some(bm) = &before.m {
                    denoms.push(bm.qcur.0);
                    denoms.push(bm.pubp.0);
                }
                denoms.sort();
                denoms.dedup();
                let b0: Vec<u128> = denoms.iter().map(|d| self.w.balance(&addr(buyer), *d)).collect();
                let msg = self.mint_msg(buyer);
                let r = self.send_raw(buyer, &minter, msg, &funds).is_ok();
                // what the mint really cost: the buyer's balance difference, per denom
                self.last_charged = denoms
                    .iter()
                    .zip(b0.iter())
                    .map(|(d, b)| (*d, b.saturating_sub(self.w.balance(&addr(buyer), *d))))
                    .filter(|(_, x)| *x != 0)
                    .collect();
                if r {
                    self.mints_ok += 1;
                }
                r
            }
            "migrate" => {
                let v = (kv_u64(line, "va").unwrap(), kv_u64(line, "vb").unwrap(), kv_u64(line, "vc").unwrap());
                let r = self.do_migrate(v.0, v.1, v.2);
                if r && v < (3, 9, 0) && self.kind.is_vending() {
                    // the contract re-anchors LAST_DISCOUNT_TIME at now − 12 h (C07X_migrate_reanchor_counterexample): the next
                    // discount change is exempt from the cooldown monitor — counted, and only that one
                    self.reanchored = true;
                }
                r
            }
            "surface" => {
                tag = Some("env");
                self.do_surface();
                true
            }
            _ => return (line.to_string(), "bad-op".into()),
        };
        let after = self.obs();
        self.monitors(op, line, ok, &before, &after, now);
        let tag = tag.unwrap_or(if ok { "ok" } else { "err" });
        let st = if show_st { if ok { "st=ok " } else { "st=err " } } else { "" };
        (model_line, format!("{tag} {} ## {st}{}", after.render_p(), after.render_d()))
    }

    fn monitor(&mut self) -> Option<(String, String)> {
        self.finding.take()
    }
}


// ------------------------------------------------------------------------------------------------ monitors (transcription of the property)

impl S {
    /// Called after every op. `before` / `after` are observations of the contracts; everything the property quantifies over
    /// ("the factory minimum in force", "the public price", "once the mint has started", "the previous discount change") is
    /// taken from the GHOST record of what this harness itself set by messages that were accepted.
    fn monitors(&mut self, op: &str, line: &str, ok: bool, before: &Obs, after: &Obs, now: u64) {
        let fmin = self.g_fmin; // the minimum in force at that moment
        if self.minter.is_some() && op != "create" && self.ever_started.is_none() && self.g_start.map(|s| now >= s).unwrap_or(false) {
            self.ever_started = Some(now);
        }
        let started = self.ever_started.is_some();
        let (pub0, disc0, wl0) = (self.g_pub, self.g_disc, self.g_wl);
        let in_projection = matches!(op, "create" | "ump" | "udp" | "rdp" | "swl" | "ust" | "uet" | "sudomin" | "facmig" | "mint");

        // ---------------------------------------------------------------- 1. what an ACCEPTED operation did, against the clauses
        if ok {
            match op {
                "create" => {
                    let p = (kv_u64(line, "d").unwrap(), kv_u128(line, "p").unwrap());
                    let wl = kv_opt_u64(line, "wl").unwrap().map(|k| k as usize);
                    self.fmin_denom_at_create = Some(fmin.0);
                    self.g_pub = Some(p);
                    self.g_disc = None;
                    self.g_start = kv_u64(line, "s");
                    self.g_wl = wl;
                    if p.1 < fmin.1 {
                        self.flag("create", "below-floor", format!("minter created with price {} below factory minimum {}", rc(&p), rc(&fmin)));
                    }
                    if p.0 != fmin.0 {
                        self.flag("create", "denom-differs-from-factory-min", format!("minter created with price {} but factory minimum is {}", rc(&p), rc(&fmin)));
                    }
                    // reported, undecided (docs/C07.md "Reported" 2): the whitelist named at creation is not compared with the floor.
                    // Raised only in cases whose header opts in.
                    if let Some(k) = wl {
                        if let Some(g) = self.wls.get(k).cloned() {
                            if let (Some(s), true) = (g.stages.iter().find(|s| s.0 < fmin.1), self.opted("cwl")) {
                                self.flag("create", "whitelist-below-floor", format!("minter created with whitelist {k} whose price {}:{} is below the factory minimum {}", g.denom, s.0, rc(&fmin)));
                            }
                            if g.denom != fmin.0 && self.opted("cwld") {
                                self.flag("create", "whitelist-denom-differs-from-factory-min", format!("minter created with whitelist {k} priced in denom {} but the factory minimum is {}", g.denom, rc(&fmin)));
                            }
                        }
                    }
                }
                "ump" => {
                    let p = kv_u128(line, "p").unwrap();
                    let old = pub0.unwrap_or((fmin.0, 0));
                    self.g_pub = Some((old.0, p));
                    if p < fmin.1 {
                        self.flag(op, "below-floor", format!("price {p} accepted below factory minimum {}", rc(&fmin)));
                    }
                    if old.0 != fmin.0 {
                        // the one recorded finding is the history "governance switched the factory minimum's denom after this
                        // minter was created"; a mismatch with no such switch is a different (new) violation
                        let pred = if self.fmin_denom_at_create.is_some() && self.fmin_denom_at_create != Some(fmin.0) { "denom-differs-from-factory-min-after-governance-denom-switch" } else { "denom-differs-from-factory-min" };
                        self.flag(op, pred, format!("price {}:{p} set while the factory minimum in force is {}", old.0, rc(&fmin)));
                    }
                    if started && p >= old.1 {
                        self.flag(op, "raised-after-start", format!("UpdateMintPrice at {now} (started at {:?}) accepted {p}, not below the public price {}", self.g_start, rc(&old)));
                    }
                    // a standing discount may stay or be dropped (never changed); whichever it is becomes the record
                    if let Some(am) = &after.m {
                        if am.disc != disc0 && am.disc.is_some() {
                            self.flag(op, "discount-changed", format!("UpdateMintPrice turned the discount {} into {}", roc(&disc0), roc(&am.disc)));
                        }
                        self.g_disc = am.disc;
                    }
                }
                "udp" => {
                    let p = kv_u128(line, "p").unwrap();
                    let pubp = pub0.unwrap_or((fmin.0, 0));
                    self.g_disc = Some((pubp.0, p));
                    if !started {
                        self.flag("udp", "before-start", format!("discount set at {now} before start {:?}", self.g_start));
                    }
                    if p > pubp.1 {
                        self.flag("udp", "above-public", format!("discount {p} set above public price {}", rc(&pubp)));
                    }
                    if p < fmin.1 {
                        self.flag(op, "below-floor", format!("discount {p} accepted below factory minimum {}", rc(&fmin)));
                    }
                    if pubp.0 != fmin.0 {
                        let pred = if self.fmin_denom_at_create.is_some() && self.fmin_denom_at_create != Some(fmin.0) { "denom-differs-from-factory-min-after-governance-denom-switch" } else { "denom-differs-from-factory-min" };
                        self.flag(op, pred, format!("discount {}:{p} set while the factory minimum in force is {}", pubp.0, rc(&fmin)));
                    }
                    if let Some(l) = self.last_disc_change {
                        if now < l + H12 {
                            if self.reanchored {
                                self.counts.push("cooldown-exempt-after-pre-3.9.0-migrate".into());
                            } else {
                                self.flag("udp", "cooldown", format!("discount changed at {now}, less than 12 h after the previous change at {l}"));
                            }
                        }
                    }
                    self.last_disc_change = Some(now);
                    self.reanchored = false;
                }
                "rdp" => {
                    self.g_disc = None;
                    if let Some(l) = self.last_disc_change {
                        if now < l + HOUR {
                            if self.reanchored {
                                self.counts.push("cooldown-exempt-after-pre-3.9.0-migrate".into());
                            } else {
                                self.flag("rdp", "cooldown", format!("discount removed at {now}, less than 1 h after the previous change at {l}"));
                            }
                        }
                    }
                    self.last_disc_change = Some(now);
                    self.reanchored = false;
                }
                "swl" => {
                    let k = kv_u64(line, "k").unwrap() as usize;
                    self.g_wl = Some(k);
                    // the price the WHITELIST contract reports at this moment (what "attaching a whitelist … with a price" means)
                    if let Some(wp) = self.wl_price(k) {
                        if wp.1 < fmin.1 {
                            self.flag("swl", "below-floor", format!("whitelist with price {} attached below factory minimum {}", rc(&wp), rc(&fmin)));
                        }
                        if wp.0 != fmin.0 {
                            self.flag("swl", "denom-differs-from-factory-min", format!("whitelist with price {} attached, factory minimum is {}", rc(&wp), rc(&fmin)));
                        }
                    }
                    // reported, undecided: only the stage the whitelist reports is compared; opt-in
                    if self.opted("tier") {
                        if let Some(g) = self.wls.get(k).cloned() {
                            if let Some(s) = g.stages.iter().find(|s| s.0 < fmin.1) {
                                self.flag("swl", "tiered-stage-below-floor", format!("tiered whitelist {k} attached; its stage price {}:{} is below the factory minimum {}", g.denom, s.0, rc(&fmin)));
                            }
                        }
                    }
                }
                "ust" => self.g_start = kv_u64(line, "t"),
                "sudomin" => self.g_fmin = (kv_u64(line, "d").unwrap(), kv_u128(line, "a").unwrap()),
                "facmig" => {
                    if let (Some(Some(d)), Some(Some(a))) = (kv_opt_u64(line, "d"), kv_opt_u128(line, "a")) {
                        self.g_fmin = (d, a);
                    }
                }
                "wlstage" | "wladd" | "wlrm" | "wltime" => {
                    // reported, undecided: the admin of an ATTACHED whitelist lowers its price below the floor afterwards; opt-in
                    let k = kv_u64(line, "k").unwrap() as usize;
                    if self.opted("wlmut") && self.g_wl == Some(k) {
                        if let Some(g) = self.wls.get(k).cloned() {
                            let prev = self.wl_prev.clone();
                            if let Some((_, s)) = g.stages.iter().enumerate().find(|(i, s)| s.0 < fmin.1 && prev.get(*i) != Some(&s.0)) {
                                self.flag(op, "attached-whitelist-price-below-floor", format!("whitelist {k} is attached to the minter; its admin set a stage price {}:{} below the factory minimum {}", g.denom, s.0, rc(&fmin)));
                            }
                        }
                    }
                }
                "mint" => {
                    // a real mint: what left the buyer's account vs what the query advertised just before
                    let bm = before.m.as_ref().unwrap();
                    let expect: Vec<C> = if bm.qcur.1 == 0 { vec![] } else { vec![bm.qcur] };
                    if self.last_charged != expect {
                        self.flag("mint", "charged-ne-queried", format!("the mint took {:?} from the buyer but MintPrice.current_price was {}", self.last_charged, rc(&bm.qcur)));
                    }
                    if !self.wl_active(wl0) {
                        for p in [Some(bm.qpub), pub0].into_iter().flatten() {
                            if let Some(c) = self.last_charged.iter().find(|c| c.1 > p.1 || c.0 != p.0) {
                                self.flag("mint", "charged-above-public", format!("public buyer charged {} but the public price is {}", rc(c), rc(&p)));
                            }
                        }
                    }
                }
                _ => {}
            }
        } else if op == "mint" && !self.last_charged.is_empty() {
            self.flag("mint", "failed-mint-charged", format!("the mint failed but {:?} left the buyer's account", self.last_charged));
        }

        // ---------------------------------------------------------------- 2. the stored state must be exactly what was set
        if after.fmin != self.g_fmin {
            self.flag(op, "factory-min-not-as-set", format!("factory reports min_mint_price {} but governance last set {}", rc(&after.fmin), rc(&self.g_fmin)));
        }
        if let Some(am) = &after.m {
            if let Some(gp) = self.g_pub {
                if am.pubp != gp {
                    if started && am.pubp.1 > gp.1 {
                        self.flag(op, "raised-after-start", format!("public price is {} after `{op}` at {now}; it was set to {} and the mint started at {:?}", rc(&am.pubp), rc(&gp), self.g_start));
                    }
                    if am.pubp.1 < fmin.1 {
                        self.flag(op, "below-floor", format!("public price became {} (below the factory minimum {}) by `{op}`", rc(&am.pubp), rc(&fmin)));
                    }
                    self.flag(op, "public-price-not-as-set", format!("public price is {} after `{op}` (accepted={ok}); the last accepted price-setting operation set {}", rc(&am.pubp), rc(&gp)));
                }
                if am.qpub != gp {
                    self.flag(op, "query-fields", format!("MintPrice.public_price {} differs from the public price set {}", rc(&am.qpub), rc(&gp)));
                }
            }
            if am.disc != self.g_disc {
                self.flag(op, "discount-not-as-set", format!("discount is {} after `{op}` (accepted={ok}); the last accepted operation left {}", roc(&am.disc), roc(&self.g_disc)));
            }
            if am.wl != self.g_wl {
                self.flag(op, "whitelist-not-as-set", format!("attached whitelist is {:?} after `{op}` (accepted={ok}); the last accepted operation attached {:?}", am.wl, self.g_wl));
            }
            if Some(am.start) != self.g_start {
                self.flag(op, "start-time-not-as-set", format!("start_time is {} after `{op}` (accepted={ok}); it was set to {:?}", am.start, self.g_start));
            }
            if let Some(d) = am.disc {
                if d.1 > am.pubp.1 || d.0 != am.pubp.0 {
                    self.flag(op, "discount-above-public", format!("stored discount {} exceeds public price {}", rc(&d), rc(&am.pubp)));
                }
            }
            if ok && (op == "udp" || op == "rdp") && am.last != Some(now) {
                self.flag(op, "last-discount-time-not-saved", format!("discount changed at {now} but LAST_DISCOUNT_TIME is {:?}", am.last));
            }
            // the query's stored fields
            if am.qpub != am.pubp || am.qdisc != am.disc {
                self.flag(op, "query-fields", format!("MintPrice public/discount {} / {} differ from Config {} / {}", rc(&am.qpub), roc(&am.qdisc), rc(&am.pubp), roc(&am.disc)));
            }
        }
        if !ok && in_projection && before.price_state() != after.price_state() {
            self.flag(op, "failed-op-changed-state", format!("`{line}` failed but the price state changed"));
        }
    }
}

// ------------------------------------------------------------------------------------------------ generators

struct Gen {
    now: u64,
    created: bool,
}

fn amount(rng: &mut Rng, around: u128) -> u128 {
    match rng.below(8) {
        0 => around.saturating_sub(1),
        1 => around,
        2 => around + 1,
        3 => 0,
        4 => around / 2,
        5 => around * 2 + rng.below(1000) as u128,
        6 => rng.sized_u128(90),
        _ => around + rng.below(1_000_000) as u128,
    }
}

/// last observation rendered by the implementation -> fields the generator steers by
fn field<'a>(out: &'a str, k: &str) -> Option<&'a str> {
    kv(out, k)
}
fn fcoin(out: &str, k: &str) -> Option<C> {
    let v = field(out, k)?;
    let (d, a) = v.split_once(':')?;
    Some((d.parse().ok()?, a.parse().ok()?))
}
fn tag_of(out: &str) -> &str {
    out.split_whitespace().next().unwrap_or("?")
}

/// step + drain what the Sut wants recorded in the evidence
fn step(ses: &mut Session, sut: &mut S, line: &str) -> String {
    let o = ses.step(sut, line);
    for c in std::mem::take(&mut sut.counts) {
        ses.count(&c);
    }
    if line == "surface" {
        let kname = sut.kind.name();
        for (name, who, okk, known_v) in std::mem::take(&mut sut.surface_log) {
            ses.mark(format!("surface:{kname}:{name}:{who}:{}", if okk { "ok" } else { "err" }));
            if !known_v {
                ses.mark(format!("surface:unknown-variant:{kname}:{name}"));
                ses.count(&format!("unknown-variant:{name}"));
            }
        }
    }
    o
}

/// a line creating a whitelist: plain kind (`wl`) or tiered kind (`wlt`, 1–3 stages, later stages priced around the floor)
fn gen_wl(rng: &mut Rng, now: u64, d: u64, fmin: u128, pubp: u128, tiered: bool) -> String {
    let price = |rng: &mut Rng| -> u128 {
        match rng.below(8) {
            0 => fmin.saturating_sub(1),
            1 => fmin,
            2 => 0,
            3 => pubp + rng.below(1000) as u128,
            4 => amount(rng, fmin),
            _ => {
                let hi = pubp.max(fmin) + 10;
                fmin + (rng.next_u128() % (hi - fmin + 1))
            }
        }
    };
    let ws = now + rng.range(1, 2 * HOUR);
    if !tiered {
        let we = if rng.chance(1, 10) { ws } else { ws + rng.range(1, 3 * HOUR) };
        return format!("wl d={d} p={} s={ws} e={we}", price(rng));
    }
    let n = rng.range(1, 3);
    let (mut ps, mut ss, mut es) = (vec![], vec![], vec![]);
    let mut s = ws;
    for i in 0..n {
        let e = s + rng.range(1, 2 * HOUR);
        // the first stage is mostly valid (so that the whitelist attaches), later ones are what the minter never looks at
        ps.push(if i == 0 && rng.chance(2, 3) { fmin + rng.below(1000) as u128 } else { price(rng) });
        ss.push(s);
        es.push(e);
        s = if rng.chance(1, 3) { e } else { e + rng.range(1, HOUR) };
    }
    format!("wlt d={d} p={} s={} e={}", fmt_list(&ps), fmt_list(&ss), fmt_list(&es))
}

fn windows(sut: &S) -> Vec<(u64, u64)> {
    sut.wls.iter().flat_map(|g| g.stages.iter().map(|s| (s.1, s.2))).collect()
}

/// deterministic boundary walks, run for every seed: the classes `bnd:<kind>:…` carry the OUTCOME, and are required
fn boundary_cases(ses: &mut Session, sut: &mut S, optin: &str) {
    for kind in &ALL_MINTERS[..9] {
        let kind = *kind;
        let k = kind.idx();
        let oe = kind.is_open_edition();
        let t0 = GENESIS + DAY;
        let s = t0 + DAY;
        let e = s + 3 * DAY;
        let es = if oe { e.to_string() } else { "-".to_string() };
        let mark = |ses: &mut Session, what: &str, out: &str| ses.mark(format!("bnd:{k}:{what}:{}", tag_of(out)));
        // ---- A. floor at creation / UpdateMintPrice / SetWhitelist; only-lower after the start; open edition: the end
        ses.begin_case(sut, &format!("case kind={k} now={t0} fd=0 fmin=5000 air=7 bps=1000 corpus=floor{optin}"));
        let o = step(ses, sut, &format!("wl d=0 p=4999 s={} e={}", t0 + HOUR, t0 + 2 * HOUR));
        mark(ses, "wl-made", &o);
        step(ses, sut, &format!("wl d=0 p=5000 s={} e={}", t0 + HOUR, t0 + 2 * HOUR));
        step(ses, sut, &format!("wl d=1 p=6000 s={} e={}", t0 + HOUR, t0 + 2 * HOUR));
        let o = step(ses, sut, &format!("create by=10 d=0 p=4999 s={s} e={es} cap=1 wl=-"));
        mark(ses, "create:floor-1", &o);
        let o = step(ses, sut, &format!("create by=10 d=1 p=5000 s={s} e={es} cap=1 wl=-"));
        mark(ses, "create:wrong-denom", &o);
        let o = step(ses, sut, &format!("create by=10 d=0 p=5000 s={s} e={es} cap=1 wl=-"));
        mark(ses, "create:floor", &o);
        step(ses, sut, "probe");
        if oe {
            // UpdateEndTime: admin only, nonpayable, not before the start, not in the past; vending has no such message
            let o = step(ses, sut, &format!("uet by=11 paid=0 t={}", e + HOUR));
            mark(ses, "uet:stranger", &o);
            let o = step(ses, sut, &format!("uet by=10 paid=1 t={}", e + HOUR));
            mark(ses, "uet:paid", &o);
            let o = step(ses, sut, &format!("uet by=10 paid=0 t={}", s - 1));
            mark(ses, "uet:start-1", &o);
            let o = step(ses, sut, &format!("uet by=10 paid=0 t={}", t0 - 1));
            mark(ses, "uet:past", &o);
            let o = step(ses, sut, &format!("uet by=10 paid=0 t={s}"));
            mark(ses, "uet:start", &o);
            let o = step(ses, sut, &format!("uet by=10 paid=0 t={e}"));
            mark(ses, "uet:back", &o);
        } else {
            let o = step(ses, sut, &format!("uet by=10 paid=0 t={}", e + HOUR));
            mark(ses, "uet:vending", &o);
        }
        let o = step(ses, sut, "swl by=10 paid=0 k=0");
        mark(ses, "swl:floor-1", &o);
        let o = step(ses, sut, "swl by=10 paid=0 k=2");
        mark(ses, "swl:wrong-denom", &o);
        let o = step(ses, sut, "swl by=11 paid=0 k=1");
        mark(ses, "swl:stranger", &o);
        let o = step(ses, sut, "swl by=10 paid=0 k=1");
        mark(ses, "swl:floor", &o);
        let o = step(ses, sut, "ump by=10 paid=0 p=100000");
        mark(ses, "ump:before:raise", &o);
        let o = step(ses, sut, "ump by=10 paid=0 p=4999");
        mark(ses, "ump:before:floor-1", &o);
        let o = step(ses, sut, "sudomin d=0 a=6000");
        mark(ses, "sudomin", &o);
        let o = step(ses, sut, "ump by=10 paid=0 p=5999");
        mark(ses, "ump:before:newfloor-1", &o);
        let o = step(ses, sut, "ump by=10 paid=0 p=6000");
        mark(ses, "ump:before:newfloor", &o);
        let o = step(ses, sut, "facmig d=0 a=5000 bps=-");
        mark(ses, "facmig", &o);
        let o = step(ses, sut, "ump by=10 paid=0 p=100000");
        mark(ses, "ump:before:raise2", &o);
        // whitelist window [t0+1h, t0+2h): the whitelist price is charged inside, the public one outside
        for (what, t) in [("wlstart-1", t0 + HOUR - 1), ("wlstart", t0 + HOUR), ("wlend-1", t0 + 2 * HOUR - 1), ("wlend", t0 + 2 * HOUR)] {
            step(ses, sut, &format!("t now={t}"));
            let o = step(ses, sut, "probe");
            ses.mark(format!("bnd:{k}:probe:{what}:{}", o.split_whitespace().skip(1).take(3).collect::<Vec<_>>().join(",")));
        }
        step(ses, sut, &format!("t now={}", t0 + HOUR + 5));
        let o = step(ses, sut, "mint buyer=20 funds=0:5000");
        mark(ses, "mint:wl-price", &o);
        let o = step(ses, sut, "mint buyer=21 funds=0:100000");
        mark(ses, "mint:wl-active-public-price", &o);
        step(ses, sut, &format!("t now={}", s - 1));
        let o = step(ses, sut, "ump by=10 paid=0 p=100001");
        mark(ses, "ump:start-1:raise", &o);
        step(ses, sut, &format!("t now={s}"));
        let o = step(ses, sut, "ump by=10 paid=0 p=100002");
        mark(ses, "ump:start:raise", &o);
        let o = step(ses, sut, "ump by=10 paid=0 p=100001");
        mark(ses, "ump:start:equal", &o);
        let o = step(ses, sut, "ump by=10 paid=1 p=100000");
        mark(ses, "ump:start:lower-paid", &o);
        let o = step(ses, sut, "ump by=11 paid=0 p=100000");
        mark(ses, "ump:start:lower-stranger", &o);
        let o = step(ses, sut, "ump by=10 paid=0 p=100000");
        mark(ses, "ump:start:lower", &o);
        step(ses, sut, "probe");
        let o = step(ses, sut, "mint buyer=22 funds=0:100000");
        mark(ses, "mint:public", &o);
        let o = step(ses, sut, "mint buyer=22 funds=0:99999");
        mark(ses, "mint:public-1", &o);
        let o = step(ses, sut, "migrate va=3 vb=15 vc=0");
        mark(ses, "migrate:older", &o);
        let o = step(ses, sut, "migrate va=4 vb=0 vc=0");
        mark(ses, "migrate:newer", &o);
        if oe {
            step(ses, sut, &format!("t now={}", e - 1));
            let o = step(ses, sut, "ump by=10 paid=0 p=90000");
            mark(ses, "ump:end-1:lower", &o);
            step(ses, sut, "probe");
            step(ses, sut, &format!("t now={e}"));
            let o = step(ses, sut, "ump by=10 paid=0 p=80000");
            mark(ses, "ump:end:lower", &o);
            step(ses, sut, "probe");
            let o = step(ses, sut, &format!("uet by=10 paid=0 t={}", e + HOUR));
            mark(ses, "uet:end-passed", &o);
        }
        step(ses, sut, "surface");
        ses.end_case();

        // ---- B. a tiered whitelist with two TOUCHING stages: closed windows, first stage wins at the shared instant
        let (a, b, c) = (t0 + HOUR, t0 + 2 * HOUR, t0 + 3 * HOUR);
        ses.begin_case(sut, &format!("case kind={k} now={t0} fd=0 fmin=5000 air=0 bps=1000 corpus=tiered{optin}"));
        let o = step(ses, sut, &format!("wlt d=0 p=7000,6000 s={a},{b} e={b},{c}"));
        mark(ses, "wlt-made", &o);
        step(ses, sut, &format!("create by=10 d=0 p=100000 s={s} e={es} cap=1 wl=-"));
        let o = step(ses, sut, "swl by=10 paid=0 k=0");
        mark(ses, "swl:tiered", &o);
        for (what, t) in [("s1-1", a - 1), ("s1", a), ("s1end", b), ("s1end+1", b + 1), ("s2end", c), ("s2end+1", c + 1)] {
            step(ses, sut, &format!("t now={t}"));
            let o = step(ses, sut, "probe");
            ses.mark(format!("bnd:{k}:tier:{what}:{}", o.split_whitespace().skip(1).take(3).collect::<Vec<_>>().join(",")));
            if what == "s1" {
                let o = step(ses, sut, "mint buyer=23 funds=0:7000");
                mark(ses, "mint:tier-s1", &o);
            }
            if what == "s1end+1" {
                let o = step(ses, sut, "mint buyer=23 funds=0:6000");
                mark(ses, "mint:tier-s2", &o);
                // the whitelist admin re-prices the running stage (at the floor): the query and the charge follow
                let o = step(ses, sut, "wlstage k=0 i=1 p=5000 d=- s=- e=-");
                mark(ses, "wlstage", &o);
                let o = step(ses, sut, "probe");
                ses.mark(format!("bnd:{k}:tier:repriced:{}", o.split_whitespace().skip(1).take(3).collect::<Vec<_>>().join(",")));
            }
        }
        step(ses, sut, "surface");
        ses.end_case();

        // ---- D. the start instant: start−1 ns / start / start+1 ns, each: UpdateStartTime(future), then a raise attempt.
        // "Once the mint has started" is sticky in the monitors: an accepted UpdateStartTime at `now = start` must not
        // make a later raise legitimate (the public mint at that very instant shows the mint IS open).
        {
            let s2 = s + HOUR;
            ses.begin_case(sut, &format!("case kind={k} now={t0} fd=0 fmin=5000 air=7 bps=1000 corpus=startedge{optin}"));
            step(ses, sut, &format!("create by=10 d=0 p=100000 s={s} e={es} cap=1 wl=-"));
            let edge = |ses: &mut Session, what: &str, out: &str| {
                ses.mark(format!("bnd:{k}:{what}:{}", match tag_of(out) { "ok" => "accepted", "err" => "refused", x => x }))
            };
            step(ses, sut, &format!("t now={}", s - 1));
            let o = step(ses, sut, "mint buyer=24 funds=0:100000");
            edge(ses, "mint@start-1", &o);
            let o = step(ses, sut, &format!("ust by=10 paid=0 t={s2}"));
            edge(ses, "ust@start-1", &o);
            let o = step(ses, sut, "ump by=10 paid=0 p=100001");
            edge(ses, "raise@start-1", &o);
            step(ses, sut, "probe");
            step(ses, sut, &format!("t now={s2}"));
            let o = step(ses, sut, "mint buyer=24 funds=0:100001");
            edge(ses, "mint@start", &o);
            let o = step(ses, sut, &format!("ust by=10 paid=0 t={}", s2 + HOUR));
            edge(ses, "ust@start", &o);
            let o = step(ses, sut, "ump by=10 paid=0 p=100002");
            edge(ses, "raise@start", &o);
            step(ses, sut, "probe");
            step(ses, sut, &format!("t now={}", s2 + 1));
            let o = step(ses, sut, &format!("ust by=10 paid=0 t={}", s2 + HOUR));
            edge(ses, "ust@start+1", &o);
            let o = step(ses, sut, "ump by=10 paid=0 p=100002");
            edge(ses, "raise@start+1", &o);
            let o = step(ses, sut, "mint buyer=25 funds=0:100001");
            edge(ses, "mint@start+1", &o);
            step(ses, sut, "probe");
            ses.end_case();
        }

        // ---- C. discounts (vending only): start, 12 h, 1 h, each −1 ns / sharp; fix 100f319
        if !oe {
            ses.begin_case(sut, &format!("case kind={k} now={t0} fd=0 fmin=50 air=0 bps=1000 corpus=fc07{optin}"));
            step(ses, sut, &format!("create by=10 d=0 p=1000 s={s} e=- cap=1 wl=-"));
            step(ses, sut, "probe");
            step(ses, sut, &format!("t now={}", s - 1));
            let o = step(ses, sut, "udp by=10 paid=0 p=900");
            mark(ses, "udp:start-1", &o);
            step(ses, sut, &format!("t now={s}"));
            step(ses, sut, "probe");
            let o = step(ses, sut, "udp by=11 paid=0 p=900");
            mark(ses, "udp:stranger", &o);
            let o = step(ses, sut, "udp by=10 paid=0 p=900");
            mark(ses, "udp:start", &o);
            step(ses, sut, "probe");
            let o = step(ses, sut, "ump by=10 paid=0 p=500");
            mark(ses, "ump:below-discount", &o);
            let o = step(ses, sut, "probe");
            ses.mark(format!("bnd:{k}:probe:after-cut:{}", o.split_whitespace().skip(1).take(3).collect::<Vec<_>>().join(",")));
            let o = step(ses, sut, "mint buyer=20 funds=0:900");
            mark(ses, "mint:old-discount", &o);
            let o = step(ses, sut, "mint buyer=20 funds=0:500");
            mark(ses, "mint:new-public", &o);
            step(ses, sut, &format!("t now={}", s + HOUR - 1));
            let o = step(ses, sut, "rdp by=10 paid=0");
            mark(ses, "rdp:last1h-1", &o);
            step(ses, sut, &format!("t now={}", s + HOUR));
            let o = step(ses, sut, "rdp by=10 paid=0");
            mark(ses, "rdp:last1h", &o);
            step(ses, sut, &format!("t now={}", s + HOUR + H12 - 1));
            let o = step(ses, sut, "udp by=10 paid=0 p=400");
            mark(ses, "udp:last12h-1", &o);
            step(ses, sut, &format!("t now={}", s + HOUR + H12));
            let o = step(ses, sut, "udp by=10 paid=0 p=501");
            mark(ses, "udp:pub+1", &o);
            let o = step(ses, sut, "udp by=10 paid=0 p=49");
            mark(ses, "udp:floor-1", &o);
            let o = step(ses, sut, "udp by=10 paid=0 p=500");
            mark(ses, "udp:last12h", &o);
            step(ses, sut, "probe");
            let o = step(ses, sut, "mint buyer=21 funds=0:500");
            mark(ses, "mint:discount=public", &o);
            let o = step(ses, sut, "ump by=10 paid=0 p=500");
            mark(ses, "ump:after:equal", &o);
            let o = step(ses, sut, "ump by=10 paid=0 p=499");
            mark(ses, "ump:after:lower", &o);
            step(ses, sut, "probe");
            let o = step(ses, sut, "migrate va=3 vb=8 vc=0");
            mark(ses, "migrate:pre390", &o);
            let o = step(ses, sut, "udp by=10 paid=0 p=300");
            mark(ses, "udp:after-reanchor", &o);
            step(ses, sut, "probe");
            step(ses, sut, &format!("t now={}", s + HOUR + H12 + HOUR));
            let o = step(ses, sut, "sudofee bps=500");
            mark(ses, "sudofee", &o);
            let o = step(ses, sut, "rdp by=10 paid=0");
            mark(ses, "rdp:after-udp1h", &o);
            step(ses, sut, "probe");
            step(ses, sut, "surface");
            ses.end_case();
        }
    }
}

fn main() {
    let mut ses = Session::new("C07");
    let mut sut = S::new();
    if ses.maybe_replay(&mut sut) {
        ses.finish(&mut sut);
    }
    let mut rng = ses.rng.fork();
    let known = load_known("C07");
    let listed = |suffix: &str| known.iter().any(|k| k.status == "finding" && k.key.ends_with(suffix));
    let env_on = |name: &str| std::env::var(name).map(|v| v == "1").unwrap_or(false);
    let denom_switch = env_on("C07_DENOM_SWITCH") || listed("denom-differs-from-factory-min-after-governance-denom-switch");
    // the monitors for the reported-but-undecided behaviours are raised only in cases whose header opts in; generated cases
    // opt in once the behaviour is listed in known_findings.json (or with C07_OPTIN=1)
    let mut flags: Vec<&str> = vec![];
    if env_on("C07_OPTIN") || listed("create/whitelist-below-floor") {
        flags.push("cwl");
    }
    if env_on("C07_OPTIN") || listed("create/whitelist-denom-differs-from-factory-min") {
        flags.push("cwld");
    }
    if env_on("C07_OPTIN") || listed("swl/tiered-stage-below-floor") {
        flags.push("tier");
    }
    if env_on("C07_OPTIN") || listed("attached-whitelist-price-below-floor") {
        flags.push("wlmut");
    }
    let optin = if flags.is_empty() { String::new() } else { format!(" optin={}", flags.join(",")) };

    // ------------------------------------------------------------------ coverage floor (every seed, every tier)
    for k in 0..9usize {
        let oe = k >= 6;
        for c in [
            "create:floor-1:err", "create:wrong-denom:err", "create:floor:ok", "swl:floor-1:err", "swl:wrong-denom:err", "swl:stranger:err", "swl:floor:ok",
            "ump:before:raise:ok", "ump:before:floor-1:err", "sudomin:ok", "ump:before:newfloor-1:err", "ump:before:newfloor:ok", "facmig:ok", "ump:before:raise2:ok",
            "ump:start-1:raise:ok", "ump:start:raise:err", "ump:start:equal:err", "ump:start:lower-paid:err", "ump:start:lower-stranger:err", "ump:start:lower:ok",
            "probe:wlstart-1:cur=0:100000,lo=0,eq=0", "probe:wlstart:cur=0:5000,lo=0,eq=1", "probe:wlend-1:cur=0:5000,lo=0,eq=1", "probe:wlend:cur=0:100000,lo=0,eq=0",
            "mint:wl-price:ok", "mint:wl-active-public-price:err", "mint:public:ok", "mint:public-1:err", "migrate:older:ok", "migrate:newer:err",
            "swl:tiered:ok", "tier:s1-1:cur=0:100000,lo=0,eq=0", "tier:s1:cur=0:7000,lo=0,eq=1", "tier:s1end:cur=0:7000,lo=0,eq=1", "tier:s1end+1:cur=0:6000,lo=0,eq=1",
            "tier:s2end:cur=0:5000,lo=0,eq=1", "tier:s2end+1:cur=0:100000,lo=0,eq=0", "mint:tier-s1:ok", "mint:tier-s2:ok", "tier:repriced:cur=0:5000,lo=0,eq=1",
        ] {
            ses.require(format!("bnd:{k}:{c}"));
        }
        for c in [
            "mint@start-1:refused", "ust@start-1:accepted", "raise@start-1:accepted", "mint@start:accepted", "ust@start:refused", "raise@start:refused",
            "ust@start+1:refused", "raise@start+1:refused", "mint@start+1:accepted",
        ] {
            ses.require(format!("bnd:{k}:{c}"));
        }
        if oe {
            ses.require(format!("bnd:{k}:ump:end-1:lower:ok"));
            ses.require(format!("bnd:{k}:ump:end:lower:err"));
            for c in ["uet:stranger:err", "uet:paid:err", "uet:start-1:err", "uet:past:err", "uet:start:ok", "uet:back:ok", "uet:end-passed:err"] {
                ses.require(format!("bnd:{k}:{c}"));
            }
        } else {
            for c in [
                "uet:vending:err", "udp:start-1:err", "udp:stranger:err", "udp:start:ok", "ump:below-discount:ok", "probe:after-cut:cur=0:500,lo=0,eq=1", "mint:old-discount:err", "mint:new-public:ok",
                "rdp:last1h-1:err", "rdp:last1h:ok", "udp:last12h-1:err", "udp:pub+1:err", "udp:floor-1:err", "udp:last12h:ok", "mint:discount=public:ok",
                "ump:after:equal:err", "ump:after:lower:ok", "migrate:pre390:ok", "udp:after-reanchor:ok", "rdp:after-udp1h:ok",
            ] {
                ses.require(format!("bnd:{k}:{c}"));
            }
        }
        // the run-time message surface: every other variant that exists today was sent by a stranger and by the admin
        let kind = ALL_MINTERS[k];
        for v in ["update_start_trading_time", "update_per_address_limit", "mint_to", "purge", "burn_remaining"] {
            ses.require(format!("surface:{}:{v}:str", kind.name()));
            ses.require(format!("surface:{}:{v}:adm", kind.name()));
        }
    }
    for fam in ["vend", "oe"] {
        for c in ["create:valid:ok", "create:mutated:er", "ump:before:ok", "ump:after:ok", "ump:after:er", "swl:before:ok", "swl:before:er", "mint:after:ok", "sudomin:", "wlmut:", "facmig:", "sudofee:", "migrate:"] {
            ses.require(format!("{fam}:{c}"));
        }
        ses.require(format!("*{fam}:probe:after:wl0:disc0:lo=0eq=1hi=0wd=0*"));
        ses.require(format!("{fam}:tiered-attached"));
    }
    for c in ["udp:after:ok", "udp:after:er", "udp:before:er", "rdp:after:ok", "rdp:after:er"] {
        ses.require(format!("vend:{c}"));
    }
    ses.require("oe:uet:");

    // ------------------------------------------------------------------ 0. fixed boundary walks on all 9 variants
    boundary_cases(&mut ses, &mut sut, &optin);

    // ------------------------------------------------------------------ 1. random structured histories
    let n_cases = ses.scale(810, 18000);
    for ci in 0..n_cases {
        let kind = ALL_MINTERS[(ci % 9) as usize];
        let k = kind.idx();
        let oe = kind.is_open_edition();
        let t0 = GENESIS + DAY * rng.range(1, 400) + rng.below(DAY);
        // factory: mostly native minimum, sometimes another denom, sometimes a zero minimum
        let fd: u64 = if rng.chance(1, 5) { 1 } else { 0 };
        let fmin: u128 = match rng.below(6) {
            0 => 0,
            1 => 1,
            2 => rng.sized_u128(80),
            _ => 50_000_000,
        };
        let air: u128 = if rng.chance(1, 3) { 0 } else { rng.below(100_000_000) as u128 };
        let mut g = Gen { now: t0, created: false };
        let bps = *rng.pick(&[1000u64, 1000, 1000, 500, 0, 10_000, 1]);
        ses.begin_case(&mut sut, &format!("case kind={k} now={t0} fd={fd} fmin={fmin} air={air} bps={bps}{optin}"));
        let tag = |s: &str| format!("{}:{s}", if oe { "oe" } else { "vend" });

        // -- whitelists before the minter exists (0..2), plain or tiered, prices around the floor
        let start = t0 + rng.range(2, 6) * HOUR + rng.below(1000);
        let mut out = String::new();
        for _ in 0..rng.below(3) {
            let wd = if rng.chance(1, 6) { 1 - fd } else { fd };
            let tiered = rng.chance(2, 5);
            let l = gen_wl(&mut rng, g.now, wd, fmin, fmin + 1000, tiered);
            let n0 = sut.wls.len();
            out = step(&mut ses, &mut sut, &l);
            if sut.wls.len() > n0 {
                ses.mark(tag(&format!("wl:{}:{}:{}", if tiered { "tiered" } else { "plain" }, if wd == fd { "denom-ok" } else { "denom-bad" }, sut.wls[n0].stages.len())));
            }
        }
        // -- sometimes governance moves the floor before creation
        if rng.chance(1, 4) && (fd == 0 || denom_switch) {
            let a = amount(&mut rng, fmin);
            out = step(&mut ses, &mut sut, &format!("sudomin d=0 a={a}"));
        }

        // -- create (retry with a valid price if a mutated one fails)
        for attempt in 0..3 {
            step(&mut ses, &mut sut, "probe");
            // the floor in force, read from the implementation's last observation
            let fm = fcoin(&out, "fmin").unwrap_or((fd, fmin));
            let valid = attempt == 2 || rng.chance(7, 10);
            let (pd, pp) = if valid {
                (fm.0, fm.1 + rng.below(1_000_000_000) as u128 + 1)
            } else {
                match rng.below(4) {
                    0 => (fm.0, fm.1.saturating_sub(1)),
                    1 => (1 - fm.0.min(1), fm.1 + 5),
                    2 => (fm.0, 0),
                    _ => (fm.0, fm.1),
                }
            };
            let cap = if oe { !(rng.chance(1, 4) && air != 0) } else { true };
            let e = if oe {
                if cap && rng.chance(1, 3) { "-".to_string() } else { (start + rng.range(1, 3) * DAY).to_string() }
            } else {
                "-".to_string()
            };
            let nwl = sut.wls.len();
            let wl = if nwl > 0 && rng.chance(1, 3) { rng.below(nwl as u64).to_string() } else { "-".to_string() };
            let s = if valid || rng.chance(1, 2) { start } else { *rng.pick(&[g.now - 1, g.now, g.now + 1]) };
            out = step(&mut ses, &mut sut, &format!("create by=10 d={pd} p={pp} s={s} e={e} cap={} wl={wl}", cap as u8));
            ses.mark(tag(&format!("create:{}:{}", if valid { "valid" } else { "mutated" }, &out[..2])));
            if out.starts_with("ok") {
                g.created = true;
                if wl != "-" {
                    ses.mark(tag("create:with-whitelist"));
                }
                break;
            }
        }
        step(&mut ses, &mut sut, "probe");

        // -- the history
        let n_ops = rng.range(12, 30);
        for _ in 0..n_ops {
            let pubp = fcoin(&out, "pub").unwrap_or((fd, fmin + 100));
            let disc = fcoin(&out, "disc");
            let fm = fcoin(&out, "fmin").unwrap_or((fd, fmin));
            let st: u64 = field(&out, "start").and_then(|s| s.parse().ok()).unwrap_or(start);
            let last: Option<u64> = field(&out, "last").and_then(|s| s.parse().ok());
            let stop: Option<u64> = field(&out, "stop").and_then(|s| s.parse().ok());
            let attached: Option<usize> = field(&out, "wl").and_then(|s| s.parse().ok());
            let before_start = g.now < st;

            // which op (weights depend on the phase)
            let weights: [(&str, u64); 13] = if before_start {
                [("ump", 16), ("swl", 26), ("ust", 7), ("sudomin", 8), ("sudoair", 2), ("udp", 4), ("rdp", 4), ("mint", 14), ("migrate", 4), ("wlmut", 9), ("sudofee", 3), ("facmig", 3), ("uet", 3)]
            } else {
                [("ump", 20), ("swl", 4), ("ust", 3), ("sudomin", 8), ("sudoair", 2), ("udp", 24), ("rdp", 11), ("mint", 16), ("migrate", 4), ("wlmut", 6), ("sudofee", 3), ("facmig", 3), ("uet", 3)]
            };
            let total: u64 = weights.iter().map(|w| w.1).sum();
            let mut r = rng.below(total);
            let mut opk = "mint";
            for (n, wgt) in weights {
                if r < wgt {
                    opk = n;
                    break;
                }
                r -= wgt;
            }
            if opk == "uet" && !oe {
                opk = "udp";
            }
            if (opk == "udp" || opk == "rdp") && oe && rng.chance(3, 4) {
                opk = "ump";
            }
            if opk == "wlmut" && sut.wls.is_empty() {
                opk = "swl";
            }

            // clock: an instant the state makes interesting (±1 ns), preferring the nearest ones and the one the
            // chosen op depends on; otherwise a small random step
            let wins = windows(&sut);
            let mut inst: Vec<u64> = vec![st];
            if let Some(l) = last {
                inst.push(l + H12);
                inst.push(l + HOUR);
            }
            if let Some(e) = stop {
                inst.push(e);
            }
            for (a, b) in &wins {
                inst.push(*a);
                inst.push(*b);
            }
            let mut cands: Vec<u64> = inst.iter().flat_map(|t| [t.saturating_sub(1), *t, t + 1]).filter(|t| *t >= g.now).collect();
            cands.sort();
            cands.dedup();
            let target: Option<u64> = match opk {
                "udp" if !before_start => last.map(|l| (l + H12).max(st)),
                "rdp" if !before_start => last.map(|l| l + HOUR),
                "ust" if st >= g.now => Some(st),
                _ => None,
            };
            let t = if let (Some(x), true) = (target, rng.chance(3, 5)) {
                let extra = rng.below(HOUR);
                let c = *rng.pick(&[x - 1, x, x, x + 1, x + extra]);
                c.max(g.now)
            } else if opk == "swl" && before_start && rng.chance(2, 3) {
                g.now + rng.below(60_000_000_000)
            } else if !cands.is_empty() && rng.chance(1, 2) {
                cands[rng.below(cands.len().min(4) as u64) as usize]
            } else if rng.chance(1, 2) {
                g.now + rng.below(20 * 60_000_000_000)
            } else {
                g.now
            };
            if t != g.now {
                g.now = t;
                let o = step(&mut ses, &mut sut, &format!("t now={t}"));
                if o.starts_with("env") {
                    out = o;
                }
                let rel = |x: u64| if t + 1 == x { "m1" } else if t == x { "0" } else if t == x + 1 { "p1" } else { "" };
                if !rel(st).is_empty() {
                    ses.mark(tag(&format!("clock:start{}", rel(st))));
                }
                if let Some(l) = last {
                    if !rel(l + H12).is_empty() {
                        ses.mark(tag(&format!("clock:last12h{}", rel(l + H12))));
                    }
                    if !rel(l + HOUR).is_empty() {
                        ses.mark(tag(&format!("clock:last1h{}", rel(l + HOUR))));
                    }
                }
                if let Some(e) = stop {
                    if !rel(e).is_empty() {
                        ses.mark(tag(&format!("clock:end{}", rel(e))));
                    }
                }
                for (i, g2) in sut.wls.iter().enumerate() {
                    let kindn = if is_tiered(g2.kind) { "tier" } else { "plain" };
                    let att = if attached == Some(i) { "att" } else { "free" };
                    for (j, s2) in g2.stages.iter().enumerate() {
                        if !rel(s2.1).is_empty() {
                            ses.mark(tag(&format!("clock:{kindn}:{att}:stage{j}start{}", rel(s2.1))));
                        }
                        if !rel(s2.2).is_empty() {
                            ses.mark(tag(&format!("clock:{kindn}:{att}:stage{j}end{}", rel(s2.2))));
                        }
                    }
                }
                if rng.chance(1, 2) {
                    step(&mut ses, &mut sut, "probe");
                }
            }
            let started_now = g.now >= st;
            let by = if rng.chance(1, 14) { STRANGER } else { ADMIN };
            let paid = if rng.chance(1, 18) { 1 } else { 0 };
            let phase = if started_now { "after" } else { "before" };
            let within = |rng: &mut Rng, lo: u128, hi: u128| -> u128 {
                if hi <= lo {
                    lo
                } else {
                    let span = hi - lo;
                    lo + (rng.next_u128() % (span + 1))
                }
            };
            let mut pclass = "";
            let line = match opk {
                "ump" => {
                    // valid: [floor, pub-1] after the start, [floor, ..] before; mutations: the boundaries
                    let p = match rng.below(10) {
                        0 => { pclass = "floor-1"; fm.1.saturating_sub(1) }
                        1 => { pclass = "floor"; fm.1 }
                        2 => { pclass = "pub"; pubp.1 }
                        3 => { pclass = "pub+1"; pubp.1 + 1 }
                        4 => { pclass = "pub-1"; pubp.1.saturating_sub(1) }
                        5 => { pclass = "disc±1"; disc.map(|d| *rng.pick(&[d.1.saturating_sub(1), d.1, d.1 + 1])).unwrap_or(pubp.1 / 2) }
                        6 => { pclass = "zero"; 0 }
                        7 if !started_now => { pclass = "raise"; pubp.1 + rng.below(1_000_000_000) as u128 }
                        _ => { pclass = "lower"; within(&mut rng, fm.1, pubp.1.saturating_sub(1)) }
                    };
                    format!("ump by={by} paid={paid} p={p}")
                }
                "udp" => {
                    let p = match rng.below(9) {
                        0 => { pclass = "floor-1"; fm.1.saturating_sub(1) }
                        1 => { pclass = "floor"; fm.1 }
                        2 => { pclass = "pub"; pubp.1 }
                        3 => { pclass = "pub+1"; pubp.1 + 1 }
                        4 => { pclass = "zero"; 0 }
                        _ => { pclass = "within"; within(&mut rng, fm.1, pubp.1) }
                    };
                    format!("udp by={by} paid={paid} p={p}")
                }
                "rdp" => format!("rdp by={by} paid={paid}"),
                "swl" => {
                    // a fresh whitelist (plain or tiered), then try to attach it (or an older one)
                    if sut.wls.len() < 6 && rng.chance(2, 3) {
                        let wd = if rng.chance(1, 7) { 1 - fm.0.min(1) } else { fm.0 };
                        let tiered = rng.chance(2, 5);
                        let l = gen_wl(&mut rng, g.now, wd, fm.1, pubp.1, tiered);
                        let o = step(&mut ses, &mut sut, &l);
                        if o.starts_with("env") {
                            out = o;
                        }
                    }
                    let nwl = sut.wls.len() as u64;
                    let k = if nwl == 0 || rng.chance(1, 20) { nwl + 1 } else if rng.chance(2, 3) { nwl - 1 } else { rng.below(nwl) };
                    pclass = match sut.wls.get(k as usize) {
                        Some(g2) if is_tiered(g2.kind) => "tiered",
                        Some(_) => "plain",
                        None => "none",
                    };
                    format!("swl by={by} paid={paid} k={k}")
                }
                "wlmut" => {
                    // the admin of a whitelist contract changes it — preferably the one attached to the minter
                    let nwl = sut.wls.len();
                    let k = match attached {
                        Some(a) if a < nwl && rng.chance(3, 4) => a,
                        _ => rng.below(nwl as u64) as usize,
                    };
                    let g2 = sut.wls[k].clone();
                    if is_tiered(g2.kind) {
                        let ns = g2.stages.len() as u64;
                        match rng.below(10) {
                            0 => {
                                pclass = "add";
                                let lastend = g2.stages.last().map(|s| s.2).unwrap_or(g.now);
                                let jitter = rng.below(HOUR);
                                let s2 = *rng.pick(&[lastend, lastend + 1, lastend + jitter, g.now + 1]);
                                format!("wladd k={k} p={} s={s2} e={}", amount(&mut rng, fm.1), s2 + rng.range(1, HOUR))
                            }
                            1 => {
                                pclass = "rm";
                                format!("wlrm k={k} i={}", rng.below(ns + 1))
                            }
                            2..=6 => {
                                pclass = "price";
                                let i = if rng.chance(1, 12) { ns } else { rng.below(ns.max(1)) };
                                let p = match rng.below(5) {
                                    0 => fm.1.saturating_sub(1),
                                    1 => fm.1,
                                    2 => 0,
                                    _ => within(&mut rng, fm.1, pubp.1.max(fm.1) + 10),
                                };
                                let d = if rng.chance(1, 8) { (1 - g2.denom.min(1)).to_string() } else { "-".to_string() };
                                format!("wlstage k={k} i={i} p={p} d={d} s=- e=-")
                            }
                            _ => {
                                pclass = "times";
                                let i = rng.below(ns.max(1));
                                let cur = g2.stages.get(i as usize).cloned().unwrap_or((0, g.now, g.now));
                                let s2 = if rng.chance(1, 2) { "-".to_string() } else { rng.pick(&[g.now, g.now + 1, cur.1 + 1000, cur.1.saturating_sub(1000).max(g.now)]).to_string() };
                                let e2 = if rng.chance(1, 2) { "-".to_string() } else { rng.pick(&[g.now, g.now + 1, cur.2 + 1000, cur.2.saturating_sub(1000), g.now + HOUR]).to_string() };
                                format!("wlstage k={k} i={i} p=- d=- s={s2} e={e2}")
                            }
                        }
                    } else {
                        pclass = "time";
                        let cur = g2.stages[0];
                        if rng.chance(1, 2) {
                            format!("wltime k={k} which=s t={}", rng.pick(&[g.now, g.now + 1, cur.1 + 1000, cur.1.saturating_sub(1000).max(g.now), cur.2, cur.2 + 1]))
                        } else {
                            format!("wltime k={k} which=e t={}", rng.pick(&[g.now, g.now + 1, cur.2 + 1000, cur.2.saturating_sub(1000), cur.1, g.now + HOUR]))
                        }
                    }
                }
                "sudomin" => {
                    if fm.0 == 0 || denom_switch {
                        let d = if rng.chance(1, 8) { 1 } else { 0 };
                        let a = match rng.below(8) {
                            0 => { pclass = "pub"; pubp.1 }
                            1 => { pclass = "pub+1"; pubp.1 + 1 }
                            2 => { pclass = "disc+1"; disc.map(|d| d.1 + 1).unwrap_or(fm.1 + 1) }
                            3 => { pclass = "zero"; 0 }
                            4 => { pclass = "huge"; rng.sized_u128(90) }
                            _ => { pclass = "below-pub"; within(&mut rng, 0, pubp.1) }
                        };
                        format!("sudomin d={d} a={a}")
                    } else {
                        format!("sudoair d=0 a={}", rng.below(1_000_000) as u128)
                    }
                }
                "facmig" => {
                    // the factory's migrate can carry the same UpdateParamsMsg as sudo (or none at all)
                    let with_min = (fm.0 == 0 || denom_switch) && rng.chance(2, 3);
                    let (d, a) = if with_min {
                        pclass = "min";
                        ((if rng.chance(1, 8) { 1 } else { 0 }).to_string(), within(&mut rng, 0, pubp.1 + 1).to_string())
                    } else {
                        pclass = "nomin";
                        ("-".to_string(), "-".to_string())
                    };
                    let b = if rng.chance(1, 3) { rng.pick(&[0u64, 1, 500, 1000, 10_000]).to_string() } else { "-".to_string() };
                    format!("facmig d={d} a={a} bps={b}")
                }
                "sudofee" => format!("sudofee bps={}", rng.pick(&[0u64, 1, 3, 500, 1000, 2500, 10_000])),
                "sudoair" => format!("sudoair d={} a={}", if rng.chance(1, 5) { 1 } else { 0 }, rng.below(100_000_000)),
                "ust" => {
                    let t = *rng.pick(&[g.now.saturating_sub(1), g.now, g.now + 1, st + HOUR, st.saturating_sub(HOUR).max(g.now), stop.unwrap_or(st), stop.unwrap_or(st) + 1]);
                    format!("ust by={by} paid={paid} t={t}")
                }
                "uet" => {
                    let e0 = stop.unwrap_or(st + DAY);
                    let t = *rng.pick(&[g.now.saturating_sub(1), g.now, g.now + 1, st.saturating_sub(1), st, e0 + HOUR, e0.saturating_sub(HOUR).max(g.now), g.now + 2 * HOUR]);
                    format!("uet by={by} paid={paid} t={t}")
                }
                "migrate" => {
                    let v = *rng.pick(&[(3u64, 8u64, 9u64), (3, 9, 0), (3, 16, 0), (3, 16, 1), (2, 99, 99), (4, 0, 0), (3, 15, 7)]);
                    format!("migrate va={} vb={} vc={}", v.0, v.1, v.2)
                }
                _ => {
                    // a real mint: mostly the advertised price, sometimes the public / discount / off-by-one amount
                    let cur = fcoin(&out, "qcur").unwrap_or(pubp);
                    let a = match rng.below(8) {
                        0 => { pclass = "cur+1"; cur.1 + 1 }
                        1 => { pclass = "cur-1"; cur.1.saturating_sub(1) }
                        2 => { pclass = "pub"; pubp.1 }
                        _ => { pclass = "cur"; cur.1 }
                    };
                    let d = if rng.chance(1, 12) { 1 - cur.0.min(1) } else { cur.0 };
                    let buyer = 20 + (sut.mints_ok as u64 % 8);
                    let funds = if a == 0 { "-".to_string() } else { format!("{d}:{a}") };
                    format!("mint buyer={buyer} funds={funds}")
                }
            };
            let opw = line.split_whitespace().next().unwrap().to_string();
            let o = step(&mut ses, &mut sut, &line);
            if o.starts_with("ok") || o.starts_with("err") || o.starts_with("env") || o.starts_with("dust") {
                out = o.clone();
            }
            let wl_on = field(&o, "qwl").map(|v| v != "-").unwrap_or(false);
            let wl_cur = wl_on && field(&o, "qwl") == field(&o, "qcur") && field(&o, "qcur") != field(&o, "qpub");
            let has_disc = field(&o, "disc").map(|v| v != "-").unwrap_or(false);
            let opclass = if opk == "wlmut" { "wlmut" } else { opw.as_str() };
            ses.mark(tag(&format!(
                "{opclass}:{phase}:{}:{pclass}:wl{}{}:disc{}:{}{}",
                &o[..2.min(o.len())], wl_on as u8, if wl_cur { "a" } else { "" }, has_disc as u8,
                if by == ADMIN { "adm" } else { "str" }, if paid == 1 { ":paid" } else { "" }
            )));
            if let Some(a) = field(&o, "wl").and_then(|s| s.parse::<usize>().ok()) {
                if sut.wls.get(a).map(|g2| is_tiered(g2.kind)).unwrap_or(false) {
                    ses.mark(tag("tiered-attached"));
                    if wl_cur {
                        ses.mark(tag("tiered-attached:charging"));
                    }
                }
            }
            if opw == "ust" && started_now && rng.chance(1, 2) {
                // "once the mint has started": whatever became of the start time, a raise must still be refused
                let o2 = step(&mut ses, &mut sut, &format!("ump by=10 paid=0 p={}", pubp.1 + 1 + rng.below(1000) as u128));
                ses.mark(tag(&format!("ump-after-ust:{}:{}", &o[..2.min(o.len())], &o2[..2.min(o2.len())])));
                if o2.starts_with("ok") || o2.starts_with("err") {
                    out = o2;
                }
            }
            if opw != "mint" || rng.chance(1, 2) {
                let pr = step(&mut ses, &mut sut, "probe");
                ses.mark(tag(&format!("probe:{phase}:wl{}:disc{}:{}", wl_on as u8, has_disc as u8, primary_part(&pr).split_whitespace().skip(2).collect::<Vec<_>>().join(""))));
            }
        }
        // -- the rest of the minter's message surface, at the end (some of these messages end the sale)
        if g.created {
            step(&mut ses, &mut sut, "surface");
        }
        ses.end_case();
    }
    // unknown ExecuteMsg variants (a message added to a minter crate after this harness was written): reported, and sent
    for kind in &ALL_MINTERS[..9] {
        let all: Vec<String> = variants_of(&exec_schema(*kind)).into_iter().map(|(n, _)| n).collect();
        for n in &all {
            if !MODELLED.contains(&n.as_str()) && !OTHER_TODAY.contains(&n.as_str()) {
                ses.note(format!("{}: ExecuteMsg variant `{n}` is unknown to this harness; it was built from the JSON schema and sent by a stranger and by the admin under the price-state monitors", kind.name()));
            }
        }
        for m in MODELLED {
            if !all.iter().any(|n| n == m) && !(["update_discount_price", "remove_discount_price"].contains(&m) && kind.is_open_edition()) && !(m == "update_end_time" && kind.is_vending()) {
                ses.note(format!("{}: ExecuteMsg no longer has the variant `{m}` this harness drives", kind.name()));
            }
        }
    }
    ses.note("times: start, LAST_DISCOUNT_TIME+12h, +1h, open-edition end, every whitelist stage start/end (plain: half-open, tiered: closed), each −1 ns / exact / +1 ns; amounts around the factory minimum, the public price and the standing discount (±1), 0, random up to 2^90");
    ses.note("probe = 4 real mint attempts (price−1, price, price+1, wrong denom) rolled back by cw-multi-test's own transaction cache (execute_multi with a sentinel contract that records it was reached, then fails); the minter's raw storage is compared before/after every probe");
    ses.note("monitors compare the contracts with the harness's own ghost record (floor, fee rate, start, public price, discount, attached whitelist set by accepted messages); mint cost = buyer balance difference");
    if !denom_switch {
        ses.note("governance min-price changes are generated only on factories whose minimum is in the native denom (sudo only accepts the native denom, so on other factories every change switches the denom — see docs/C07.md, C07_denom_switch_counterexample); set C07_DENOM_SWITCH=1 to include them");
    }
    if flags.is_empty() {
        ses.note("the monitors */create/whitelist-below-floor, */create/whitelist-denom-differs-from-factory-min, */swl/tiered-stage-below-floor, */wl*/attached-whitelist-price-below-floor are raised only in cases whose header opts in (corpus replays; C07_OPTIN=1; or once listed in known_findings.json)");
    }
    if std::env::var("C07_DEBUG").is_ok() {
        for c in &ses.classes {
            eprintln!("class {c}");
        }
    }
    ses.finish(&mut sut);
}

#[allow(dead_code)]
fn _unused() {
    let _ = (coin(1, "x"), denom(0));
}
