//! Smoke test / usage example of `lp_harness::minters`: creates all 11 minter kinds through their factories and
//! all 7 whitelist kinds. Not a check.
use lp_harness::minters::*;
use serde_json::json;
use lp_harness::world::addr;

fn main() {
    for kind in ALL_MINTERS {
        let mut w = World::new(GENESIS + 1000);
        let p = w.default_params(kind);
        let f = w.new_factory(kind.factory(), &p).expect("factory");
        let mut a = w.default_create(kind, &p);
        w.fund(&addr(a.creator), 0, 100_000_000_000);
        if kind == MinterKind::TokenMerge {
            // need a source collection: create a base minter world first
            let pb = w.default_params(MinterKind::Base);
            let fb = w.new_factory(FactoryKind::Base, &pb).unwrap();
            let ab = w.default_create(MinterKind::Base, &pb);
            let (_mb, cb) = w.create_minter(&fb, MinterKind::Base, &ab).expect("base minter");
            a.mint_tokens = vec![(cb, 1)];
        }
        let r = w.create_minter(&f, kind, &a);
        println!("{:?}: {:?}", kind, r);
        if let Ok((m, c)) = r {
            println!("   config: {}", w.query(&m, &json!({"config":{}})).map(|v| v.to_string()).unwrap_or_else(|e| e));
            println!("   coll minter: {:?}", w.query(&c, &json!({"minter":{}})));
            w.set_time(a.start_time + 1);
            w.fund(&addr(20), 0, 1_000_000_000);
            let price = a.mint_price.1;
            let res = if kind == MinterKind::Base {
                w.exec(&addr(a.creator), &m, &json!({"mint":{"token_uri":"ipfs://x/1"}}), &[(0, p.min_mint_price.1 * p.mint_fee_bps as u128 / 10000)])
            } else if kind.is_merkle() {
                w.exec(&addr(20), &m, &json!({"mint":{"proof_hashes": null, "stage": null, "allocation": null}}), &[(0, price)])
            } else {
                w.exec(&addr(20), &m, &json!({"mint":{}}), &[(0, price)])
            };
            println!("   mint: {:?}", res.map(|r| r.events.len()));
        }
    }
    // whitelists
    let mut w = World::new(GENESIS + 1000);
    for k in ALL_WL {
        let st = |s: u64| WlStage { start: GENESIS + s, end: GENESIS + s + 1000, mint_price: (0, 60_000_000), per_address_limit: 2, mint_count_limit: Some(5), members: vec![(20, 1), (21, 2)], merkle_root: "a".repeat(if k == WlKind::TieredMerkle {32} else {64}) };
        let n = if matches!(k, WlKind::Tiered | WlKind::TieredFlex | WlKind::TieredMerkle) { 2 } else { 1 };
        let a = WlArgs { admin: 11, member_limit: 1000, admins_mutable: true, whale_cap: None, stages: (0..n).map(|i| st(5000 + 2000 * i)).collect() };
        let r = w.new_whitelist(k, &a);
        println!("{:?}: {:?}", k, r);
        if let Ok(addr_) = r { println!("   config: {:?}", w.query(&addr_, &json!({"config":{}})).map(|v| v.to_string())); }
    }
}
