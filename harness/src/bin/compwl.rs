//! compwl — differential correspondence of the COMPOSITE model `LP.WF` (lean/LaunchpadModel/Model/WhitelistFull.lean, driver
//! `drv_compwl`) against the seven REAL whitelist crates under cw-multi-test. Protocol: docs/COMPOSITE_WHITELIST.md §3 and
//! Driver/CompWl.lean. Every answer to a state-changing line carries the complete observable state (`W … B …`), also on `err`.
//! No monitors: all output is primary.
use lp_harness::minters::*;
use lp_harness::world::{denom, denom_id};
use lp_harness::*;
use serde_json::{json, Value};
use std::sync::OnceLock;

const POOL: u64 = 4;
const ADMIN: u64 = 10;
const ADMIN2: u64 = 11;
const STRANGER: u64 = 30;
const POOR: u64 = 31;
const ACCTS: [u64; 5] = [POOL, ADMIN, ADMIN2, STRANGER, POOR];
const INVALID: u64 = 90001;
const SEC: u64 = 1_000_000_000;
const HOUR: u64 = 3600 * SEC;
const G: u64 = GENESIS;

// ------------------------------------------------------------------------------------------------ names (cached)

fn sg1() -> &'static (String, String, String) {
    static C: OnceLock<(String, String, String)> = OnceLock::new();
    C.get_or_init(lp_harness::world::sg1_addrs)
}
/// id -> string. ids >= 90000 are two-character strings `z<k>` (k < 10) which `MockApi::addr_validate` rejects (too short);
/// they sort after every valid name, so string order == numeric order over the ids the generators use (5..999, 90000..90009).
fn ad(id: u64) -> String {
    match id {
        1 => sg1().0.clone(),
        2 => sg1().1.clone(),
        3 => sg1().2.clone(),
        4 => "fairburn_pool".to_string(),
        n if n >= 90000 => format!("z{}", n - 90000),
        n if n >= 1000 => format!("contract{}", n - 1000),
        n => format!("acct{:05}", n),
    }
}
fn aid(s: &str) -> u64 {
    let (f, l, q) = sg1();
    if s == f {
        return 1;
    }
    if s == l {
        return 2;
    }
    if s == q {
        return 3;
    }
    if s == "fairburn_pool" {
        return 4;
    }
    if let Some(k) = s.strip_prefix("contract") {
        if let Ok(k) = k.parse::<u64>() {
            return 1000 + k;
        }
    }
    if let Some(k) = s.strip_prefix("acct") {
        if let Ok(k) = k.parse::<u64>() {
            return k;
        }
    }
    if let Some(k) = s.strip_prefix('z') {
        if let Ok(k) = k.parse::<u64>() {
            return 90000 + k;
        }
    }
    900_000_000
}
fn uri_str(id: u64) -> String {
    format!("https://example.com/tree/{id}")
}
fn uri_id(s: &str) -> u64 {
    s.strip_prefix("https://example.com/tree/").and_then(|k| k.parse().ok()).unwrap_or(999_999)
}
fn stage_name(n: u64) -> String {
    format!("stage{n}")
}
fn stage_name_id(s: &str) -> u64 {
    s.strip_prefix("stage").and_then(|k| k.parse().ok()).unwrap_or(999_999)
}

// ------------------------------------------------------------------------------------------------ kinds

fn is_tiered(k: usize) -> bool {
    matches!(k, 2 | 3 | 5)
}
fn is_flex(k: usize) -> bool {
    matches!(k, 1 | 3)
}
fn is_list(k: usize) -> bool {
    k < 4
}
fn is_merkle(k: usize) -> bool {
    matches!(k, 4 | 5)
}
fn max_members(k: usize) -> u64 {
    match k {
        0 => sg_whitelist::contract::MAX_MEMBERS as u64,
        1 => sg_whitelist_flex::contract::MAX_MEMBERS as u64,
        2 => sg_tiered_whitelist::contract::MAX_MEMBERS as u64,
        3 => sg_tiered_whitelist_flex::contract::MAX_MEMBERS as u64,
        _ => 0,
    }
}
fn creation_fee(k: usize, limit: u64) -> u128 {
    World::wl_fee(ALL_WL[k], limit as u32)
}
fn exec_schema(k: usize) -> Value {
    use cosmwasm_schema::schema_for;
    let v = match k {
        0 => serde_json::to_value(schema_for!(sg_whitelist::msg::ExecuteMsg)),
        1 => serde_json::to_value(schema_for!(sg_whitelist_flex::msg::ExecuteMsg)),
        2 => serde_json::to_value(schema_for!(sg_tiered_whitelist::msg::ExecuteMsg)),
        3 => serde_json::to_value(schema_for!(sg_tiered_whitelist_flex::msg::ExecuteMsg)),
        4 => serde_json::to_value(schema_for!(whitelist_mtree::msg::ExecuteMsg)),
        5 => serde_json::to_value(schema_for!(tiered_whitelist_merkletree::msg::ExecuteMsg)),
        _ => serde_json::to_value(schema_for!(whitelist_immutable::msg::ExecuteMsg)),
    };
    v.unwrap_or(Value::Null)
}
fn query_schema(k: usize) -> Value {
    use cosmwasm_schema::schema_for;
    let v = match k {
        0 => serde_json::to_value(schema_for!(sg_whitelist::msg::QueryMsg)),
        1 => serde_json::to_value(schema_for!(sg_whitelist_flex::msg::QueryMsg)),
        2 => serde_json::to_value(schema_for!(sg_tiered_whitelist::msg::QueryMsg)),
        3 => serde_json::to_value(schema_for!(sg_tiered_whitelist_flex::msg::QueryMsg)),
        4 => serde_json::to_value(schema_for!(whitelist_mtree::msg::QueryMsg)),
        5 => serde_json::to_value(schema_for!(tiered_whitelist_merkletree::msg::QueryMsg)),
        _ => serde_json::to_value(schema_for!(whitelist_immutable::msg::QueryMsg)),
    };
    v.unwrap_or(Value::Null)
}
/// variant names of a message enum schema (sorted, unique)
fn schema_variants(root: &Value) -> Vec<String> {
    let mut out = vec![];
    let mut alts: Vec<Value> = vec![];
    for k in ["oneOf", "anyOf"] {
        if let Some(a) = root[k].as_array() {
            alts.extend(a.iter().cloned());
        }
    }
    if alts.is_empty() {
        alts.push(root.clone());
    }
    for alt in alts {
        if let Some(en) = alt["enum"].as_array() {
            for e in en {
                if let Some(s) = e.as_str() {
                    out.push(s.to_string());
                }
            }
        } else if let Some(req) = alt["required"].as_array() {
            if let Some(name) = req.first().and_then(|x| x.as_str()) {
                out.push(name.to_string());
            }
        }
    }
    out.sort();
    out.dedup();
    out
}
/// execute variant name -> protocol op
const EXEC_OPS: [(&str, &str); 11] = [
    ("update_start_time", "upd_start"),
    ("update_end_time", "upd_end"),
    ("add_members", "add"),
    ("remove_members", "rm"),
    ("update_per_address_limit", "upd_pal"),
    ("increase_member_limit", "inc"),
    ("update_admins", "upd_admins"),
    ("freeze", "freeze"),
    ("add_stage", "add_stage"),
    ("remove_stage", "rm_stage"),
    ("update_stage_config", "upd_stage"),
];

// ------------------------------------------------------------------------------------------------ line parsing

#[derive(Clone, Debug, Default)]
struct StageT {
    name: u64,
    start: u64,
    end: u64,
    denom: u64,
    price: u128,
    pal: u64,
    mcl: Option<u64>,
}
impl StageT {
    fn render(&self) -> String {
        format!("{}:{}:{}:{}:{}:{}:{}", self.name, self.start, self.end, self.denom, self.price, self.pal, fmt_opt(&self.mcl))
    }
    fn parse(s: &str) -> Option<StageT> {
        let p: Vec<&str> = s.split(':').collect();
        if p.len() != 7 {
            return None;
        }
        Some(StageT {
            name: p[0].parse().ok()?,
            start: p[1].parse().ok()?,
            end: p[2].parse().ok()?,
            denom: p[3].parse().ok()?,
            price: p[4].parse().ok()?,
            pal: p[5].parse().ok()?,
            mcl: if p[6] == "-" { None } else { Some(p[6].parse().ok()?) },
        })
    }
    fn json(&self, flex: bool) -> Value {
        let mut v = json!({"name": stage_name(self.name), "start_time": self.start.to_string(), "end_time": self.end.to_string(),
            "mint_price": {"denom": denom(self.denom), "amount": self.price.to_string()}, "mint_count_limit": self.mcl});
        if !flex {
            v["per_address_limit"] = json!(self.pal);
        }
        v
    }
    fn of_json(v: &Value) -> StageT {
        StageT {
            name: stage_name_id(v["name"].as_str().unwrap_or("?")),
            start: nanos(&v["start_time"]),
            end: nanos(&v["end_time"]),
            denom: denom_id(v["mint_price"]["denom"].as_str().unwrap_or("?")),
            price: v["mint_price"]["amount"].as_str().and_then(|x| x.parse().ok()).unwrap_or(0),
            pal: v["per_address_limit"].as_u64().unwrap_or(0),
            mcl: v["mint_count_limit"].as_u64(),
        }
    }
}
fn nanos(v: &Value) -> u64 {
    v.as_str().and_then(|x| x.parse().ok()).unwrap_or(0)
}
fn render_stages(l: &[StageT]) -> String {
    if l.is_empty() {
        "-".into()
    } else {
        l.iter().map(|s| s.render()).collect::<Vec<_>>().join(";")
    }
}
fn parse_stages(s: &str) -> Vec<StageT> {
    if s == "-" {
        vec![]
    } else {
        s.split(';').filter_map(StageT::parse).collect()
    }
}
fn parse_lists(s: &str) -> Vec<Vec<(u128, u128)>> {
    if s == "~" {
        return vec![];
    }
    s.split('|')
        .map(|p| {
            if p == "-" || p.is_empty() {
                vec![]
            } else {
                p.split(',').filter_map(|x| { let (a, b) = x.split_once(':')?; Some((a.parse().ok()?, b.parse().ok()?)) }).collect()
            }
        })
        .collect()
}
fn render_lists(l: &[Vec<(u64, u64)>]) -> String {
    if l.is_empty() {
        "~".into()
    } else {
        l.iter().map(|x| fmt_pairs(x)).collect::<Vec<_>>().join("|")
    }
}
fn funds_of(line: &str) -> Vec<(u64, u128)> {
    kv_pairs(line, "funds").unwrap_or_default().into_iter().map(|(d, a)| (d as u64, a)).collect()
}
fn members_json(flex: bool, ms: &[(u128, u128)]) -> Value {
    if flex {
        Value::Array(ms.iter().map(|(a, c)| json!({"address": ad(*a as u64), "mint_count": *c as u64})).collect())
    } else {
        Value::Array(ms.iter().map(|(a, _)| json!(ad(*a as u64))).collect())
    }
}
fn str_list(line: &str, key: &str) -> Vec<String> {
    match kv(line, key) {
        None | Some("-") => vec![],
        Some(v) => v.split(',').map(|x| x.to_string()).collect(),
    }
}

// ------------------------------------------------------------------------------------------------ the system under test

struct S {
    w: World,
    wl: Option<(String, usize)>,
    accts: Vec<u64>,
    uni: Vec<u64>,
    n_inst: u64,
}

fn b01(b: bool) -> &'static str {
    if b {
        "1"
    } else {
        "0"
    }
}
fn rob(v: Result<Value, String>, key: &str) -> String {
    match v {
        Ok(v) => match v[key].as_bool() {
            Some(b) => b01(b).to_string(),
            None => "e".into(),
        },
        Err(_) => "e".into(),
    }
}

impl S {
    fn new() -> S {
        S { w: World::new(G), wl: None, accts: vec![], uni: vec![], n_inst: 0 }
    }
    fn q(&self, msg: Value) -> Result<Value, String> {
        match &self.wl {
            Some((a, _)) => self.w.query(a, &msg),
            None => Err("no contract".into()),
        }
    }
    fn kind(&self) -> usize {
        self.wl.as_ref().map(|x| x.1).unwrap_or(0)
    }
    fn now(&self) -> u64 {
        self.w.time()
    }

    /// one `Members` query
    fn page(&self, stage: u64, after: Option<u64>, limit: Option<u64>) -> Option<Vec<(u64, u64)>> {
        let k = self.kind();
        let mut m = json!({"start_after": after.map(ad), "limit": limit});
        if is_tiered(k) && is_list(k) {
            m["stage_id"] = json!(stage);
        }
        let v = self.q(json!({ "members": m })).ok()?;
        let arr = v["members"].as_array()?;
        Some(
            arr.iter()
                .map(|x| match x {
                    Value::String(s) => (aid(s), 0),
                    o => (aid(o["address"].as_str().unwrap_or("?")), o["mint_count"].as_u64().unwrap_or(u64::MAX)),
                })
                .collect(),
        )
    }
    fn walk(&self, stage: u64) -> String {
        let mut out: Vec<(u64, u64)> = vec![];
        let mut after = None;
        for _ in 0..1000 {
            match self.page(stage, after, Some(100)) {
                None => return "e".into(),
                Some(p) if p.is_empty() => break,
                Some(p) => {
                    let last = p.last().unwrap().0;
                    out.extend(p);
                    if after == Some(last) {
                        break;
                    }
                    after = Some(last);
                }
            }
        }
        fmt_pairs(&out)
    }

    fn obs_wl(&self) -> String {
        let Some((addr, k)) = self.wl.clone() else { return "W -".into() };
        let adm = match self.q(json!({"admin_list": {}})) {
            Ok(v) => {
                let l: Vec<u64> = v["admins"].as_array().map(|a| a.iter().map(|x| aid(x.as_str().unwrap_or("?"))).collect()).unwrap_or_default();
                format!("adm={} mut={}", fmt_list(&l), b01(v["mutable"].as_bool().unwrap_or(false)))
            }
            Err(_) => "adm=e mut=e".into(),
        };
        let flags = format!(
            "hs={} he={} ia={}",
            rob(self.q(json!({"has_started": {}})), "has_started"),
            rob(self.q(json!({"has_ended": {}})), "has_ended"),
            rob(self.q(json!({"is_active": {}})), "is_active")
        );
        let cfg = match self.q(json!({"config": {}})) {
            Ok(v) if v.get("num_members").is_some() => {
                let pal = match v.get("per_address_limit") {
                    Some(x) => x.as_u64().map(|n| n.to_string()).unwrap_or("?".into()),
                    None => "-".into(),
                };
                let whale = match v.get("whale_cap") {
                    None => "-".to_string(),
                    Some(Value::Null) => "n".to_string(),
                    Some(x) => x.as_u64().map(|n| n.to_string()).unwrap_or("?".into()),
                };
                format!(
                    "{}:{}:{}:{}:{}:{}:{}:{}:{}",
                    v["num_members"].as_u64().unwrap_or(u64::MAX),
                    pal,
                    v["member_limit"].as_u64().unwrap_or(u64::MAX),
                    nanos(&v["start_time"]),
                    nanos(&v["end_time"]),
                    denom_id(v["mint_price"]["denom"].as_str().unwrap_or("?")),
                    v["mint_price"]["amount"].as_str().unwrap_or("?"),
                    b01(v["is_active"].as_bool().unwrap_or(false)),
                    whale
                )
            }
            _ => "e".into(),
        };
        let tier = if is_tiered(k) {
            let asid = match self.q(json!({"active_stage_id": {}})) {
                Ok(v) => v.as_u64().map(|n| n.to_string()).unwrap_or("e".into()),
                Err(_) => "e".into(),
            };
            let as_ = match self.q(json!({"active_stage": {}})) {
                Ok(Value::Null) => "n".to_string(),
                Ok(v) => StageT::of_json(&v).render(),
                Err(_) => "e".into(),
            };
            let one = |v: &Value| -> String {
                let st = StageT::of_json(&v["stage"]).render();
                if is_merkle(k) {
                    format!("{}/{}", st, v["merkle_root"].as_str().unwrap_or("?"))
                } else {
                    format!("{}/{}", st, v["member_count"].as_u64().unwrap_or(u64::MAX))
                }
            };
            let st = (0..4u64)
                .map(|i| match self.q(json!({"stage": {"stage_id": i}})) {
                    Ok(v) => one(&v),
                    Err(_) => "e".into(),
                })
                .collect::<Vec<_>>()
                .join("|");
            let sts = match self.q(json!({"stages": {}})) {
                Ok(v) => v["stages"].as_array().map(|a| a.iter().map(&one).collect::<Vec<_>>().join(";")).unwrap_or("e".into()),
                Err(_) => "e".into(),
            };
            format!("asid={asid} as={as_} st={st} sts={sts}")
        } else {
            "asid=- as=- st=- sts=-".into()
        };
        let mem = if is_list(k) && is_tiered(k) { (0..4u64).map(|i| self.walk(i)).collect::<Vec<_>>().join("|") } else { self.walk(0) };
        let has: String = self.uni.iter().map(|a| rob(self.q(json!({"has_member": {"member": ad(*a)}})), "has_member")).collect();
        let mc = self
            .uni
            .iter()
            .map(|a| match self.q(json!({"member": {"member": ad(*a)}})) {
                Ok(v) => v["mint_count"].as_u64().map(|n| n.to_string()).unwrap_or("x".into()),
                Err(_) => "x".into(),
            })
            .collect::<Vec<_>>()
            .join(",");
        let smi_one = |v: &Value| -> String { format!("{}:{}", b01(v["is_member"].as_bool().unwrap_or(false)), v["per_address_limit"].as_u64().unwrap_or(u64::MAX)) };
        let (smi, asmi) = if is_list(k) && is_tiered(k) {
            let smi = (0..4u64)
                .map(|i| {
                    self.uni
                        .iter()
                        .map(|a| match self.q(json!({"stage_member_info": {"stage_id": i, "member": ad(*a)}})) {
                            Ok(v) => smi_one(&v),
                            Err(_) => "e".into(),
                        })
                        .collect::<Vec<_>>()
                        .join(",")
                })
                .collect::<Vec<_>>()
                .join("|");
            let asmi = self
                .uni
                .iter()
                .map(|a| match self.q(json!({"all_stage_member_info": {"member": ad(*a)}})) {
                    Ok(v) => match v["all_stage_member_info"].as_array() {
                        Some(l) if l.is_empty() => ".".to_string(),
                        Some(l) => l.iter().map(&smi_one).collect::<Vec<_>>().join("+"),
                        None => "e".into(),
                    },
                    Err(_) => "e".into(),
                })
                .collect::<Vec<_>>()
                .join(",");
            (smi, asmi)
        } else {
            ("-".to_string(), "-".to_string())
        };
        let mk = if is_merkle(k) {
            let (rq, rk, uq, uk) = if is_tiered(k) { ("merkle_roots", "merkle_roots", "merkle_tree_u_r_is", "merkle_tree_uris") } else { ("merkle_root", "merkle_root", "merkle_tree_u_r_i", "merkle_tree_uri") };
            let roots = match self.q(json!({ rq: {} })) {
                Ok(v) => match &v[rk] {
                    Value::String(s) => s.clone(),
                    Value::Array(a) => {
                        if a.is_empty() {
                            "-".into()
                        } else {
                            a.iter().map(|x| x.as_str().unwrap_or("?").to_string()).collect::<Vec<_>>().join(",")
                        }
                    }
                    _ => "e".into(),
                },
                Err(_) => "e".into(),
            };
            let uris = match self.q(json!({ uq: {} })) {
                Ok(v) => match &v[uk] {
                    Value::Null => "n".to_string(),
                    Value::String(s) => uri_id(s).to_string(),
                    Value::Array(a) => fmt_list(&a.iter().map(|x| uri_id(x.as_str().unwrap_or("?"))).collect::<Vec<_>>()),
                    _ => "e".into(),
                },
                Err(_) => "e".into(),
            };
            format!("roots={roots} uris={uris}")
        } else {
            "roots=- uris=-".into()
        };
        let can: String = self
            .uni
            .iter()
            .map(|a| rob(self.q(json!({"can_execute": {"sender": ad(*a), "msg": {"bank": {"send": {"to_address": ad(ADMIN), "amount": []}}}}})), "can_execute"))
            .collect();
        let im = if k == 6 {
            let c = match self.q(json!({"config": {}})) {
                Ok(v) => {
                    let c = &v["config"];
                    format!(
                        "{}:{}:{}",
                        aid(c["admin"].as_str().unwrap_or("?")),
                        c["per_address_limit"].as_u64().unwrap_or(u64::MAX),
                        c["mint_discount_bps"].as_u64().map(|n| n.to_string()).unwrap_or("n".into())
                    )
                }
                Err(_) => "e".into(),
            };
            let inc: String = self
                .uni
                .iter()
                .map(|a| match self.q(json!({"includes_address": {"address": ad(*a)}})) {
                    Ok(v) => v.as_bool().map(|b| b01(b).to_string()).unwrap_or("e".into()),
                    Err(_) => "e".into(),
                })
                .collect();
            let num = |m: Value| -> String {
                match self.q(m) {
                    Ok(v) => v.as_u64().map(|n| n.to_string()).unwrap_or("e".into()),
                    Err(_) => "e".into(),
                }
            };
            let iadm = match self.q(json!({"admin": {}})) {
                Ok(v) => v.as_str().map(|s| aid(s).to_string()).unwrap_or("e".into()),
                Err(_) => "e".into(),
            };
            format!("im={c} inc={inc} iadm={iadm} cnt={} ipal={}", num(json!({"address_count": {}})), num(json!({"per_address_limit": {}})))
        } else {
            "im=-".into()
        };
        let raw = if is_merkle(k) {
            "-".to_string()
        } else {
            let (mns, cns): (&[u8], Option<&[u8]>) = match k {
                0 => (sg_whitelist::state::WHITELIST.namespace(), None),
                1 => (sg_whitelist_flex::state::WHITELIST.namespace(), None),
                2 => (sg_tiered_whitelist::state::WHITELIST_STAGES.namespace(), Some(sg_tiered_whitelist::state::MEMBER_COUNT.namespace())),
                3 => (sg_tiered_whitelist_flex::state::WHITELIST_STAGES.namespace(), Some(sg_tiered_whitelist_flex::state::MEMBER_COUNT.namespace())),
                _ => (whitelist_immutable::state::WHITELIST.namespace(), None),
            };
            let pre = |ns: &[u8]| -> Vec<u8> {
                let mut p = vec![(ns.len() >> 8) as u8, (ns.len() & 255) as u8];
                p.extend_from_slice(ns);
                p
            };
            let dump = self.w.dump(&addr);
            let mp = pre(mns);
            let entries = dump.iter().filter(|(key, _)| key.starts_with(&mp)).count();
            let counts = match cns {
                Some(c) => {
                    let cp = pre(c);
                    dump.iter().filter(|(key, _)| key.starts_with(&cp)).count()
                }
                None => 0,
            };
            format!("{entries}/{counts}")
        };
        format!("W v={k} self={} {adm} {flags} cfg={cfg} {tier} mem={mem} raw={raw} has={has} mc={mc} smi={smi} asmi={asmi} {mk} can={can} {im}", aid(&addr))
    }

    fn obs_bank(&self) -> String {
        let mut ids = self.accts.clone();
        if let Some((a, _)) = &self.wl {
            ids.push(aid(a));
        }
        let bal = ids.iter().map(|i| format!("{}:{}:{}", i, self.w.balance(&ad(*i), 0), self.w.balance(&ad(*i), 1))).collect::<Vec<_>>().join(",");
        format!("B {bal} sup={}:{}", self.w.supply(0), self.w.supply(1))
    }
    fn obs(&self) -> String {
        format!("{} {}", self.obs_wl(), self.obs_bank())
    }

    fn inst_json(k: usize, line: &str) -> Value {
        let admins: Vec<String> = kv_list(line, "admins").unwrap_or_default().iter().map(|a| ad(*a as u64)).collect();
        let mu = kv_bool(line, "mut").unwrap_or(true);
        let start = kv_u64(line, "start").unwrap_or(0).to_string();
        let end = kv_u64(line, "end").unwrap_or(0).to_string();
        let price = kv_pairs(line, "price").unwrap_or_default().first().cloned().unwrap_or((0, 0));
        let price = json!({"denom": denom(price.0 as u64), "amount": price.1.to_string()});
        let pal = kv_u64(line, "pal").unwrap_or(0);
        let limit = kv_u64(line, "limit").unwrap_or(0);
        let whale = kv_opt_u64(line, "whale").unwrap_or(None);
        let members = kv_pairs(line, "members").unwrap_or_default();
        let stages = parse_stages(kv(line, "stages").unwrap_or("-"));
        let sm = parse_lists(kv(line, "smembers").unwrap_or("~"));
        let roots = str_list(line, "roots");
        let uriok = kv_bool(line, "uriok").unwrap_or(true);
        let uris: Option<Vec<String>> = match kv(line, "uris") {
            Some("none") | None => None,
            Some(_) => Some(kv_list(line, "uris").unwrap_or_default().iter().map(|u| uri_str(*u as u64)).collect()),
        };
        let dbps = kv_opt_u64(line, "dbps").unwrap_or(None);
        let flex = is_flex(k);
        match k {
            0 => json!({"members": members_json(false, &members), "start_time": start, "end_time": end, "mint_price": price,
                "per_address_limit": pal, "member_limit": limit, "admins": admins, "admins_mutable": mu}),
            1 => json!({"members": members_json(true, &members), "start_time": start, "end_time": end, "mint_price": price,
                "member_limit": limit, "admins": admins, "admins_mutable": mu, "whale_cap": whale}),
            2 | 3 => {
                let mut v = json!({"members": sm.iter().map(|l| members_json(flex, l)).collect::<Vec<_>>(),
                    "stages": stages.iter().map(|s| s.json(flex)).collect::<Vec<_>>(), "member_limit": limit, "admins": admins, "admins_mutable": mu});
                if flex {
                    v["whale_cap"] = json!(whale);
                }
                v
            }
            4 => {
                let uri: Value = if !uriok {
                    json!("::not a url::")
                } else {
                    match &uris {
                        Some(l) if !l.is_empty() => json!(l[0]),
                        _ => Value::Null,
                    }
                };
                json!({"merkle_root": roots.first().cloned().unwrap_or_default(), "merkle_tree_uri": uri, "start_time": start, "end_time": end,
                    "mint_price": price, "per_address_limit": pal, "admins": admins, "admins_mutable": mu})
            }
            5 => {
                let uris: Value = if !uriok {
                    let mut l = uris.clone().unwrap_or_default();
                    l.push("::not a url::".to_string());
                    json!(l)
                } else {
                    json!(uris)
                };
                json!({"stages": stages.iter().map(|s| s.json(false)).collect::<Vec<_>>(), "merkle_roots": roots, "merkle_tree_uris": uris,
                    "admins": admins, "admins_mutable": mu})
            }
            _ => json!({"addresses": members.iter().map(|(a, _)| ad(*a as u64)).collect::<Vec<_>>(), "per_address_limit": pal, "mint_discount_bps": dbps}),
        }
    }

    fn exec_json(k: usize, op: &str, line: &str) -> Value {
        let flex = is_flex(k);
        let tiered_list = is_list(k) && is_tiered(k);
        match op {
            "upd_start" => json!({"update_start_time": kv_u64(line, "t").unwrap_or(0).to_string()}),
            "upd_end" => json!({"update_end_time": kv_u64(line, "t").unwrap_or(0).to_string()}),
            "add" => {
                let mut m = json!({"to_add": members_json(flex, &kv_pairs(line, "members").unwrap_or_default())});
                if tiered_list {
                    m["stage_id"] = json!(kv_u64(line, "stage").unwrap_or(0));
                }
                json!({ "add_members": m })
            }
            "rm" => {
                let mut m = json!({"to_remove": kv_list(line, "addrs").unwrap_or_default().iter().map(|a| ad(*a as u64)).collect::<Vec<_>>()});
                if tiered_list {
                    m["stage_id"] = json!(kv_u64(line, "stage").unwrap_or(0));
                }
                json!({ "remove_members": m })
            }
            "upd_pal" => json!({"update_per_address_limit": kv_u64(line, "n").unwrap_or(0)}),
            "inc" => json!({"increase_member_limit": kv_u64(line, "limit").unwrap_or(0)}),
            "upd_admins" => json!({"update_admins": {"admins": kv_list(line, "admins").unwrap_or_default().iter().map(|a| ad(*a as u64)).collect::<Vec<_>>()}}),
            "freeze" => json!({"freeze": {}}),
            "add_stage" => {
                let st = StageT::parse(kv(line, "stage").unwrap_or("")).unwrap_or_default();
                json!({"add_stage": {"stage": st.json(flex), "members": members_json(flex, &kv_pairs(line, "members").unwrap_or_default())}})
            }
            "rm_stage" => json!({"remove_stage": {"stage_id": kv_u64(line, "id").unwrap_or(0)}}),
            "upd_stage" => {
                let t = |key: &str| -> Value {
                    match kv_opt_u64(line, key).unwrap_or(None) {
                        Some(n) => json!(n.to_string()),
                        None => Value::Null,
                    }
                };
                let price = match kv(line, "price") {
                    Some("-") | None => Value::Null,
                    Some(_) => {
                        let p = kv_pairs(line, "price").unwrap_or_default().first().cloned().unwrap_or((0, 0));
                        json!({"denom": denom(p.0 as u64), "amount": p.1.to_string()})
                    }
                };
                let mut m = json!({"stage_id": kv_u64(line, "id").unwrap_or(0),
                    "name": kv_opt_u64(line, "name").unwrap_or(None).map(stage_name), "start_time": t("start"), "end_time": t("end"),
                    "mint_price": price, "mint_count_limit": kv_opt_u64(line, "mcl").unwrap_or(None)});
                if !flex {
                    m["per_address_limit"] = json!(kv_opt_u64(line, "pal").unwrap_or(None));
                }
                json!({ "update_stage_config": m })
            }
            _ => {
                let name = kv(line, "name").unwrap_or("no_such_message");
                if name == "update_merkle_tree" {
                    if is_tiered(k) {
                        json!({"update_merkle_tree": {"merkle_roots": ["00".repeat(16)], "merkle_tree_uris": null}})
                    } else {
                        json!({"update_merkle_tree": {"merkle_root": "00".repeat(32), "merkle_tree_uri": null}})
                    }
                } else {
                    json!({ name: {} })
                }
            }
        }
    }
}

impl Sut for S {
    fn begin(&mut self, header: &str) -> (String, String) {
        let now = kv_u64(header, "now").unwrap_or(G);
        self.w = World::new(now);
        self.wl = None;
        self.n_inst = 0;
        self.accts = kv_list(header, "accts").unwrap_or_default().iter().map(|x| *x as u64).collect();
        self.uni = kv_list(header, "uni").unwrap_or_default().iter().map(|x| *x as u64).collect();
        (header.to_string(), format!("case {}", self.obs()))
    }

    fn exec(&mut self, line: &str) -> (String, String) {
        let op = line.split_whitespace().next().unwrap_or("");
        let sender = ad(kv_u64(line, "sender").unwrap_or(0));
        let funds = funds_of(line);
        match op {
            "t" => {
                self.w.set_time(kv_u64(line, "now").unwrap_or(G));
                (line.to_string(), format!("ok {}", self.obs()))
            }
            "fund" => {
                self.w.fund(&ad(kv_u64(line, "a").unwrap_or(0)), kv_u64(line, "d").unwrap_or(0), kv_u128(line, "amt").unwrap_or(0));
                (line.to_string(), format!("ok {}", self.obs()))
            }
            "inst" => {
                let k = kv_u64(line, "v").unwrap_or(0) as usize;
                let code = self.w.codes.wl[k.min(6)];
                let msg = S::inst_json(k, line);
                let r = self.w.instantiate(code, &sender, &msg, &funds, None);
                match r {
                    Ok(a) => {
                        self.n_inst += 1;
                        let id = aid(&a);
                        self.wl = Some((a, k));
                        (format!("{line} self={id}"), format!("ok {}", self.obs()))
                    }
                    Err(_) => (format!("{line} self={}", 1000 + self.n_inst), format!("err {}", self.obs())),
                }
            }
            "surface" => {
                let k = kv_u64(line, "v").unwrap_or(0) as usize;
                let r = |l: Vec<String>| if l.is_empty() { "-".to_string() } else { l.join(",") };
                (line.to_string(), format!("ok exec={} query={}", r(schema_variants(&exec_schema(k))), r(schema_variants(&query_schema(k)))))
            }
            "q_has" => {
                let member = kv(line, "m").and_then(|h| hex::decode(h).ok()).map(|b| String::from_utf8_lossy(&b).to_string()).unwrap_or_default();
                let proof = str_list(line, "proof");
                let out = match self.q(json!({"has_member": {"member": member, "proof_hashes": proof}})) {
                    Ok(v) => match v["has_member"].as_bool() {
                        Some(b) => format!("ok {}", b01(b)),
                        None => "err".into(),
                    },
                    Err(_) => "err".into(),
                };
                (line.to_string(), out)
            }
            "q_page" => {
                let out = match self.page(kv_u64(line, "stage").unwrap_or(0), kv_opt_u64(line, "after").unwrap_or(None), kv_opt_u64(line, "limit").unwrap_or(None)) {
                    Some(p) => format!("ok {}", fmt_pairs(&p)),
                    None => "err".into(),
                };
                (line.to_string(), out)
            }
            _ => {
                let Some((addr, k)) = self.wl.clone() else { return (line.to_string(), format!("err {}", self.obs())) };
                let msg = S::exec_json(k, op, line);
                let r = self.w.exec(&sender, &addr, &msg, &funds);
                (line.to_string(), format!("{} {}", if r.is_ok() { "ok" } else { "err" }, self.obs()))
            }
        }
    }
}

//GEN-BEGIN

// ------------------------------------------------------------------------------------------------ merkle trees

fn mhash(tiered: bool, data: &[u8]) -> Vec<u8> {
    if tiered {
        blake3::hash(data).as_bytes()[..16].to_vec()
    } else {
        use sha2::Digest;
        sha2::Sha256::digest(data).to_vec()
    }
}
#[derive(Clone, Debug, Default)]
struct Tree {
    leaves: Vec<String>,
    layers: Vec<Vec<Vec<u8>>>,
}
impl Tree {
    fn build(tiered: bool, leaves: &[String]) -> Tree {
        let mut layers = vec![leaves.iter().map(|l| mhash(tiered, l.as_bytes())).collect::<Vec<_>>()];
        while layers.last().unwrap().len() > 1 {
            let cur = layers.last().unwrap();
            let mut next = vec![];
            for ch in cur.chunks(2) {
                if ch.len() == 2 {
                    let mut pair = [ch[0].clone(), ch[1].clone()];
                    pair.sort();
                    next.push(mhash(tiered, &pair.concat()));
                } else {
                    next.push(ch[0].clone());
                }
            }
            layers.push(next);
        }
        Tree { leaves: leaves.to_vec(), layers }
    }
    fn root_hex(&self, tiered: bool) -> String {
        match self.layers.last().and_then(|l| l.first()) {
            Some(r) => hex::encode(r),
            None => hex::encode(mhash(tiered, b"empty-tree")),
        }
    }
    fn proof(&self, mut idx: usize) -> Vec<String> {
        let mut out = vec![];
        for layer in &self.layers[..self.layers.len().saturating_sub(1)] {
            let sib = idx ^ 1;
            if sib < layer.len() {
                out.push(hex::encode(&layer[sib]));
            }
            idx /= 2;
        }
        out
    }
}

// ------------------------------------------------------------------------------------------------ generators

const POOLM: [u64; 8] = [20, 21, 22, 23, 24, 25, 26, 27];
const UNI: [u64; 6] = [20, 21, 22, 23, ADMIN, INVALID];

struct Gn {
    rng: Rng,
    trees: Vec<Tree>,
}

fn fmt_funds(f: &[(u64, u128)]) -> String {
    fmt_pairs(f)
}

#[derive(Clone, Debug)]
struct Inst {
    v: usize,
    sender: u64,
    funds: Vec<(u64, u128)>,
    admins: Vec<u64>,
    mu: bool,
    start: u64,
    end: u64,
    price: (u64, u128),
    pal: u64,
    limit: u64,
    whale: Option<u64>,
    members: Vec<(u64, u64)>,
    stages: Vec<StageT>,
    smembers: Vec<Vec<(u64, u64)>>,
    roots: Vec<String>,
    uriok: bool,
    uris: Option<Vec<u64>>,
    dbps: Option<u64>,
}
impl Inst {
    fn line(&self) -> String {
        let uris = match &self.uris {
            None => "none".to_string(),
            Some(l) => fmt_list(l),
        };
        format!(
            "inst v={} sender={} funds={} admins={} mut={} start={} end={} price={}:{} pal={} limit={} whale={} members={} stages={} smembers={} roots={} uriok={} uris={} dbps={}",
            self.v,
            self.sender,
            fmt_funds(&self.funds),
            fmt_list(&self.admins),
            b01(self.mu),
            self.start,
            self.end,
            self.price.0,
            self.price.1,
            self.pal,
            self.limit,
            fmt_opt(&self.whale),
            fmt_pairs(&self.members),
            render_stages(&self.stages),
            render_lists(&self.smembers),
            if self.roots.is_empty() { "-".to_string() } else { self.roots.join(",") },
            b01(self.uriok),
            uris,
            fmt_opt(&self.dbps)
        )
    }
}

fn rand_members(rng: &mut Rng, max: u64) -> Vec<(u64, u64)> {
    let n = rng.range(0, max);
    (0..n).map(|_| (*rng.pick(&POOLM), rng.range(0, 5))).collect()
}
fn distinct_count(ms: &[(u64, u64)]) -> u64 {
    let mut v: Vec<u64> = ms.iter().map(|m| m.0).collect();
    v.sort();
    v.dedup();
    v.len() as u64
}

/// window shapes for tiered kinds: 1..3 stages, touching or with gaps
fn rand_windows(rng: &mut Rng, first: u64, n: usize) -> Vec<(u64, u64)> {
    let mut out = vec![];
    let mut t = first;
    for _ in 0..n {
        let len = *rng.pick(&[1u64, 2, 10 * SEC, HOUR]);
        let s = t;
        let e = s + len;
        out.push((s, e));
        t = e + *rng.pick(&[0u64, 0, 1, 5 * SEC]);
    }
    out
}

fn leaf_strings(rng: &mut Rng, stage: Option<u64>) -> Vec<String> {
    let n = *rng.pick(&[1usize, 2, 3, 4, 5, 7, 8, 9]);
    (0..n)
        .map(|i| {
            let a = ad(POOLM[i % POOLM.len()]);
            let alloc = if rng.chance(1, 2) { Some(rng.range(1, 5)) } else { None };
            format!("{}{}{}", stage.map(|s| s.to_string()).unwrap_or_default(), a, alloc.map(|s| s.to_string()).unwrap_or_default())
        })
        .collect()
}

/// a valid instantiate for kind `k` at time `now` (sender = ADMIN, who is funded)
fn valid_inst(g: &mut Gn, k: usize, now: u64) -> Inst {
    let rng = &mut g.rng;
    let base = now.max(G);
    let start = base + *rng.pick(&[1u64, 2, SEC, HOUR]);
    let end = start + *rng.pick(&[0u64, 1, 2, 10 * SEC, HOUR]);
    let limit = if is_list(k) { *rng.pick(&[1u64, 2, 3, 5, 5, 10, 10, 10, 20, 50, 50, 999, 1000, 1001, 1999, 2000, 2001]) } else { 0 };
    let mut i = Inst {
        v: k,
        sender: ADMIN,
        funds: vec![],
        admins: if rng.chance(1, 4) { vec![ADMIN, ADMIN2] } else { vec![ADMIN] },
        mu: !rng.chance(1, 6),
        start,
        end,
        price: (if rng.chance(1, 6) { 1 } else { 0 }, *rng.pick(&[0u128, 1, 5, 50_000_000])),
        pal: rng.range(1, 30),
        limit,
        whale: None,
        members: vec![],
        stages: vec![],
        smembers: vec![],
        roots: vec![],
        uriok: true,
        uris: None,
        dbps: None,
    };
    let fee = creation_fee(k, limit);
    if fee > 0 {
        i.funds = vec![(0, fee)];
    }
    if is_flex(k) && rng.chance(1, 2) {
        i.whale = Some(limit + rng.range(1, 5));
    }
    let cap = |ms: Vec<(u64, u64)>, room: u64| -> Vec<(u64, u64)> { ms.into_iter().take(room as usize).collect() };
    if is_tiered(k) {
        let n = rng.range(1, 3) as usize;
        let wins = rand_windows(rng, start, n);
        let dn = i.price.0;
        i.stages = wins
            .iter()
            .enumerate()
            .map(|(j, (s, e))| StageT {
                name: j as u64 + 1,
                start: *s,
                end: *e,
                denom: dn,
                price: *rng.pick(&[0u128, 3, 7, 60_000_000]),
                pal: if is_flex(k) { 0 } else { rng.range(1, if k == 5 { 50 } else { 30 }) },
                mcl: if rng.chance(1, 3) { Some(rng.range(1, 9)) } else { None },
            })
            .collect();
        if is_list(k) {
            let mut room = limit;
            for _ in 0..n {
                let mut ms = cap(rand_members(rng, 4), room);
                if let Some(w) = i.whale {
                    for m in ms.iter_mut() {
                        m.1 = m.1.min(w);
                    }
                }
                room -= ms.len() as u64;
                i.smembers.push(ms);
            }
        }
    } else if is_list(k) {
        i.members = cap(rand_members(rng, 5), limit);
        if let Some(w) = i.whale {
            for m in i.members.iter_mut() {
                m.1 = m.1.min(w);
            }
        }
    }
    if k == 6 {
        i.members = rand_members(rng, 5);
        if i.members.is_empty() {
            i.members.push((20, 0));
        }
        if rng.chance(1, 4) {
            i.members.push((INVALID, 0)); // not validated by this crate
        }
        i.dbps = if rng.chance(1, 2) { Some(rng.range(0, 10000)) } else { None };
        i.funds = vec![];
    }
    if is_merkle(k) {
        g.trees.clear();
        let n = if k == 5 { i.stages.len() } else { 1 };
        for j in 0..n {
            let with_stage = k == 5 && rng.chance(1, 2);
            let leaves = leaf_strings(rng, if with_stage { Some(j as u64 + 1) } else { None });
            let t = Tree::build(k == 5, &leaves);
            i.roots.push(t.root_hex(k == 5));
            g.trees.push(t);
        }
        i.pal = rng.range(0, 60);
        i.uris = match rng.below(3) {
            0 => None,
            1 => Some(vec![]),
            _ => Some((0..n as u64).map(|j| 100 + j).collect()),
        };
    }
    i
}

/// single-fault mutation of a valid instantiate; returns a tag for the class
fn mutate_inst(g: &mut Gn, k: usize, now: u64, i: &mut Inst) -> &'static str {
    let rng = &mut g.rng;
    let fee = creation_fee(k, i.limit);
    for _ in 0..20 {
        match rng.below(30) {
            0 if is_list(k) => {
                i.limit = 0;
                i.funds = vec![];
                return "limit0";
            }
            1 if is_list(k) => {
                i.limit = max_members(k) + 1;
                i.funds = vec![(0, creation_fee(k, i.limit))];
                return "limit-max+1";
            }
            2 if is_list(k) => {
                i.limit = max_members(k);
                i.funds = vec![(0, creation_fee(k, i.limit))];
                if let Some(w) = i.whale.as_mut() {
                    *w = i.limit + 1;
                }
                return "limit-max(valid)";
            }
            3 if fee > 0 => {
                i.funds = vec![(0, fee - 1)];
                return "fee-1";
            }
            4 if fee > 0 => {
                i.funds = vec![(0, fee + 1)];
                return "fee+1";
            }
            5 if fee > 0 => {
                i.funds = vec![(1, fee)];
                return "fee-denom";
            }
            6 if fee > 0 => {
                i.funds = vec![(0, fee), (1, 5)];
                return "fee-two-coins";
            }
            7 => {
                i.funds = vec![];
                return if fee > 0 { "fee-none" } else { "nofunds(valid)" };
            }
            8 => {
                i.funds = vec![(0, 0)];
                return "fee-zero-coin";
            }
            9 if k == 0 => {
                i.pal = *rng.pick(&[0u64, 31]);
                return "pal-range";
            }
            10 if !is_tiered(k) && k != 6 => {
                i.end = i.start - 1;
                return "start>end";
            }
            11 if !is_tiered(k) && k != 6 => {
                i.start = now - rng.below(2);
                i.end = i.end.max(i.start);
                return "start<=now";
            }
            12 if !is_tiered(k) && k != 6 && now < G => {
                i.start = G - 1;
                i.end = i.end.max(i.start);
                return "start<genesis";
            }
            13 if k != 6 => {
                i.admins.push(INVALID);
                return "admin-invalid";
            }
            14 if is_flex(k) => {
                i.whale = Some(i.limit - rng.below(2).min(i.limit));
                return "whale<=limit";
            }
            15 if is_list(k) && !is_tiered(k) => {
                i.members = (0..i.limit + 1).map(|j| (40 + j, 1)).take(60).collect();
                if (i.members.len() as u64) <= i.limit {
                    continue;
                }
                return "members>limit";
            }
            16 if is_list(k) && !is_tiered(k) && i.limit >= 2 => {
                // raw length above the limit, distinct count within it: the flex kinds compare the RAW length
                i.members = vec![(20, 1); (i.limit + 1).min(60) as usize];
                if (i.members.len() as u64) <= i.limit {
                    continue;
                }
                return "dups>limit";
            }
            17 if is_list(k) => {
                if is_tiered(k) {
                    if let Some(l) = i.smembers.first_mut() {
                        l.push((INVALID, 0));
                    }
                    if (i.smembers.iter().map(|l| if is_flex(k) { l.len() as u64 } else { distinct_count(l) }).sum::<u64>()) > i.limit {
                        continue;
                    }
                } else {
                    i.members.push((INVALID, 0));
                }
                return "member-invalid";
            }
            18 if is_tiered(k) => {
                i.stages.clear();
                i.smembers.clear();
                if k == 5 {
                    i.roots.clear();
                }
                return "stages0";
            }
            19 if is_tiered(k) => {
                let last = i.stages.last().cloned().unwrap_or_default();
                while i.stages.len() < 4 {
                    let n = i.stages.len() as u64;
                    i.stages.push(StageT { name: n + 1, start: last.end + n * 10, end: last.end + n * 10 + 5, ..last.clone() });
                    if is_list(k) {
                        i.smembers.push(vec![]);
                    }
                }
                return "stages4";
            }
            20 if is_tiered(k) => {
                let j = rng.below(i.stages.len() as u64) as usize;
                let st = &mut i.stages[j];
                match rng.below(3) {
                    0 => st.end = st.start,
                    1 => std::mem::swap(&mut st.start, &mut st.end),
                    _ => st.end = st.start - 1,
                }
                return "window-bad";
            }
            21 if is_tiered(k) && i.stages.len() >= 2 => {
                i.stages[1].start = i.stages[0].end - 1;
                return "overlap";
            }
            22 if is_tiered(k) && i.stages.len() >= 2 => {
                i.stages[1].denom = 1 - i.stages[0].denom;
                return "denom-mix";
            }
            23 if is_tiered(k) => {
                i.stages[0].start = now - rng.below(2);
                return "first-not-future";
            }
            24 if is_tiered(k) && is_list(k) => {
                if rng.chance(1, 2) {
                    i.smembers.push(vec![]);
                } else {
                    i.smembers.pop();
                }
                return "lists!=stages";
            }
            25 if is_tiered(k) && !is_flex(k) => {
                i.stages[0].pal = *rng.pick(&[0u64, if k == 5 { 51 } else { 31 }]);
                return "stage-pal-range";
            }
            26 if is_merkle(k) => {
                let r = i.roots.len().saturating_sub(1);
                if i.roots.is_empty() {
                    continue;
                }
                let good = i.roots[r].clone();
                let (bad, tag): (String, &'static str) = match rng.below(5) {
                    0 => (good[2..].to_string(), "root-short"),
                    1 => (format!("{good}00"), "root-long"),
                    2 => (format!("zz{}", &good[2..]), "root-nonhex"),
                    3 => (good[1..].to_string(), "root-odd"),
                    _ => (good.to_uppercase(), "root-upper(valid)"),
                };
                i.roots[r] = bad;
                return tag;
            }
            27 if is_merkle(k) => {
                i.uriok = false;
                return "uri-bad";
            }
            28 if k == 5 => {
                // fewer / more roots than stages: accepted (not validated), later index panics
                if rng.chance(1, 2) {
                    i.roots.pop();
                } else {
                    i.roots.push("00".repeat(16));
                }
                return "roots!=stages(valid)";
            }
            29 => {
                i.sender = POOR;
                return if fee > 0 { "sender-poor" } else { "sender-other(valid)" };
            }
            _ => {
                if k == 6 {
                    match rng.below(3) {
                        0 => {
                            i.members.clear();
                            return "im-empty";
                        }
                        1 => {
                            i.funds = vec![(0, 1)];
                            return "im-funds";
                        }
                        _ => {}
                    }
                }
            }
        }
    }
    "unmutated(valid)"
}

fn step(ses: &mut Session, sut: &mut S, k: usize, line: &str, detail: &str) -> bool {
    let out = ses.step(sut, line);
    LAST.with(|l| *l.borrow_mut() = Some(line.to_string()));
    let op = line.split_whitespace().next().unwrap_or("?").to_string();
    let okk = out.starts_with("ok");
    ses.mark(format!("k{k}/{op}/{}/{detail}", if okk { "ok" } else { "err" }));
    if !detail.is_empty() && op != "inst" {
        ses.count(&format!("x:{op}:{}:{detail}", if okk { "ok" } else { "err" }));
    } else if op == "inst" {
        ses.count(&format!("x:inst:k{k}:{}:{detail}", if okk { "ok" } else { "err" }));
    }
    okk
}

fn fund_all(ses: &mut Session, sut: &mut S, k: usize) {
    for a in [ADMIN, ADMIN2, STRANGER] {
        step(ses, sut, k, &format!("fund a={a} d=0 amt=1000000000000"), "");
        step(ses, sut, k, &format!("fund a={a} d=1 amt=1000000"), "");
    }
    step(ses, sut, k, &format!("fund a={POOR} d=0 amt=7"), "");
}

fn header(now: u64) -> String {
    format!("case now={now} accts={} uni={}", fmt_list(&ACCTS), fmt_list(&UNI))
}

/// stage windows (tiered) or [(start, end)] as the REAL contract reports them (generation aid only)
fn sched(sut: &S) -> Vec<(u64, u64)> {
    let k = sut.kind();
    if k == 6 || sut.wl.is_none() {
        return vec![];
    }
    if is_tiered(k) {
        match sut.q(json!({"stages": {}})) {
            Ok(v) => v["stages"].as_array().map(|a| a.iter().map(|x| (nanos(&x["stage"]["start_time"]), nanos(&x["stage"]["end_time"]))).collect()).unwrap_or_default(),
            Err(_) => vec![],
        }
    } else {
        match sut.q(json!({"config": {}})) {
            Ok(v) => vec![(nanos(&v["start_time"]), nanos(&v["end_time"]))],
            Err(_) => vec![],
        }
    }
}
fn cur_limit(sut: &S) -> (u64, u64) {
    match sut.q(json!({"config": {}})) {
        Ok(v) => (v["member_limit"].as_u64().unwrap_or(0), v["num_members"].as_u64().unwrap_or(0)),
        Err(_) => (0, 0),
    }
}
fn cur_members(sut: &S, stage: u64) -> Vec<u64> {
    sut.page(stage, None, Some(100)).unwrap_or_default().iter().map(|m| m.0).collect()
}

fn do_time(ses: &mut Session, sut: &mut S, g: &mut Gn, k: usize) {
    let now = sut.now();
    let mut inst: Vec<u64> = vec![];
    for (s, e) in sched(sut) {
        for x in [s, e] {
            for d in [-1i64, 0, 1] {
                let t = (x as i64 + d) as u64;
                if t > now {
                    inst.push(t);
                }
            }
        }
    }
    if now < G {
        inst.extend([G - 1, G, G + 1]);
    }
    inst.sort();
    inst.dedup();
    let t = if !inst.is_empty() && g.rng.chance(3, 4) {
        // prefer the nearest interesting instants so that the walk visits every edge in order
        inst[(g.rng.below(3) as usize).min(inst.len() - 1)]
    } else {
        now + *g.rng.pick(&[1u64, 1, SEC, HOUR])
    };
    step(ses, sut, k, &format!("t now={t}"), "");
}

fn pick_sender(g: &mut Gn) -> (u64, &'static str) {
    match g.rng.below(20) {
        0..=16 => (ADMIN, "admin"),
        17 => (ADMIN2, "admin2"),
        _ => (STRANGER, "stranger"),
    }
}
fn pick_tip(g: &mut Gn) -> (String, &'static str) {
    match g.rng.below(40) {
        0..=31 => ("-".into(), "nofunds"),
        32 | 33 => ("0:5".into(), "tip"),
        34 | 35 => ("1:7".into(), "tip2"),
        36 => ("0:5,1:7".into(), "tip-both"),
        37 => ("0:0".into(), "zero-coin"),
        38 => ("0:0,1:3".into(), "zero+coin"),
        _ => ("0:99999999999999999".into(), "over-balance"),
    }
}
fn rel(now: u64, w: &[(u64, u64)]) -> &'static str {
    match w.first() {
        None => "nosched",
        Some((s, _)) if now < *s => "pre",
        _ => match w.last() {
            Some((_, e)) if now >= *e => "post",
            _ => "mid",
        },
    }
}

const ALL_OPS: [&str; 12] = ["upd_start", "upd_end", "add", "rm", "upd_pal", "inc", "upd_admins", "freeze", "add_stage", "rm_stage", "upd_stage", "unknown"];

fn supported_ops(k: usize) -> Vec<&'static str> {
    let names = schema_variants(&exec_schema(k));
    EXEC_OPS.iter().filter(|(n, _)| names.iter().any(|x| x == n)).map(|(_, o)| *o).collect()
}

fn exec_line(sut: &S, g: &mut Gn, k: usize, op: &str) -> (String, String) {
    let (sender, sc) = pick_sender(g);
    let (mut funds, mut fc) = pick_tip(g);
    let now = sut.now();
    let w = sched(sut);
    let nst = w.len() as u64;
    let rng = &mut g.rng;
    let body = match op {
        "upd_start" | "upd_end" => {
            let (s, e) = w.first().cloned().unwrap_or((now + 10, now + 20));
            let t = *rng.pick(&[s.saturating_sub(1), s, s + 1, e.saturating_sub(1), e, e + 1, now, now + 1, G - 5, G, s + (e - s) / 2, e + HOUR]);
            format!("t={t}")
        }
        "add" => {
            let stage = if is_tiered(k) { rng.range(0, nst) } else { 0 };
            let mut ms = rand_members(rng, 4);
            if ms.is_empty() || rng.chance(1, 10) {
                ms.push((*rng.pick(&POOLM), 1));
            }
            if rng.chance(1, 12) {
                ms.push((INVALID, 0));
            }
            if rng.chance(1, 8) {
                ms = (0..6).map(|j| (40 + j, rng.range(0, 9))).collect();
            }
            format!("stage={stage} members={}", fmt_pairs(&ms))
        }
        "rm" => {
            let stage = if is_tiered(k) { rng.range(0, nst) } else { 0 };
            let cur = cur_members(sut, stage);
            let mut as_: Vec<u64> = vec![];
            let n = rng.range(0, 2);
            for _ in 0..n {
                if !cur.is_empty() && rng.chance(5, 6) {
                    as_.push(*rng.pick(&cur));
                } else {
                    as_.push(*rng.pick(&[20u64, 27, 45, INVALID]));
                }
            }
            format!("stage={stage} addrs={}", fmt_list(&as_))
        }
        "upd_pal" => format!("n={}", *rng.pick(&[0u64, 1, 5, 30, 31])),
        "inc" => {
            let (lim, _) = cur_limit(sut);
            let mx = max_members(k);
            let next = (lim / 1000 + 1) * 1000;
            let new = *rng.pick(&[lim, lim + 1, lim + 1, lim + 5, next - 1, next, next + 1, next + 1000, mx, mx + 1, lim.saturating_sub(1)]);
            let fee = {
                let (a, b) = ((lim as u128 + 999) / 1000, (new as u128 + 999) / 1000);
                if b > a {
                    (b - a) * 100_000_000
                } else {
                    0
                }
            };
            let (f, c) = match rng.below(16) {
                0 if fee > 0 => (format!("0:{}", fee - 1), "fee-1"),
                1 => (format!("0:{}", fee + 1), "fee+1"),
                2 if fee > 0 => (format!("1:{fee}"), "fee-denom"),
                3 if fee > 0 => ("-".to_string(), "fee-none"),
                4 => ("0:0".to_string(), "zero-coin"),
                5 if fee > 0 => (format!("0:{fee},1:3"), "fee-two-coins"),
                _ => (if fee > 0 { format!("0:{fee}") } else { "-".to_string() }, if fee > 0 { "fee-exact" } else { "free" }),
            };
            funds = f;
            fc = c;
            format!("limit={new}")
        }
        "upd_admins" => {
            let l: &[u64] = match rng.below(12) {
                0 | 1 | 2 => &[ADMIN],
                3 | 4 | 5 => &[ADMIN, ADMIN2],
                6 | 7 => &[ADMIN2, ADMIN],
                8 => &[],
                9 => &[ADMIN, INVALID],
                10 => &[ADMIN2],
                _ => &[ADMIN, STRANGER],
            };
            format!("admins={}", fmt_list(l))
        }
        "freeze" => String::new(),
        "add_stage" => {
            let last_end = w.last().map(|x| x.1).unwrap_or(now);
            let (s, e) = match rng.below(8) {
                0 => (last_end.saturating_sub(1), last_end + 10),
                1 => (last_end + 5, last_end + 5),
                2 => (now, now + 10),
                _ => {
                    let s = last_end.max(now + 1) + *rng.pick(&[0u64, 0, 1, SEC]);
                    (s, s + *rng.pick(&[1u64, 5, HOUR]))
                }
            };
            let st = StageT { name: rng.range(4, 9), start: s, end: e, denom: if rng.chance(1, 8) { 1 } else { 0 }, price: rng.range(0, 9) as u128, pal: *rng.pick(&[1u64, 5, 30, 30, 0, 31]), mcl: if rng.chance(1, 3) { Some(rng.range(1, 5)) } else { None } };
            let mut ms = rand_members(rng, 4);
            if rng.chance(1, 12) {
                ms.push((INVALID, 0));
            }
            format!("stage={} members={}", st.render(), fmt_pairs(&ms))
        }
        "rm_stage" => format!("id={}", rng.range(0, nst)),
        "upd_stage" => {
            let id = rng.range(0, nst);
            let (s, e) = w.get(id as usize).cloned().unwrap_or((now + 10, now + 20));
            let prev_end = if id > 0 { w.get(id as usize - 1).map(|x| x.1) } else { None };
            let next_start = w.get(id as usize + 1).map(|x| x.0);
            let o = |x: Option<u64>| fmt_opt(&x);
            let mut start = None;
            let mut end = None;
            match rng.below(8) {
                0 => start = Some(*rng.pick(&[s.saturating_sub(1), s + 1, e, e.saturating_sub(1), prev_end.unwrap_or(s), prev_end.unwrap_or(s).saturating_sub(1), now, now.saturating_sub(5)])),
                1 => end = Some(*rng.pick(&[e + 1, e.saturating_sub(1), s, s + 1, next_start.unwrap_or(e + 7), next_start.unwrap_or(e + 7) + 1, now])),
                2 => {
                    start = Some(s + 1);
                    end = Some(e + 1);
                }
                _ => {}
            }
            let name = if rng.chance(1, 4) { Some(rng.range(10, 19)) } else { None };
            let price = match rng.below(6) {
                0 => "0:9".to_string(),
                1 => "1:9".to_string(),
                _ => "-".to_string(),
            };
            let pal = match rng.below(6) {
                0 => Some(*rng.pick(&[0u64, 31, 51])),
                1 => Some(rng.range(1, 30)),
                2 => Some(50),
                _ => None,
            };
            let mcl = if rng.chance(1, 4) { Some(rng.range(0, 7)) } else { None };
            format!("id={id} name={} start={} end={} price={price} pal={} mcl={}", o(name), o(start), o(end), o(pal), o(mcl))
        }
        _ => format!("name={}", *rng.pick(&["update_merkle_tree", "no_such_message", "add_operator"])),
    };
    let line = format!("{op} sender={sender} funds={funds} {body}");
    (line.trim_end().to_string(), format!("{sc}/{fc}/{}", rel(now, &w)))
}

fn do_exec(ses: &mut Session, sut: &mut S, g: &mut Gn, k: usize, op: &str) -> bool {
    let (line, detail) = exec_line(sut, g, k, op);
    step(ses, sut, k, &line, &detail)
}

/// adversarial and honest `HasMember` queries against the Merkle kinds
fn do_q_has(ses: &mut Session, sut: &mut S, g: &mut Gn, k: usize) {
    if g.trees.is_empty() {
        return;
    }
    let ti = g.rng.below(g.trees.len() as u64) as usize;
    let t = g.trees[ti].clone();
    if t.leaves.is_empty() {
        return;
    }
    let li = g.rng.below(t.leaves.len() as u64) as usize;
    let mut member = t.leaves[li].clone();
    let mut proof = t.proof(li);
    let tag = match g.rng.below(12) {
        0 => {
            member = t.leaves[(li + 1) % t.leaves.len()].clone();
            "other-members-proof"
        }
        1 => {
            proof.pop();
            "truncated"
        }
        2 => {
            proof.push(proof.first().cloned().unwrap_or("00".repeat(if k == 5 { 16 } else { 32 })));
            "extended"
        }
        3 => {
            proof.reverse();
            "reordered"
        }
        4 if !proof.is_empty() => {
            let c = if proof[0].starts_with('0') { "1" } else { "0" };
            proof[0] = format!("{c}{}", &proof[0][1..]);
            "bit-flipped"
        }
        5 if !proof.is_empty() => {
            proof[0] = proof[0][2..].to_string();
            "short-hex"
        }
        6 if !proof.is_empty() => {
            proof[0] = format!("zz{}", &proof[0][2..]);
            "non-hex"
        }
        7 if !proof.is_empty() => {
            proof[0] = proof[0].to_uppercase();
            "upper-hex"
        }
        8 => {
            member = format!("{member}x");
            "not-listed"
        }
        _ => "honest",
    };
    let line = format!("q_has m={} proof={}", hex::encode(member.as_bytes()), if proof.is_empty() { "-".to_string() } else { proof.join(",") });
    let out = ses.step(sut, &line);
    ses.mark(format!("k{k}/q_has/{}/{tag}/tree{ti}", out.replace(' ', "")));
}

fn do_q_page(ses: &mut Session, sut: &mut S, g: &mut Gn, k: usize) {
    let stage = g.rng.range(0, 3);
    let after = match g.rng.below(5) {
        0 => Some(INVALID),
        1 | 2 => Some(*g.rng.pick(&POOLM)),
        _ => None,
    };
    let limit = match g.rng.below(6) {
        0 => Some(0),
        1 => Some(1),
        2 => Some(2),
        3 => Some(100),
        4 => Some(101),
        _ => None,
    };
    let out = ses.step(sut, &format!("q_page stage={stage} after={} limit={}", fmt_opt(&after), fmt_opt(&limit)));
    ses.mark(format!("k{k}/q_page/{}/after={}/limit={}", if out.starts_with("ok") { "ok" } else { "err" }, after.map(|a| if a == INVALID { "invalid" } else { "valid" }).unwrap_or("none"), fmt_opt(&limit)));
}

fn rand_op(ses: &mut Session, sut: &mut S, g: &mut Gn, k: usize, sup: &[&'static str]) {
    let r = g.rng.below(100);
    if r < 9 {
        do_time(ses, sut, g, k);
    } else if r < 20 && is_merkle(k) {
        do_q_has(ses, sut, g, k);
    } else if r < 20 && is_list(k) {
        do_q_page(ses, sut, g, k);
    } else if r < 24 || sup.is_empty() {
        // a message of another crate / of no crate
        let op = *g.rng.pick(&ALL_OPS);
        do_exec(ses, sut, g, k, op);
    } else {
        // `freeze` and `update_admins` close doors for the rest of the walk: chosen less often
        let mut op = *g.rng.pick(sup);
        if matches!(op, "freeze" | "upd_admins") && g.rng.chance(2, 3) {
            op = *g.rng.pick(sup);
        }
        do_exec(ses, sut, g, k, op);
    }
}

fn random_case(ses: &mut Session, sut: &mut S, g: &mut Gn, idx: u64) {
    let k = (idx % 7) as usize;
    let now = match g.rng.below(8) {
        0 => G - 24 * HOUR,
        1 => G - 2,
        _ => G + g.rng.range(0, 1000) * SEC,
    };
    ses.begin_case(sut, &header(now));
    fund_all(ses, sut, k);
    let sup = supported_ops(k);
    // instantiate: mostly valid, else one fault; retry valid afterwards so that the walk has a contract
    let mut inst = valid_inst(g, k, now);
    let mut tag = "valid";
    if g.rng.chance(3, 10) {
        tag = mutate_inst(g, k, now, &mut inst);
    }
    let ok = step(ses, sut, k, &inst.line(), tag);
    if !ok {
        if g.rng.chance(1, 3) {
            // messages to a contract that does not exist
            let op = *g.rng.pick(&ALL_OPS);
            do_exec(ses, sut, g, k, op);
        }
        let inst = valid_inst(g, k, now);
        step(ses, sut, k, &inst.line(), "valid");
    }
    let n = g.rng.range(15, 40);
    for j in 0..n {
        rand_op(ses, sut, g, k, &sup);
        // same-block repetition of the previous message
        if g.rng.chance(1, 15) {
            if let Some(last) = ses_last_line(ses) {
                if !last.starts_with("t ") && !last.starts_with("q_") && !last.starts_with("inst") {
                    step(ses, sut, k, &last, "repeat");
                }
            }
        }
        if j == n / 2 && g.rng.chance(1, 6) {
            // a second contract in the same world replaces the observed one
            let now = sut.now();
            let inst = valid_inst(g, k, now);
            step(ses, sut, k, &inst.line(), "second");
        }
    }
    ses.end_case();
}

fn ses_last_line(_ses: &Session) -> Option<String> {
    LAST.with(|l| l.borrow().clone())
}
thread_local! {
    static LAST: std::cell::RefCell<Option<String>> = std::cell::RefCell::new(None);
}

/// all schedule edges of the observed contract, each -1/0/+1 ns, ascending, after `now`
fn edges(sut: &S) -> Vec<u64> {
    let now = sut.now();
    let mut v = vec![];
    for (s, e) in sched(sut) {
        for x in [s, e] {
            for d in [-1i64, 0, 1] {
                let t = (x as i64 + d) as u64;
                if t > now {
                    v.push(t);
                }
            }
        }
    }
    v.sort();
    v.dedup();
    v
}

/// walk over every schedule edge in order; at each instant one or two messages (time-gated ones preferred) and, for the
/// Merkle kinds, an honest membership query per tree
fn edges_case(ses: &mut Session, sut: &mut S, g: &mut Gn, idx: u64) {
    let k = (idx % 6) as usize;
    let now = G + g.rng.range(0, 100) * SEC;
    ses.begin_case(sut, &header(now));
    fund_all(ses, sut, k);
    let inst = valid_inst(g, k, now);
    step(ses, sut, k, &inst.line(), "valid");
    let sup = supported_ops(k);
    let gated: Vec<&'static str> = sup.iter().cloned().filter(|o| matches!(*o, "upd_start" | "upd_end" | "rm" | "rm_stage" | "add_stage" | "upd_stage")).collect();
    for _ in 0..30 {
        let e = edges(sut);
        let Some(t) = e.first().cloned() else { break };
        step(ses, sut, k, &format!("t now={t}"), "edge");
        if is_merkle(k) {
            for _ in 0..g.trees.len() {
                do_q_has(ses, sut, g, k);
            }
        }
        let n = g.rng.range(0, 2);
        for _ in 0..n {
            let op = if !gated.is_empty() && g.rng.chance(2, 3) { *g.rng.pick(&gated) } else { *g.rng.pick(&sup) };
            do_exec(ses, sut, g, k, op);
        }
    }
    ses.end_case();
}

/// maps larger than one page: 130 members in one message, paging with every limit class, removals, stage removal
fn big_case(ses: &mut Session, sut: &mut S, g: &mut Gn, idx: u64) {
    let k = (idx % 4) as usize;
    let now = G + 5 * SEC;
    ses.begin_case(sut, &header(now));
    fund_all(ses, sut, k);
    let mut inst = valid_inst(g, k, now);
    inst.limit = 2000;
    inst.funds = vec![(0, creation_fee(k, 2000))];
    inst.whale = None;
    inst.admins = vec![ADMIN];
    inst.mu = true;
    let big: Vec<(u64, u64)> = (0..130u64).map(|j| (100 + (j * 37) % 130, j % 4)).collect();
    if is_tiered(k) {
        inst.smembers = inst.stages.iter().map(|_| vec![]).collect();
        inst.smembers[0] = big.clone();
    } else {
        inst.members = big.clone();
    }
    step(ses, sut, k, &inst.line(), "big");
    let more: Vec<(u64, u64)> = (0..101u64).map(|j| (300 + j, 1)).collect();
    step(ses, sut, k, &format!("add sender={ADMIN} funds=- stage=0 members={}", fmt_pairs(&more)), "big");
    for (after, limit) in [(None, None), (None, Some(100u64)), (None, Some(1000)), (Some(150u64), Some(99)), (Some(229), None), (Some(400), Some(1)), (Some(99), Some(0))] {
        ses.step(sut, &format!("q_page stage=0 after={} limit={}", fmt_opt(&after), fmt_opt(&limit)));
    }
    let rm: Vec<u64> = (0..30u64).map(|j| 100 + j * 3).collect();
    step(ses, sut, k, &format!("rm sender={ADMIN} funds=- stage=0 addrs={}", fmt_list(&rm)), "big");
    if is_tiered(k) {
        let w = sched(sut);
        let last = w.last().cloned().unwrap_or((now + 10, now + 20));
        let st = StageT { name: 9, start: last.1 + 1, end: last.1 + 10, denom: inst.price.0, price: 1, pal: 1, mcl: None };
        step(ses, sut, k, &format!("add_stage sender={ADMIN} funds=- stage={} members={}", st.render(), fmt_pairs(&more[..60])), "big");
        step(ses, sut, k, &format!("rm_stage sender={ADMIN} funds=- id=0"), "big");
    }
    ses.end_case();
}

/// one deterministic tour per kind: every message variant the crate's schema declares is accepted once (coverage floor),
/// every variant of the other crates and an unknown one are refused, every schedule edge is visited
fn tour(ses: &mut Session, sut: &mut S, g: &mut Gn, k: usize) {
    let now = G + 100 * SEC;
    ses.begin_case(sut, &header(now));
    step(ses, sut, k, &format!("surface v={k}"), "");
    fund_all(ses, sut, k);
    let (s, e) = (now + 100 * SEC, now + 200 * SEC);
    g.trees.clear();
    let mut inst = Inst {
        v: k, sender: ADMIN, funds: vec![], admins: vec![ADMIN], mu: true, start: s, end: e, price: (0, 5), pal: 2, limit: 3, whale: None,
        members: vec![], stages: vec![], smembers: vec![], roots: vec![], uriok: true, uris: None, dbps: None,
    };
    let fee = creation_fee(k, 3);
    if fee > 0 {
        inst.funds = vec![(0, fee)];
    }
    if is_tiered(k) {
        inst.stages = vec![
            StageT { name: 1, start: s, end: s + 50 * SEC, denom: 0, price: 5, pal: if is_flex(k) { 0 } else { 2 }, mcl: None },
            StageT { name: 2, start: s + 50 * SEC, end: e, denom: 0, price: 6, pal: if is_flex(k) { 0 } else { 3 }, mcl: Some(4) },
        ];
    }
    match k {
        0 | 1 => inst.members = vec![(20, 1), (21, 2)],
        2 | 3 => inst.smembers = vec![vec![(20, 1)], vec![(21, 2)]],
        6 => {
            inst.members = vec![(21, 0), (20, 0), (21, 0)];
            inst.dbps = Some(250);
        }
        _ => {
            let n = if k == 5 { 2 } else { 1 };
            for j in 0..n {
                let leaves: Vec<String> = (0..5u64).map(|i| format!("{}{}{}", if k == 5 { (j + 1).to_string() } else { String::new() }, ad(20 + i), i % 3)).collect();
                let t = Tree::build(k == 5, &leaves);
                inst.roots.push(t.root_hex(k == 5));
                g.trees.push(t);
            }
            inst.uris = Some((0..n as u64).map(|j| 100 + j).collect());
        }
    }
    // one rejected instantiate (no funds / funds on the nonpayable crate), then the accepted one
    let mut bad = inst.clone();
    bad.funds = if k == 6 { vec![(0, 1)] } else { vec![] };
    step(ses, sut, k, &bad.line(), "tour-bad-funds");
    step(ses, sut, k, &inst.line(), "tour");
    let a = ADMIN;
    let names = schema_variants(&exec_schema(k));
    let has = |n: &str| names.iter().any(|x| x == n);
    let all: Vec<(&str, String)> = vec![
        ("update_start_time", format!("upd_start sender={a} funds=- t={}", s + SEC)),
        ("update_end_time", format!("upd_end sender={a} funds=- t={}", e + SEC)),
        ("add_members", format!("add sender={a} funds=- stage=1 members=22:2")),
        ("remove_members", format!("rm sender={a} funds=- stage=1 addrs=22")),
        ("update_per_address_limit", format!("upd_pal sender={a} funds=- n=5")),
        ("increase_member_limit", format!("inc sender={STRANGER} funds=- limit=1000")),
        ("increase_member_limit", format!("inc sender={a} funds=0:100000000 limit=1001")),
        ("add_stage", format!("add_stage sender={a} funds=0:5 stage=3:{}:{}:0:7:4:- members=23:1,24:1", e, e + 10 * SEC)),
        ("remove_stage", format!("rm_stage sender={a} funds=- id=2")),
        ("update_stage_config", format!("upd_stage sender={a} funds=- id=1 name=12 start=- end={} price=0:9 pal={} mcl=3", e + SEC, if is_flex(k) { "-" } else { "7" })),
        ("update_admins", format!("upd_admins sender={a} funds=1:7 admins={a},{ADMIN2}")),
        ("freeze", format!("freeze sender={ADMIN2} funds=-")),
    ];
    for (name, line) in &all {
        let d = if has(name) { "tour" } else { "tour-foreign" };
        step(ses, sut, k, line, d);
    }
    // variants the schema declares that this harness has no op for: sent by name (the model refuses them)
    for n in &names {
        if !EXEC_OPS.iter().any(|(x, _)| x == n) {
            step(ses, sut, k, &format!("unknown sender={a} funds=- name={n}"), &format!("schema-variant:{n}"));
        }
    }
    step(ses, sut, k, &format!("unknown sender={a} funds=- name=update_merkle_tree"), "tour");
    step(ses, sut, k, &format!("freeze sender={a} funds=-"), "tour-frozen");
    step(ses, sut, k, &format!("upd_admins sender={a} funds=- admins={a}"), "tour-frozen");
    step(ses, sut, k, &format!("add sender={STRANGER} funds=- stage=0 members=25:1"), "tour-stranger");
    for _ in 0..30 {
        let ed = edges(sut);
        let Some(t) = ed.first().cloned() else { break };
        step(ses, sut, k, &format!("t now={t}"), "edge");
        if is_merkle(k) {
            for ti in 0..g.trees.len() {
                let t = g.trees[ti].clone();
                let line = format!("q_has m={} proof={}", hex::encode(t.leaves[1].as_bytes()), t.proof(1).join(","));
                let out = ses.step(sut, &line);
                ses.mark(format!("k{k}/q_has/{}/honest/tree{ti}", out.replace(' ', "")));
            }
        }
    }
    step(ses, sut, k, &format!("rm sender={a} funds=- stage=0 addrs=20"), "tour-late");
    ses.end_case();
}

fn main() {
    let mut ses = Session::new("compwl");
    let mut sut = S::new();
    if ses.maybe_replay(&mut sut) {
        ses.finish(&mut sut);
    }
    let mut g = Gn { rng: ses.rng.fork(), trees: vec![] };
    // coverage floor: every whitelist kind x every message variant its schema declares, accepted at least once
    for k in 0..7usize {
        let names = schema_variants(&exec_schema(k));
        for n in &names {
            match EXEC_OPS.iter().find(|(x, _)| x == n) {
                Some((_, op)) => ses.require(format!("k{k}/{op}/ok/")),
                None => {
                    ses.note(format!("kind {k}: ExecuteMsg variant `{n}` has no op in compwl.rs — sent by name, the model refuses it"));
                    ses.require(format!("k{k}/unknown/"));
                }
            }
        }
        ses.require(format!("k{k}/inst/ok/"));
        ses.require(format!("k{k}/inst/err/"));
        ses.require(format!("k{k}/surface/ok/"));
        ses.require(format!("k{k}/unknown/err/"));
    }
    for k in [4usize, 5] {
        ses.require(format!("k{k}/q_has/ok1/honest"));
        ses.require(format!("k{k}/q_has/ok0/"));
        ses.require(format!("k{k}/q_has/err/"));
    }
    ses.require("k6/freeze/err/");
    for k in 0..7 {
        tour(&mut ses, &mut sut, &mut g, k);
    }
    let n = ses.scale(560, 5600);
    for idx in 0..n {
        random_case(&mut ses, &mut sut, &mut g, idx);
        if idx % 5 == 2 {
            edges_case(&mut ses, &mut sut, &mut g, idx / 5);
        }
        if idx % 60 == 11 {
            big_case(&mut ses, &mut sut, &mut g, idx / 60);
        }
    }
    ses.finish(&mut sut);
}
//GEN-END
