//! C19 — trading start time. The REAL factory + minter + collection (all 11 minter crates, 4 collection crates, created
//! through the factory) vs `LP.TT.stepX` (Lean). Protocol: see lean/LaunchpadModel/Driver/C19.lean.
//!
//! Round 3:
//! * GHOST bookkeeping. The monitors transcribe the property from what the harness itself sent: the offset governance last set
//!   EXPLICITLY (`g_off`: instantiate value, then every sudo / factory-migrate that names one — a partial update that omits it
//!   keeps it), the mint start it requested (`g_start`: creation argument, then every accepted UpdateStartTime), the block time
//!   it set, the admin / creator it installed, the last minter-validated trading time. No bound is taken from a query answer.
//! * Run-time message surface: every `ExecuteMsg` variant of the collection crate and of the minter crate (JSON schemas,
//!   `schema_for!`), the minter's sudo messages, and migrations of factory / minter / collection are SENT (raw JSON built from the
//!   schema, optional fields populated one by one and all together) under the monitors.
//! * Projection: ` ## ` separates what C19 constrains from what other properties own (end time, acceptance rules of
//!   UpdateStartTime / UpdateEndTime / UpdateCollectionInfo / Freeze / the non-bound creation rules: witnessed with `acc=`).
//! * Addresses: the minter contract, the collection and the factory have SYMBOLIC ids (999 / 998 / 997) that the harness maps to
//!   whatever address cw-multi-test hands out; ownership is read through `cw_ownable::get_ownership` (typed), not a raw key.
use cosmwasm_std::Addr;
use lp_harness::minters::*;
use lp_harness::world::addr;
use lp_harness::*;
use serde_json::{json, Map, Value};

const NS: u64 = 1_000_000_000;
const DAY: u64 = 86_400 * NS;
const CREATOR: u64 = 10;
const CREATOR2: u64 = 11;
const STRANGER: u64 = 20;
const GOV: u64 = 90;
/// symbolic ids (never produced by `world::addr_id`): the minter contract / the collection / the factory of the case
const MINTER_ID: u64 = 999;
const COLL_ID: u64 = 998;
const FACTORY_ID: u64 = 997;

const COLL_NAMES: [&str; 4] = ["sg721-base", "sg721-updatable", "sg721-nt", "sg721-metadata-onchain"];
fn coll_kind(i: u64) -> CollKind {
    match i {
        1 => CollKind::Updatable,
        2 => CollKind::Nt,
        3 => CollKind::MetadataOnchain,
        _ => CollKind::Base,
    }
}

// ---------------------------------------------------------------------------------------------------- run-time message surface

/// collection messages with a NAMED op (`update_collection_info` is additionally sent raw with every other field populated)
const KNOWN_COLL: [&str; 4] = ["update_start_trading_time", "freeze_collection_info", "update_ownership", "update_collection_info"];
/// minter messages with a named op
const KNOWN_MINTER: [&str; 3] = ["update_start_trading_time", "update_start_time", "update_end_time"];

fn to_v<T: serde::Serialize>(x: T) -> Value {
    serde_json::to_value(x).expect("schema to json")
}
fn coll_schema(ck: CollKind) -> Value {
    use cosmwasm_schema::schema_for;
    match ck {
        CollKind::Base => to_v(schema_for!(sg721_base::ExecuteMsg)),
        CollKind::Updatable => to_v(schema_for!(sg721_updatable::msg::ExecuteMsg<cw721_base::Extension, cosmwasm_std::Empty>)),
        CollKind::Nt => to_v(schema_for!(sg721_nt::msg::ExecuteMsg<cw721_base::Extension>)),
        CollKind::MetadataOnchain => to_v(schema_for!(sg721_metadata_onchain::ExecuteMsg)),
    }
}
fn minter_schema(kind: MinterKind) -> Value {
    use cosmwasm_schema::schema_for;
    match kind {
        MinterKind::Vending => to_v(schema_for!(vending_minter::msg::ExecuteMsg)),
        MinterKind::VendingFeatured => to_v(schema_for!(vending_minter_featured::msg::ExecuteMsg)),
        MinterKind::VendingFlex => to_v(schema_for!(vending_minter_wl_flex::msg::ExecuteMsg)),
        MinterKind::VendingFlexFeatured => to_v(schema_for!(vending_minter_wl_flex_featured::msg::ExecuteMsg)),
        MinterKind::VendingMerkle => to_v(schema_for!(vending_minter_merkle_wl::msg::ExecuteMsg)),
        MinterKind::VendingMerkleFeatured => to_v(schema_for!(vending_minter_merkle_wl_featured::msg::ExecuteMsg)),
        MinterKind::OpenEdition => to_v(schema_for!(open_edition_minter::msg::ExecuteMsg)),
        MinterKind::OpenEditionFlex => to_v(schema_for!(open_edition_minter_wl_flex::msg::ExecuteMsg)),
        MinterKind::OpenEditionMerkle => to_v(schema_for!(open_edition_minter_merkle_wl::msg::ExecuteMsg)),
        MinterKind::TokenMerge => to_v(schema_for!(token_merge_minter::msg::ExecuteMsg)),
        MinterKind::Base => to_v(schema_for!(base_minter::msg::ExecuteMsg)),
    }
}
fn minter_sudo_schema() -> Value {
    to_v(cosmwasm_schema::schema_for!(sg4::SudoMsg))
}
fn factory_schema(fk: FactoryKind) -> Value {
    use cosmwasm_schema::schema_for;
    match fk {
        FactoryKind::Vending => to_v(schema_for!(vending_factory::msg::ExecuteMsg)),
        FactoryKind::OpenEdition => to_v(schema_for!(open_edition_factory::msg::ExecuteMsg)),
        FactoryKind::TokenMerge => to_v(schema_for!(token_merge_factory::msg::ExecuteMsg)),
        FactoryKind::Base => to_v(schema_for!(base_factory::msg::ExecuteMsg)),
    }
}

fn factory_sudo_schema(fk: FactoryKind) -> Value {
    use cosmwasm_schema::schema_for;
    match fk {
        FactoryKind::Vending => to_v(schema_for!(vending_factory::msg::SudoMsg)),
        FactoryKind::OpenEdition => to_v(schema_for!(open_edition_factory::msg::SudoMsg)),
        FactoryKind::TokenMerge => to_v(schema_for!(token_merge_factory::msg::SudoMsg)),
        FactoryKind::Base => to_v(schema_for!(base_factory::msg::BaseSudoMsg)),
    }
}

/// (variant name in snake case, schema of its payload; None for a unit variant serialised as a bare string)
fn schema_variants(root: &Value) -> Vec<(String, Option<Value>)> {
    let mut out = vec![];
    let mut alts: Vec<Value> = vec![];
    for k in ["oneOf", "anyOf"] {
        if let Some(a) = root[k].as_array() {
            alts.extend(a.iter().cloned());
        }
    }
    if alts.is_empty() {
        alts.push(root.clone());
    }
    for alt in alts {
        if let Some(en) = alt["enum"].as_array() {
            for e in en {
                if let Some(s) = e.as_str() {
                    out.push((s.to_string(), None));
                }
            }
        } else if let Some(req) = alt["required"].as_array() {
            if let Some(name) = req.first().and_then(|x| x.as_str()) {
                out.push((name.to_string(), Some(alt["properties"][name].clone())));
            }
        }
    }
    out.sort_by(|a, b| a.0.cmp(&b.0));
    out.dedup_by(|a, b| a.0 == b.0);
    out
}

/// which OPTIONAL fields get a value: none (all `null`), the one named, or all of them. `creator` is never populated here
/// (changing the creator is the named op `coll_creator`).
#[derive(Clone, Debug, PartialEq)]
enum Pop {
    None,
    Field(String),
    All,
}
impl Pop {
    fn wants(&self, name: &str) -> bool {
        name != "creator"
            && match self {
                Pop::None => false,
                Pop::Field(f) => f == name,
                Pop::All => true,
            }
    }
    fn parse(s: &str) -> Pop {
        match s {
            "-" | "" => Pop::None,
            "*" => Pop::All,
            f => Pop::Field(f.to_string()),
        }
    }
}

fn is_nullable(s: &Value) -> bool {
    for key in ["anyOf", "oneOf"] {
        if let Some(a) = s[key].as_array() {
            if a.iter().any(|x| x["type"] == "null") {
                return true;
            }
        }
    }
    matches!(&s["type"], Value::Array(ts) if ts.iter().any(|t| t == "null"))
}
/// the non-null alternative of a nullable schema
fn non_null(s: &Value) -> Value {
    for key in ["anyOf", "oneOf"] {
        if let Some(a) = s[key].as_array() {
            if let Some(x) = a.iter().find(|x| x["type"] != "null") {
                return x.clone();
            }
        }
    }
    if let Value::Array(ts) = &s["type"] {
        let mut c = s.clone();
        c["type"] = ts.iter().find(|t| *t != "null").cloned().unwrap_or(Value::Null);
        return c;
    }
    s.clone()
}

/// a JSON value for a schema: integers = k, plain strings = k, addresses / urls / decimals / binaries by name; optional fields
/// according to `pop`
fn fill(s: &Value, defs: &Value, k: u64, hint: &str, depth: u32, pop: &Pop) -> Value {
    if depth > 10 {
        return Value::Null;
    }
    if let Some(r) = s["$ref"].as_str() {
        let name = r.rsplit('/').next().unwrap_or("");
        return match name {
            "Decimal" => json!("0.01"),
            "Binary" => json!("e30="),
            "Addr" => json!(addr(STRANGER)),
            _ => fill(&defs[name], defs, k, hint, depth + 1, pop),
        };
    }
    if let Some(a) = s["allOf"].as_array() {
        if let Some(f) = a.first() {
            return fill(f, defs, k, hint, depth + 1, pop);
        }
    }
    if is_nullable(s) {
        // reached only for nullable values that are not object properties (tuple variants, e.g. `UpdateStartTradingTime(Option<_>)`)
        return if pop.wants(hint) { fill(&non_null(s), defs, k, hint, depth + 1, pop) } else { Value::Null };
    }
    for key in ["anyOf", "oneOf"] {
        if let Some(a) = s[key].as_array() {
            if let Some(f) = a.first() {
                if let Some(en) = f["enum"].as_array() {
                    return en.first().cloned().unwrap_or(Value::Null);
                }
                if let Some(req) = f["required"].as_array().and_then(|r| r.first()).and_then(|x| x.as_str()) {
                    let mut m = Map::new();
                    m.insert(req.to_string(), fill(&f["properties"][req], defs, k, req, depth + 1, pop));
                    return Value::Object(m);
                }
                return fill(f, defs, k, hint, depth + 1, pop);
            }
        }
    }
    if let Some(en) = s["enum"].as_array() {
        return en.first().cloned().unwrap_or(Value::Null);
    }
    let ty: String = match &s["type"] {
        Value::String(t) => t.clone(),
        Value::Array(ts) => ts.first().and_then(|t| t.as_str()).unwrap_or("").to_string(),
        _ => String::new(),
    };
    match ty.as_str() {
        "integer" | "number" => json!(k),
        "string" => {
            let h = hint.to_lowercase();
            if ["addr", "recipient", "whitelist", "contract", "owner", "sender", "admin", "spender", "operator", "creator"].iter().any(|w| h.contains(w)) {
                json!(addr(STRANGER))
            } else if ["image", "link", "uri", "url"].iter().any(|w| h.contains(w)) {
                json!(format!("https://example.com/{k}.png"))
            } else {
                json!(k.to_string())
            }
        }
        "boolean" => json!(k % 2 == 1),
        "array" => json!([]),
        "object" => {
            let mut m = Map::new();
            let req: Vec<String> = s["required"].as_array().map(|r| r.iter().filter_map(|x| x.as_str().map(String::from)).collect()).unwrap_or_default();
            if let Some(props) = s["properties"].as_object() {
                for (name, ps) in props {
                    if is_nullable(ps) {
                        if pop.wants(name) {
                            m.insert(name.clone(), fill(&non_null(ps), defs, k, name, depth + 1, pop));
                        } else if req.contains(name) {
                            m.insert(name.clone(), Value::Null);
                        }
                    } else if req.contains(name) || pop.wants(name) {
                        m.insert(name.clone(), fill(ps, defs, k, name, depth + 1, pop));
                    }
                }
            }
            Value::Object(m)
        }
        _ => Value::Null,
    }
}

/// names of the optional fields reachable in a variant's payload (one level of `$ref` objects deep is enough for the crates)
fn optional_fields(s: &Value, defs: &Value, depth: u32, out: &mut Vec<String>) {
    if depth > 6 {
        return;
    }
    if let Some(r) = s["$ref"].as_str() {
        let name = r.rsplit('/').next().unwrap_or("");
        return optional_fields(&defs[name], defs, depth + 1, out);
    }
    if let Some(a) = s["allOf"].as_array() {
        for x in a {
            optional_fields(x, defs, depth + 1, out);
        }
    }
    if let Some(props) = s["properties"].as_object() {
        for (name, ps) in props {
            if is_nullable(ps) {
                if name != "creator" && !out.contains(name) {
                    out.push(name.clone());
                }
            } else {
                optional_fields(ps, defs, depth + 1, out);
            }
        }
    }
}

/// raw message for a variant found in a schema
fn raw_variant_msg(root: &Value, name: &str, k: u64, pop: &Pop) -> Option<Value> {
    let defs = &root["definitions"];
    schema_variants(root).into_iter().find(|(n, _)| n == name).map(|(n, sch)| match sch {
        None => Value::String(n),
        Some(s) => {
            let mut m = Map::new();
            m.insert(n.clone(), fill(&s, defs, k, &n, 0, pop));
            Value::Object(m)
        }
    })
}
/// `{"<variant>": <payload>}` or the bare string for a unit variant — the SHAPE comes from the schema
fn shaped(root: &Value, name: &str, payload: Value) -> Value {
    match schema_variants(root).into_iter().find(|(n, _)| n == name) {
        Some((n, None)) => Value::String(n),
        _ => {
            let mut m = Map::new();
            m.insert(name.to_string(), payload);
            Value::Object(m)
        }
    }
}
/// the single property name of a struct variant's payload (`collection_info` / `new_collection_info`)
fn first_property(root: &Value, name: &str) -> Option<String> {
    let (_, sch) = schema_variants(root).into_iter().find(|(n, _)| n == name)?;
    sch?["properties"].as_object()?.keys().next().cloned()
}

// ---------------------------------------------------------------------------------------------------- the system under test

#[derive(Clone, Debug, Default)]
struct Obs {
    now: u64,
    off: u64,
    exists: bool,
    tr: Option<u64>,
    start: Option<u64>,
    end: Option<u64>,
    creator: Option<u64>,
    owner: Option<u64>,
    pend: Option<u64>,
}
impl Obs {
    /// primary ` ## ` outside-projection
    fn render(&self) -> String {
        let tr = if !self.exists { "none".to_string() } else { fmt_opt(&self.tr) };
        format!(
            "now={} off={} tr={} start={} creator={} owner={} pend={} ## end={}",
            self.now,
            self.off,
            tr,
            fmt_opt(&self.start),
            fmt_opt(&self.creator),
            fmt_opt(&self.owner),
            fmt_opt(&self.pend),
            fmt_opt(&self.end)
        )
    }
}

fn jts(v: &Value) -> Option<u64> {
    v.as_str().and_then(|s| s.parse().ok())
}

struct S {
    w: Option<World>,
    kind: MinterKind,
    factory: String,
    params: Option<FactoryParams>,
    tm_source: Option<String>,
    minter: Option<String>,
    coll: Option<String>,
    coll_idx: u64,
    coll_root: Value,
    minter_root: Value,
    sudo_root: Value,
    factory_root: Value,
    factory_sudo_root: Value,
    /// verdict of the last op on the real contracts (for the generator's class keys)
    last_ok: bool,
    // ---- GHOST bookkeeping: what the harness itself sent / installed (never a query answer)
    /// block time the harness set
    g_now: u64,
    /// offset governance last set explicitly
    g_off: u64,
    /// mint start requested at creation / by the last accepted UpdateStartTime (None: no minter, or base-minter)
    g_start: Option<u64>,
    /// minter admin installed at creation
    g_admin: u64,
    /// collection creator: installed at creation, then every accepted UpdateCollectionInfo{creator}
    g_creator: u64,
    /// the last trading time written by a successful create / minter update
    last_valid: Option<Option<u64>>,
    finding: Option<(String, String)>,
    /// the harness impersonated the minter CONTRACT's address in a message to the collection (impossible on chain; used in
    /// the labelled `spoof` cases only, to validate the model's collection-side branches). The monitors that speak about
    /// "the minter" are meaningless from then on and are switched off for the rest of that case.
    spoofed: bool,
}

impl S {
    fn new() -> S {
        S {
            w: None,
            kind: MinterKind::Vending,
            factory: String::new(),
            params: None,
            tm_source: None,
            minter: None,
            coll: None,
            coll_idx: 0,
            coll_root: Value::Null,
            minter_root: Value::Null,
            sudo_root: Value::Null,
            factory_root: Value::Null,
            factory_sudo_root: Value::Null,
            last_ok: false,
            g_now: 0,
            g_off: 0,
            g_start: None,
            g_admin: 0,
            g_creator: 0,
            last_valid: None,
            finding: None,
            spoofed: false,
        }
    }
    fn world(&mut self) -> &mut World {
        self.w.as_mut().expect("case begun")
    }
    /// id -> address: the three symbolic ids name the contracts of this case (a plain account while they do not exist yet)
    fn resolve(&self, id: u64) -> String {
        match id {
            MINTER_ID => self.minter.clone().unwrap_or_else(|| addr(id)),
            COLL_ID => self.coll.clone().unwrap_or_else(|| addr(id)),
            FACTORY_ID => self.factory.clone(),
            _ => addr(id),
        }
    }
    /// address -> id, independent of how cw-multi-test numbers contracts
    fn ident(&self, s: &str) -> u64 {
        if Some(s) == self.minter.as_deref() {
            return MINTER_ID;
        }
        if Some(s) == self.coll.as_deref() {
            return COLL_ID;
        }
        if s == self.factory {
            return FACTORY_ID;
        }
        if let Some(k) = s.strip_prefix("acct").and_then(|k| k.parse::<u64>().ok()) {
            return k;
        }
        if let Some(k) = s.strip_prefix("contract").and_then(|k| k.parse::<u64>().ok()) {
            return 1000 + k;
        }
        lp_harness::world::addr_id(s)
    }
    fn observe(&self) -> Obs {
        let w = self.w.as_ref().expect("case begun");
        let mut o = Obs { now: w.time(), ..Default::default() };
        if let Ok(p) = w.query(&self.factory, &json!({"params": {}})) {
            o.off = p["params"]["max_trading_offset_secs"].as_u64().unwrap_or(u64::MAX);
        }
        if let (Some(m), Some(c)) = (&self.minter, &self.coll) {
            o.exists = true;
            if let Ok(ci) = w.query(c, &json!({"collection_info": {}})) {
                o.tr = jts(&ci["start_trading_time"]);
                o.creator = ci["creator"].as_str().map(|s| self.ident(s));
            }
            // cw_ownable's record, read through the crate's own typed accessor (sg721-updatable has no `Ownership {}` query)
            match cw_ownable::get_ownership(&*w.app.contract_storage(&Addr::unchecked(c.as_str()))) {
                Ok(ow) => {
                    o.owner = ow.owner.as_ref().map(|a| self.ident(a.as_str()));
                    o.pend = ow.pending_owner.as_ref().map(|a| self.ident(a.as_str()));
                }
                Err(_) => o.owner = Some(u64::MAX - 1),
            }
            // cross-check with the public `Minter {}` query
            if let Ok(mq) = w.query(c, &json!({"minter": {}})) {
                if mq["minter"].as_str().map(|s| self.ident(s)) != o.owner {
                    o.owner = Some(u64::MAX);
                }
            }
            if self.kind != MinterKind::Base {
                if let Ok(cfg) = w.query(m, &json!({"config": {}})) {
                    o.start = jts(&cfg["start_time"]);
                    o.end = jts(&cfg["end_time"]);
                }
            }
        }
        o
    }
    fn flag(&mut self, key: String, what: String) {
        if self.finding.is_none() {
            self.finding = Some((key, what));
        }
    }
    /// governance UpdateParams: `v` = the offset (None = omitted: a PARTIAL update), plus optionally another field so that the
    /// message is the kind of unrelated partial update governance really sends
    fn params_msg(&self, v: Option<u64>, bps: Option<u64>, extra: u64) -> Value {
        let fk = self.kind.factory();
        let ext = if fk == FactoryKind::Base { Value::Null } else { json!({}) };
        let mut m = json!({"max_trading_offset_secs": v, "extension": ext});
        if fk != FactoryKind::TokenMerge {
            if let Some(b) = bps {
                m["mint_fee_bps"] = json!(b);
            }
        }
        match extra {
            1 => m["add_sg721_code_ids"] = json!([4242]),
            2 => m["frozen"] = json!(false),
            3 => m["creation_fee"] = jcoin(self.params.as_ref().unwrap().creation_fee),
            _ => {}
        }
        m
    }
    /// rewrite the cw2 version record of a contract (as if it had been instantiated by an older release), keeping its name
    fn set_cw2(&mut self, contract: &str, version: &str) {
        let a = Addr::unchecked(contract);
        let w = self.world();
        let name = cw2::get_contract_version(&*w.app.contract_storage(&a)).map(|v| v.contract).unwrap_or_default();
        let _ = cw2::set_contract_version(&mut *w.app.contract_storage_mut(&a), name, version);
    }
}

fn strip_acc(line: &str) -> String {
    line.split_whitespace().filter(|w| !w.starts_with("acc=")).collect::<Vec<_>>().join(" ")
}

impl Sut for S {
    fn begin(&mut self, header: &str) -> (String, String) {
        let kind = MinterKind::from_idx(kv_u64(header, "kind").unwrap() as usize);
        let now = kv_u64(header, "now").unwrap();
        let offset = kv_u64(header, "offset").unwrap();
        let mut w = World::new(now);
        let mut p = w.default_params(kind);
        p.max_trading_offset_secs = offset;
        let mut tm_source = None;
        if kind == MinterKind::TokenMerge {
            let pb = w.default_params(MinterKind::Base);
            let fb = w.new_factory(FactoryKind::Base, &pb).expect("base factory");
            let ab = w.default_create(MinterKind::Base, &pb);
            w.fund(&addr(ab.creator), 0, pb.creation_fee.1);
            let (_mb, cb) = w.create_minter(&fb, MinterKind::Base, &ab).expect("source collection");
            tm_source = Some(cb);
        }
        // the factory gets a wasm admin (governance) so that it can be migrated
        let code = w.factory_code(kind.factory());
        let factory = w.instantiate(code, &addr(GOV), &json!({"params": p.to_json(kind.factory())}), &[], Some(&addr(GOV))).expect("factory");
        *self = S::new();
        self.w = Some(w);
        self.kind = kind;
        self.factory = factory;
        self.params = Some(p);
        self.tm_source = tm_source;
        self.minter_root = minter_schema(kind);
        self.sudo_root = minter_sudo_schema();
        self.factory_root = factory_schema(kind.factory());
        self.factory_sudo_root = factory_sudo_schema(kind.factory());
        self.g_now = now;
        self.g_off = offset;
        (header.to_string(), "case".into())
    }

    fn exec(&mut self, line: &str) -> (String, String) {
        let line = strip_acc(line);
        let line = line.as_str();
        let op = line.split_whitespace().next().unwrap_or("").to_string();
        let name = self.kind.name();
        let is_base = self.kind == MinterKind::Base;
        let sender = kv_u64(line, "sender").map(|i| self.resolve(i));
        let funds: Vec<(u64, u128)> = match kv_u128(line, "funds") {
            Some(f) if f > 0 => {
                let s = sender.clone().unwrap();
                self.world().fund(&s, 0, f);
                vec![(0, f)]
            }
            _ => vec![],
        };
        let k = kv_u64(line, "k").unwrap_or(1);
        let pop = Pop::parse(kv(line, "field").unwrap_or("-"));
        let ok: bool = match op.as_str() {
            "time" => {
                let t = kv_u64(line, "t").unwrap();
                self.world().set_time(t);
                self.g_now = t;
                true
            }
            "sudo_offset" => {
                let v = kv_opt_u64(line, "v").unwrap();
                let bps = kv_opt_u64(line, "bps").unwrap_or(None);
                let m = json!({"update_params": self.params_msg(v, bps, kv_u64(line, "extra").unwrap_or(0))});
                let f = self.factory.clone();
                let r = self.world().sudo(&f, &m).is_ok();
                if let (true, Some(v)) = (r, v) {
                    self.g_off = v;
                }
                r
            }
            "mig_factory" => {
                let v = kv_opt_u64(line, "v").unwrap_or(None);
                let with_msg = kv_bool(line, "msg").unwrap_or(false);
                let m = if with_msg { self.params_msg(v, kv_opt_u64(line, "bps").unwrap_or(None), kv_u64(line, "extra").unwrap_or(0)) } else { Value::Null };
                let f = self.factory.clone();
                let fk = self.kind.factory();
                let code = self.world().factory_code(fk);
                let r = self.world().migrate(&addr(GOV), &f, code, &m).is_ok();
                if let (true, true, Some(v)) = (r, with_msg, v) {
                    self.g_off = v;
                }
                r
            }
            "create" => {
                if self.minter.is_some() {
                    false // the model follows one minter per case; never generated
                } else {
                    let kind = self.kind;
                    let p = self.params.clone().unwrap();
                    let ci = kv_u64(line, "coll").unwrap();
                    let creator = kv_u64(line, "creator").unwrap();
                    let src = self.tm_source.clone();
                    let factory = self.factory.clone();
                    let w = self.world();
                    let mut a = w.default_create(kind, &p);
                    a.creator = creator;
                    a.sg721_code_id = w.coll_code(coll_kind(ci));
                    a.start_time = kv_u64(line, "start").unwrap();
                    a.end_time = kv_opt_u64(line, "end").unwrap();
                    a.start_trading_time = kv_opt_u64(line, "trading").unwrap();
                    if let Some(s) = src {
                        a.mint_tokens = vec![(s, 1)];
                    }
                    w.fund(&addr(creator), 0, p.creation_fee.1);
                    match w.create_minter(&factory, kind, &a) {
                        Ok((m, c)) => {
                            self.coll_idx = ci;
                            self.coll_root = coll_schema(coll_kind(ci));
                            self.minter = Some(m);
                            self.coll = Some(c);
                            self.g_admin = creator;
                            self.g_creator = creator;
                            self.g_start = if is_base { None } else { Some(a.start_time) };
                            true
                        }
                        Err(_) => false,
                    }
                }
            }
            "upd_trading" | "upd_start" | "upd_end" => match self.minter.clone() {
                None => false,
                Some(m) => {
                    let msg = match op.as_str() {
                        "upd_trading" => json!({"update_start_trading_time": jopt_time(kv_opt_u64(line, "t").unwrap())}),
                        "upd_start" => json!({"update_start_time": jtime(kv_u64(line, "t").unwrap())}),
                        _ => json!({"update_end_time": jtime(kv_u64(line, "t").unwrap())}),
                    };
                    let s = sender.clone().unwrap();
                    let r = self.world().exec(&s, &m, &msg, &funds).is_ok();
                    if r && op == "upd_start" && !is_base {
                        self.g_start = kv_u64(line, "t");
                    }
                    r
                }
            },
            "coll_trading" | "coll_creator" | "coll_freeze" | "coll_own" => match self.coll.clone() {
                None => false,
                Some(c) => {
                    if sender == self.minter {
                        self.spoofed = true;
                    }
                    let root = &self.coll_root;
                    let msg = match op.as_str() {
                        "coll_trading" => json!({"update_start_trading_time": jopt_time(kv_opt_u64(line, "t").unwrap())}),
                        "coll_creator" => {
                            let info = json!({"creator": self.resolve(kv_u64(line, "new").unwrap())});
                            let field = first_property(root, "update_collection_info").unwrap_or_else(|| "collection_info".into());
                            let mut m = Map::new();
                            m.insert(field, info);
                            json!({"update_collection_info": Value::Object(m)})
                        }
                        "coll_freeze" => shaped(root, "freeze_collection_info", json!({})),
                        _ => match kv_u64(line, "act").unwrap() {
                            0 => json!({"update_ownership": {"transfer_ownership": {"new_owner": self.resolve(kv_u64(line, "new").unwrap()), "expiry": null}}}),
                            1 => json!({"update_ownership": "accept_ownership"}),
                            _ => json!({"update_ownership": "renounce_ownership"}),
                        },
                    };
                    let s = sender.clone().unwrap();
                    let r = self.world().exec(&s, &c, &msg, &[]).is_ok();
                    if r && op == "coll_creator" {
                        self.g_creator = kv_u64(line, "new").unwrap();
                    }
                    r
                }
            },
            // ---- inert for the model: the rest of the message surface and the migrations
            "coll_raw" => match self.coll.clone() {
                None => false,
                Some(c) => {
                    let what = kv(line, "what").unwrap_or("");
                    if KNOWN_COLL.contains(&what) && what != "update_collection_info" {
                        return (line.to_string(), "bad-op".into());
                    }
                    match raw_variant_msg(&self.coll_root, what, k, &pop) {
                        None => false,
                        Some(msg) => {
                            let s = sender.clone().unwrap();
                            self.world().exec(&s, &c, &msg, &funds).is_ok()
                        }
                    }
                }
            },
            "minter_raw" => match self.minter.clone() {
                None => false,
                Some(m) => {
                    let what = kv(line, "what").unwrap_or("");
                    if KNOWN_MINTER.contains(&what) {
                        return (line.to_string(), "bad-op".into());
                    }
                    match raw_variant_msg(&self.minter_root, what, k, &pop) {
                        None => false,
                        Some(msg) => {
                            let s = sender.clone().unwrap();
                            self.world().exec(&s, &m, &msg, &funds).is_ok()
                        }
                    }
                }
            },
            "factory_raw" => {
                // factory messages other than CreateMinter / sudo UpdateParams (none exist today)
                let what = kv(line, "what").unwrap_or("");
                let f = self.factory.clone();
                if kv(line, "mode") == Some("sudo") {
                    if what == "update_params" {
                        return (line.to_string(), "bad-op".into());
                    }
                    match raw_variant_msg(&self.factory_sudo_root, what, k, &pop) {
                        None => false,
                        Some(msg) => self.world().sudo(&f, &msg).is_ok(),
                    }
                } else {
                    if what == "create_minter" {
                        return (line.to_string(), "bad-op".into());
                    }
                    match raw_variant_msg(&self.factory_root, what, k, &pop) {
                        None => false,
                        Some(msg) => {
                            let s = sender.clone().unwrap_or_else(|| addr(STRANGER));
                            self.world().exec(&s, &f, &msg, &funds).is_ok()
                        }
                    }
                }
            }
            "minter_sudo" => match self.minter.clone() {
                None => false,
                Some(m) => match raw_variant_msg(&self.sudo_root, kv(line, "what").unwrap_or(""), k, &pop) {
                    None => false,
                    Some(msg) => self.world().sudo(&m, &msg).is_ok(),
                },
            },
            "mig_minter" => match self.minter.clone() {
                None => false,
                Some(m) => {
                    if kv_u64(line, "from").unwrap_or(0) == 1 {
                        self.set_cw2(&m, "3.0.0");
                    }
                    let ki = self.kind.idx();
                    let code = self.world().codes.minters[ki];
                    let admin = addr(self.g_admin);
                    self.world().migrate(&admin, &m, code, &json!({})).is_ok()
                }
            },
            "mig_coll" => match self.coll.clone() {
                None => false,
                Some(c) => {
                    match kv_u64(line, "from").unwrap_or(0) {
                        1 => self.set_cw2(&c, "3.0.0"),
                        2 => self.set_cw2(&c, "2.0.0"),
                        _ => {}
                    }
                    let ck = coll_kind(self.coll_idx);
                    let code = self.world().coll_code(ck);
                    let admin = addr(self.g_admin);
                    self.world().migrate(&admin, &c, code, &json!({})).is_ok()
                }
            },
            _ => return (line.to_string(), "bad-op".into()),
        };
        self.last_ok = ok;
        let after = self.observe();

        // ------------------------------------------------------------------ monitors: the property on the real trace,
        // evaluated on the harness's own record (ghost) of offset / mint start / clock / admin
        let goff_ns = self.g_off as u128 * NS as u128;
        if ok && op == "create" {
            let req = kv_opt_u64(line, "trading").unwrap();
            let start = kv_u64(line, "start").unwrap();
            if !is_base {
                let b = start as u128 + goff_ns;
                match after.tr {
                    Some(t) if (t as u128) <= b => {}
                    _ => self.flag(
                        format!("{name}/create/trading-time-beyond-governance-offset"),
                        format!("created with trading time {:?}, later than the requested mint start {start} + the offset governance last set ({}s) (or none stored), on `{line}`", after.tr, self.g_off),
                    ),
                }
                if req.is_none() && after.tr.map(|t| t as u128) != Some(b) {
                    self.flag(format!("{name}/create/default-not-start-plus-governance-offset"), format!("default trading time {:?} is not mint start {start} + governance offset {}s on `{line}`", after.tr, self.g_off));
                }
            } else if req.is_none() && after.tr.map(|t| t as u128) != Some(self.g_now as u128 + goff_ns) {
                self.flag(format!("{name}/create/default-not-now-plus-governance-offset"), format!("default trading time {:?} is not creation time {} + governance offset {}s on `{line}`", after.tr, self.g_now, self.g_off));
            }
            if req.is_some() && after.tr != req {
                self.flag(format!("{name}/create/stored-differs"), format!("requested {:?}, collection shows {:?} on `{line}`", req, after.tr));
            }
            self.last_valid = Some(after.tr);
        }
        if ok && op == "upd_trading" {
            let req = kv_opt_u64(line, "t").unwrap();
            let snd = kv_u64(line, "sender").unwrap();
            let admin = if is_base { self.g_creator } else { self.g_admin };
            if snd != admin {
                self.flag(format!("{name}/update/non-admin-accepted"), format!("sender {snd} is not the minter admin {admin} but `{line}` succeeded"));
            }
            if let Some(t) = req {
                if t < self.g_now {
                    self.flag(format!("{name}/update/past-accepted"), format!("trading time {t} earlier than the block time {} accepted on `{line}`", self.g_now));
                }
                if !is_base {
                    match self.g_start {
                        Some(s) if (t as u128) <= s as u128 + goff_ns => {}
                        _ => self.flag(
                            format!("{name}/update/trading-time-beyond-governance-offset"),
                            format!("trading time {t} later than the current mint start {:?} + the offset governance last set ({}s; the factory answers {}s) accepted on `{line}`", self.g_start, self.g_off, after.off),
                        ),
                    }
                }
            }
            if after.tr != req {
                self.flag(format!("{name}/update/stored-differs"), format!("requested {:?}, collection shows {:?} on `{line}`", req, after.tr));
            }
            self.last_valid = Some(req);
        }
        let cname = COLL_NAMES[self.coll_idx as usize];
        if ok && op == "coll_trading" && !self.spoofed {
            let snd = kv_u64(line, "sender").unwrap();
            if snd != MINTER_ID {
                self.flag(format!("{cname}/direct-update/non-minter-accepted"), format!("the collection accepted UpdateStartTradingTime from {snd}, not its minter, on `{line}`"));
            }
        }
        if after.exists && !self.spoofed {
            if self.last_valid != Some(after.tr) {
                self.flag(
                    format!("{cname}/visible/not-validated"),
                    format!("CollectionInfo shows trading time {:?} but the last minter-validated write was {:?} (after `{line}`)", after.tr, self.last_valid),
                );
            }
            if after.owner != Some(MINTER_ID) || after.pend.is_some() {
                self.flag(
                    format!("{cname}/ownership/minter-no-longer-sole-owner"),
                    format!("the collection's owner record is owner={:?} pending={:?} (the minter is {MINTER_ID}) after `{line}` — nobody impersonated the minter", after.owner, after.pend),
                );
            }
        }
        let w = if ok { "ok" } else { "err" };
        match op.as_str() {
            "create" => (format!("{line} acc={}", ok as u8), format!("{w} {} dec={w}", after.render())),
            "upd_start" | "upd_end" | "coll_creator" | "coll_freeze" => (format!("{line} acc={}", ok as u8), format!("env {} dec={w}", after.render())),
            "coll_raw" | "minter_raw" | "minter_sudo" | "factory_raw" | "mig_minter" | "mig_coll" => (line.to_string(), format!("any {}", after.render())),
            _ => (line.to_string(), format!("{w} {}", after.render())),
        }
    }

    fn monitor(&mut self) -> Option<(String, String)> {
        self.finding.take()
    }
}

// ---------------------------------------------------------------------------------------------------- generators

fn ob(out: &str, key: &str) -> Option<u64> {
    kv(out, key).and_then(|v| v.parse().ok())
}

/// what the implementation last answered (used only to AIM the generator, e.g. at the bound the contracts themselves believe in)
#[derive(Clone, Debug)]
struct Shadow {
    now: u64,
    off: u64,
    tr: Option<u64>,
    start: Option<u64>,
    end: Option<u64>,
    creator: u64,
}
fn shadow(out: &str, prev: &Shadow) -> Shadow {
    Shadow {
        now: ob(out, "now").unwrap_or(prev.now),
        off: ob(out, "off").unwrap_or(prev.off),
        tr: ob(out, "tr"),
        start: ob(out, "start"),
        end: ob(out, "end"),
        creator: ob(out, "creator").unwrap_or(prev.creator),
    }
}

fn fam(kind: MinterKind) -> &'static str {
    match kind.factory() {
        FactoryKind::Vending => "vending",
        FactoryKind::OpenEdition => "open-edition",
        FactoryKind::TokenMerge => "token-merge",
        FactoryKind::Base => "base",
    }
}

/// relation of a requested time to now / the bound, for the class keys
fn rel(t: Option<u64>, now: u64, bound: Option<u64>) -> String {
    match t {
        None => "none".into(),
        Some(t) => {
            let a = if t < now { "past" } else if t == now { "now" } else { "future" };
            let b = match bound {
                None => "nobound",
                Some(b) if t < b => "below",
                Some(b) if t == b => "at-bound",
                Some(b) if t == b + 1 => "bound+1",
                _ => "above",
            };
            format!("{a}/{b}")
        }
    }
}

struct Gen<'a> {
    ses: &'a mut Session,
    sut: &'a mut S,
    rng: Rng,
    kind: MinterKind,
    ci: u64,
    sh: Shadow,
}

impl Gen<'_> {
    /// the bound according to the harness's own record: mint start + the offset governance last set explicitly
    fn bound(&self) -> Option<u64> {
        if self.kind == MinterKind::Base {
            None
        } else {
            self.sut.g_start.map(|s| s + self.sut.g_off * NS)
        }
    }
    /// the bound the contracts answer (differs from `bound()` only when the code under test lost track of governance)
    fn impl_bound(&self) -> Option<u64> {
        if self.kind == MinterKind::Base {
            None
        } else {
            self.sh.start.map(|s| s + self.sh.off * NS)
        }
    }
    fn floor(&mut self, tag: &str) {
        self.ses.mark(format!("floor:{}:{tag}", self.kind.name()));
    }
    fn step(&mut self, line: String, class: String) -> bool {
        let out = self.ses.step(self.sut, &line);
        let ok = self.sut.last_ok && out != "bad-op";
        self.sh = shadow(&out, &self.sh);
        self.ses.mark(format!("{}:{}:{}:{}", fam(self.kind), COLL_NAMES[self.ci as usize], class, if ok { "ok" } else { "err" }));
        self.ses.mark(format!("{}:{}", self.kind.name(), class.split(':').next().unwrap_or("")));
        ok
    }
    fn admin(&self) -> u64 {
        if self.kind == MinterKind::Base {
            self.sut.g_creator
        } else {
            CREATOR
        }
    }
    fn now(&self) -> u64 {
        self.sut.g_now
    }
    fn create(&mut self, start: u64, end: Option<u64>, trading: Option<u64>, tag: &str) -> bool {
        let b = if self.kind == MinterKind::Base { None } else { Some(start + self.sut.g_off * NS) };
        let class = format!("create:{tag}:{}", rel(trading, self.now(), b));
        let ok = self.step(format!("create coll={} creator={CREATOR} start={start} end={} trading={}", self.ci, fmt_opt(&end), fmt_opt(&trading)), class);
        if ok {
            self.floor("create-ok");
            if trading.is_none() {
                self.floor("create-default-ok");
            }
        }
        ok
    }
    fn upd_trading(&mut self, sender: u64, t: Option<u64>, funds: u64) -> bool {
        let who = if sender == self.admin() { "admin" } else { "other" };
        let class = format!("upd_trading:{who}:f{}:{}", funds.min(1), rel(t, self.now(), self.bound()));
        let ok = self.step(format!("upd_trading sender={sender} t={} funds={funds}", fmt_opt(&t)), class);
        if ok && t.is_none() && who == "admin" {
            self.ses.count("upd_trading:none:ok");
            self.floor("upd-none-ok");
        }
        ok
    }
    /// the six requested times of the property's quantifier (+ extras): none, now-1, now, bound-1, bound, bound+1
    fn probe_values(&self) -> Vec<Option<u64>> {
        let now = self.now();
        let mut v = vec![None, Some(now.saturating_sub(1)), Some(now)];
        match self.bound() {
            Some(b) => {
                v.extend([Some(b.saturating_sub(1)), Some(b), Some(b + 1)]);
                if let Some(ib) = self.impl_bound() {
                    if ib != b {
                        v.extend([Some(ib), Some(ib + 1)]);
                    }
                }
            }
            None => v.extend([Some(now + 1), Some(now + 400 * DAY)]),
        }
        v
    }
    /// probes the six values as the admin; returns true when the exact boundary behaviour was seen in THIS state:
    /// bound accepted and bound+1 ns refused (base: far future accepted), now accepted and now-1 ns refused
    fn six(&mut self, tag: &str) {
        let a = self.admin();
        let now = self.now();
        let b = self.bound();
        let mut res: Vec<(Option<u64>, bool)> = vec![];
        for t in self.probe_values() {
            let ok = self.upd_trading(a, t, 0);
            res.push((t, ok));
        }
        let got = |t: u64| res.iter().find(|(x, _)| *x == Some(t)).map(|(_, ok)| *ok);
        match b {
            Some(b) => {
                if got(b) == Some(true) && got(b + 1) == Some(false) {
                    self.floor("upd-bound-pair");
                    self.floor(&format!("{tag}-bound-pair"));
                }
            }
            None => {
                if got(now + 400 * DAY) == Some(true) {
                    self.floor("upd-far-future-ok");
                    self.floor(&format!("{tag}-far-future-ok"));
                }
            }
        }
        if now > 0 && got(now) == Some(true) && got(now - 1) == Some(false) {
            self.floor("upd-now-pair");
        }
    }
    fn some_sender(&mut self) -> u64 {
        let a = self.admin();
        match self.rng.below(10) {
            0..=5 => a,
            6 => STRANGER,
            7 => {
                if a == CREATOR {
                    CREATOR2
                } else {
                    CREATOR
                }
            }
            8 => FACTORY_ID,
            _ => COLL_ID,
        }
    }
    fn non_minter_sender(&mut self) -> u64 {
        *self.rng.pick(&[self.admin(), CREATOR, CREATOR2, STRANGER, FACTORY_ID, COLL_ID])
    }
    fn random_time_target(&mut self) -> Option<u64> {
        let now = self.now();
        let mut c: Vec<u64> = vec![now, now + 1, now + self.rng.range(1, 3) * NS, now + self.rng.range(1, 30) * DAY / 10];
        for x in [self.sh.start, self.bound(), self.impl_bound(), self.sh.tr, self.sh.end].into_iter().flatten() {
            c.extend([x.saturating_sub(1), x, x + 1]);
        }
        let c: Vec<u64> = c.into_iter().filter(|t| *t >= now).collect();
        if c.is_empty() {
            None
        } else {
            Some(*self.rng.pick(&c))
        }
    }
    fn random_trading_request(&mut self) -> Option<u64> {
        let now = self.now();
        let mut v = self.probe_values();
        v.push(Some(now + 1));
        if let Some(b) = self.bound() {
            if b > now {
                v.push(Some(now + self.rng.below(b - now + 1)));
            }
            v.push(Some(b + self.rng.range(2, 5) * DAY));
        }
        if let Some(t) = self.sh.tr {
            v.push(Some(t));
        }
        *self.rng.pick(&v)
    }
    fn random_offset(&mut self) -> Option<u64> {
        let off = self.sut.g_off;
        let mut v: Vec<Option<u64>> = vec![None, None, Some(0), Some(1), Some(100), Some(off.saturating_sub(1)), Some(off + 1), Some(off * 2 + 60), Some(off / 2), Some(self.rng.below(1_000_000))];
        // make the stored trading time sit exactly on / one second inside / outside the new bound
        if let (Some(tr), Some(s)) = (self.sh.tr, self.sut.g_start) {
            if tr >= s {
                let k = (tr - s) / NS;
                v.extend([Some(k), Some(k + 1), Some(k.saturating_sub(1))]);
            }
        }
        *self.rng.pick(&v)
    }
    /// a governance UpdateParams line: offset `v` (None = omitted), sometimes with another field changed in the same message
    fn sudo_line(&mut self, v: Option<u64>) -> String {
        let bps = if self.rng.chance(1, 4) { Some(*self.rng.pick(&[0u64, 1, 500, 1000, 2500, 10_000])) } else { None };
        let extra = if self.rng.chance(1, 3) { self.rng.range(1, 3) } else { 0 };
        format!("sudo_offset v={} bps={} extra={extra}", fmt_opt(&v), fmt_opt(&bps))
    }
    fn random_start(&mut self) -> u64 {
        let now = self.now();
        let mut v = vec![now.saturating_sub(1), now, now + 1, now + self.rng.range(1, 100) * NS, now + self.rng.range(1, 20) * DAY, GENESIS - 1, GENESIS, GENESIS + 1];
        if let Some(s) = self.sut.g_start {
            v.extend([s.saturating_sub(1), s + 1, s + DAY]);
        }
        if let Some(e) = self.sh.end {
            v.extend([e.saturating_sub(1), e, e + 1]);
        }
        if let Some(tr) = self.sh.tr {
            // mint start such that the stored trading time is exactly at / one ns beyond the new bound
            let d = self.sut.g_off * NS;
            if tr >= d {
                v.extend([tr - d, (tr - d).saturating_sub(1), tr - d + 1]);
            }
        }
        *self.rng.pick(&v)
    }
    /// variants of a schema without a named op
    fn unknown_variants(root: &Value, known: &[&str]) -> Vec<String> {
        schema_variants(root).into_iter().map(|(n, _)| n).filter(|n| !known.contains(&n.as_str())).collect()
    }
    /// one message of the collection's surface (incl. `update_collection_info` with other fields populated)
    fn coll_raw(&mut self, what: &str, sender: u64, k: u64, field: &str) -> bool {
        let who = if sender == self.sut.g_creator { "creator" } else { "other" };
        let ok = self.step(format!("coll_raw what={what} sender={sender} k={k} field={field}"), format!("coll_raw:{what}:{who}:{}", if field == "-" { "plain" } else { "populated" }));
        if ok {
            self.floor("raw-coll-ok");
        }
        ok
    }
    fn minter_raw(&mut self, what: &str, sender: u64, k: u64, funds: u64, field: &str) -> bool {
        let who = if sender == self.admin() { "admin" } else { "other" };
        let ok = self.step(format!("minter_raw what={what} sender={sender} k={k} funds={funds} field={field}"), format!("minter_raw:{what}:{who}:f{}", funds.min(1)));
        if ok {
            self.floor("raw-minter-ok");
        }
        ok
    }
    fn migrations(&mut self) {
        if self.step("mig_minter from=0".into(), "mig_minter:same".into()) {
            self.floor("mig-minter-ok");
        }
        if self.step("mig_minter from=1".into(), "mig_minter:from-3.0.0".into()) {
            self.floor("mig-minter-ok");
        }
        for from in [0u64, 1, 2] {
            if self.step(format!("mig_coll from={from}"), format!("mig_coll:from{from}")) {
                self.floor("mig-coll-ok");
            }
        }
        if self.step("mig_factory v=- msg=0".into(), "mig_factory:null".into()) {
            self.floor("mig-factory-ok");
        }
    }
    /// the whole message surface found in the schemas, sent under the monitors
    fn surface(&mut self) {
        // base-minter: the whole payment is the network fee on the factory's minimum price (harness's own parameters)
        let price: u64 = if self.kind == MinterKind::Base {
            let p = self.sut.params.as_ref().unwrap();
            (p.min_mint_price.1 * p.mint_fee_bps as u128 / 10_000) as u64
        } else {
            100_000_000
        };
        let admin = self.admin();
        // ---- minter: every ExecuteMsg variant without a named op, and the sudo messages
        let mut mv = Self::unknown_variants(&self.sut.minter_root, &KNOWN_MINTER);
        // supply-destroying messages last, so that a token can be minted first
        mv.sort_by_key(|v| v.starts_with("burn") || v.starts_with("purge"));
        if !mv.is_empty() {
            self.ses.mark(format!("surface:minter:{}:{}", self.kind.name(), mv.join("+")));
        }
        // let minting begin and mint one token if the crate has a plain `mint`, so that token messages can succeed
        if let Some(s) = self.sut.g_start {
            if s > self.now() {
                self.step(format!("time t={s}"), "time:at-start".into());
            }
        }
        if mv.iter().any(|v| v == "mint") && !self.minter_raw("mint", admin, 1, price, "*") {
            self.minter_raw("mint", admin, 1, price, "-");
        }
        let defs = self.sut.minter_root["definitions"].clone();
        for v in &mv {
            let mut fields = vec![];
            if let Some((_, Some(s))) = schema_variants(&self.sut.minter_root).into_iter().find(|(n, _)| n == v) {
                optional_fields(&s, &defs, 0, &mut fields);
            }
            self.minter_raw(v, STRANGER, 1, 0, "-");
            if !self.minter_raw(v, admin, 1, 0, "-") {
                self.minter_raw(v, admin, 1, price, "-");
            }
            if !fields.is_empty() {
                self.minter_raw(v, admin, self.now() + 5, 0, "*");
            }
        }
        for (v, _) in schema_variants(&self.sut.sudo_root) {
            self.step(format!("minter_sudo what={v} k=1"), format!("minter_sudo:{v}"));
            self.step(format!("minter_sudo what={v} k=0"), format!("minter_sudo:{v}"));
        }
        let tok: u64 = self
            .sut
            .coll
            .clone()
            .and_then(|c| self.sut.w.as_ref().unwrap().query(&c, &json!({"all_tokens": {}})).ok())
            .and_then(|v| v["tokens"].as_array().and_then(|a| a.first().and_then(|t| t.as_str().and_then(|s| s.parse().ok()))))
            .unwrap_or(1);
        // ---- collection: every variant without a named op (plain + all optional fields), from the creator/token owner and a stranger
        let cv = Self::unknown_variants(&self.sut.coll_root, &KNOWN_COLL);
        self.ses.mark(format!("surface:coll:{}:{}", COLL_NAMES[self.ci as usize], cv.join("+")));
        let cdefs = self.sut.coll_root["definitions"].clone();
        let creator = self.sut.g_creator;
        for v in &cv {
            let mut fields = vec![];
            if let Some((_, Some(s))) = schema_variants(&self.sut.coll_root).into_iter().find(|(n, _)| n == v) {
                optional_fields(&s, &cdefs, 0, &mut fields);
            }
            self.coll_raw(v, STRANGER, tok, "-");
            if !fields.is_empty() {
                self.coll_raw(v, creator, tok, "*");
            }
            self.coll_raw(v, creator, tok, "-");
        }
        // ---- UpdateCollectionInfo: every optional field on its own (a new `start_trading_time`-like field would be set here), then all
        let mut fields = vec![];
        if let Some((_, Some(s))) = schema_variants(&self.sut.coll_root).into_iter().find(|(n, _)| n == "update_collection_info") {
            optional_fields(&s, &cdefs, 0, &mut fields);
        }
        let k = self.now() + 7;
        self.coll_raw("update_collection_info", creator, k, "-");
        for f in &fields {
            self.coll_raw("update_collection_info", creator, k, f);
            self.coll_raw("update_collection_info", STRANGER, k, f);
        }
        self.coll_raw("update_collection_info", creator, k, "*");
        // ---- factory: execute variants other than create_minter
        for v in Self::unknown_variants(&self.sut.factory_root, &["create_minter"]) {
            self.ses.mark(format!("surface:factory:unknown-variant:{v}"));
            for (snd, f) in [(STRANGER, "-"), (creator, "-"), (creator, "*")] {
                self.step(format!("factory_raw what={v} mode=exec sender={snd} k={k} field={f}"), format!("factory_raw:{v}"));
            }
        }
        for v in Self::unknown_variants(&self.sut.factory_sudo_root, &["update_params"]) {
            self.ses.mark(format!("surface:factory:unknown-sudo-variant:{v}"));
            for f in ["-", "*"] {
                self.step(format!("factory_raw what={v} mode=sudo k={k} field={f}"), format!("factory_raw:sudo:{v}"));
            }
        }
        self.migrations();
    }
    fn random_op(&mut self) {
        let r = self.rng.below(108);
        match r {
            0..=14 => {
                if let Some(t) = self.random_time_target() {
                    let class = format!("time:{}", if Some(t) == self.bound() { "at-bound" } else if Some(t) == self.sh.start { "at-start" } else { "other" });
                    self.step(format!("time t={t}"), class);
                }
            }
            15..=24 => {
                let v = self.random_offset();
                let class = format!("sudo_offset:{}", match v { None => "none", Some(x) if x < self.sut.g_off => "down", Some(x) if x == self.sut.g_off => "same", _ => "up" });
                let l = self.sudo_line(v);
                self.step(l, class);
            }
            25..=36 => {
                let s = if self.rng.chance(4, 5) { CREATOR } else { self.some_sender() };
                let t = self.random_start();
                let f = if self.rng.chance(1, 20) { 1 } else { 0 };
                let class = format!(
                    "upd_start:{}:f{f}:{}:{}",
                    if s == CREATOR { "admin" } else { "other" },
                    if self.sh.start.map(|x| self.now() >= x).unwrap_or(false) { "started" } else { "before" },
                    if t < self.now() { "past" } else if Some(t) < self.sh.start { "earlier" } else { "later" }
                );
                self.step(format!("upd_start sender={s} t={t} funds={f}"), class);
            }
            37..=41 => {
                let s = if self.rng.chance(4, 5) { CREATOR } else { self.some_sender() };
                let now = self.now();
                let mut v = vec![now.saturating_sub(1), now, now + self.rng.range(1, 40) * DAY];
                if let Some(st) = self.sh.start {
                    v.extend([st.saturating_sub(1), st, st + 1, st + self.rng.range(1, 40) * DAY]);
                }
                if let Some(e) = self.sh.end {
                    v.extend([e.saturating_sub(1), e + 1, e + DAY]);
                }
                let t = *self.rng.pick(&v);
                let class = format!("upd_end:{}", if Some(t) < self.sh.start { "before-start" } else { "fine" });
                self.step(format!("upd_end sender={s} t={t} funds=0"), class);
            }
            42..=71 => {
                let s = self.some_sender();
                let t = self.random_trading_request();
                let f = if self.rng.chance(1, 15) { self.rng.range(1, 3) } else { 0 };
                // same-block repeat of the identical request now and then
                let twice = self.rng.chance(1, 10);
                self.upd_trading(s, t, f);
                if twice {
                    self.upd_trading(s, t, f);
                }
            }
            72..=83 => {
                let s = self.non_minter_sender();
                let t = self.random_trading_request();
                let class = format!("coll_trading:{}", if s == self.admin() { "admin" } else { "other" });
                self.step(format!("coll_trading sender={s} t={}", fmt_opt(&t)), class);
            }
            84..=89 => {
                let s = if self.rng.chance(2, 3) { self.sut.g_creator } else { self.non_minter_sender() };
                let n = *self.rng.pick(&[CREATOR, CREATOR2, STRANGER]);
                let class = format!("coll_creator:{}", if s == self.sut.g_creator { "creator" } else { "other" });
                self.step(format!("coll_creator sender={s} new={n}"), class);
            }
            90..=92 => {
                let s = if self.rng.chance(1, 2) { self.sut.g_creator } else { self.non_minter_sender() };
                let class = format!("coll_freeze:{}", if s == self.sut.g_creator { "creator" } else { "other" });
                self.step(format!("coll_freeze sender={s}"), class);
            }
            93..=99 => {
                let s = self.non_minter_sender();
                let act = self.rng.below(3);
                let n = *self.rng.pick(&[STRANGER, CREATOR]);
                self.step(format!("coll_own sender={s} act={act} new={n}"), format!("coll_own:{act}"));
            }
            100..=102 => {
                // governance through the factory's migrate entry point
                let v = self.random_offset();
                let l = if self.rng.chance(1, 4) { "mig_factory v=- msg=0".to_string() } else { format!("mig_factory v={} msg=1 bps=- extra={}", fmt_opt(&v), self.rng.below(3)) };
                if self.step(l, format!("mig_factory:{}", if v.is_none() { "partial" } else { "explicit" })) {
                    self.floor("mig-factory-ok");
                }
            }
            103 => {
                let from = self.rng.below(2);
                self.step(format!("mig_minter from={from}"), "mig_minter:rnd".into());
            }
            104 => {
                let from = self.rng.below(3);
                self.step(format!("mig_coll from={from}"), "mig_coll:rnd".into());
            }
            105..=106 => {
                let vs = schema_variants(&self.sut.coll_root);
                if !vs.is_empty() {
                    let v = self.rng.pick(&vs).0.clone();
                    if !KNOWN_COLL.contains(&v.as_str()) || v == "update_collection_info" {
                        let s = self.non_minter_sender();
                        let f = *self.rng.pick(&["-", "*"]);
                        let k = self.rng.range(1, 3);
                        self.coll_raw(&v, s, k, f);
                    }
                }
            }
            _ => {
                let vs = Self::unknown_variants(&self.sut.minter_root, &KNOWN_MINTER);
                if !vs.is_empty() {
                    let v = self.rng.pick(&vs).clone();
                    let s = self.some_sender();
                    let f = *self.rng.pick(&[0u64, 0, 100_000_000]);
                    self.minter_raw(&v, s, 1, f, "-");
                }
            }
        }
    }
    /// valid creation arguments for the current clock
    fn valid_create_args(&mut self) -> (u64, Option<u64>) {
        let now = self.now();
        let base = now.max(GENESIS);
        let start = match self.rng.below(4) {
            0 => base + 1,
            1 => base + self.rng.range(1, 1000) * NS,
            _ => base + self.rng.range(1, 30) * DAY / 7,
        };
        let end = if self.kind.is_open_edition() {
            match self.rng.below(4) {
                0 => None,
                1 => Some(start + 1),
                _ => Some(start + self.rng.range(1, 60) * DAY),
            }
        } else {
            None
        };
        (start, end)
    }
    fn creation_phase(&mut self) {
        // up to three single-fault / boundary attempts, then a valid one (the first success ends the phase)
        for attempt in 0..4 {
            let (mut start, mut end) = self.valid_create_args();
            let now = self.now();
            let off = self.sut.g_off;
            let mut tag = "valid";
            if attempt < 3 && self.rng.chance(1, 2) {
                match self.rng.below(6) {
                    0 => {
                        start = now.saturating_sub(1);
                        tag = "start-past";
                    }
                    1 => {
                        start = now;
                        tag = "start-now";
                    }
                    2 => {
                        start = GENESIS - 1;
                        tag = "start-pre-genesis";
                    }
                    3 => {
                        start = GENESIS.max(now);
                        tag = "start-genesis-or-now";
                    }
                    4 if self.kind.is_open_edition() => {
                        end = Some(start - self.rng.below(2));
                        tag = "end-not-after-start";
                    }
                    _ => {}
                }
            }
            let b = start + off * NS;
            let choices: Vec<Option<u64>> = if attempt < 3 {
                vec![None, Some(now.saturating_sub(1)), Some(now), Some(b.saturating_sub(1)), Some(b), Some(b + 1), Some(b + 1), Some(0), Some(start), Some(now + self.rng.below(b.saturating_sub(now) + 1))]
            } else if self.kind == MinterKind::Base {
                vec![None, Some(now), Some(b + 5 * DAY)]
            } else {
                vec![None, Some(now.saturating_sub(1)), Some(b.saturating_sub(1)), Some(b)]
            };
            let tr = *self.rng.pick(&choices);
            if self.create(start, end, tr, tag) {
                return;
            }
        }
        // deterministic fallback
        let (start, end) = self.valid_create_args();
        let end = end.map(|e| e.max(start + 1));
        assert!(self.create(start, end, None, "fallback"), "valid create failed for {:?}", self.kind);
    }
}

fn new_gen<'a>(ses: &'a mut Session, sut: &'a mut S, rng: Rng, kind: MinterKind, ci: u64, now0: u64, off0: u64) -> Gen<'a> {
    let sh = Shadow { now: now0, off: off0, tr: None, start: None, end: None, creator: CREATOR };
    Gen { ses, sut, rng, kind, ci, sh }
}

fn main() {
    let mut ses = Session::new("C19");
    let mut sut = S::new();
    if ses.maybe_replay(&mut sut) {
        ses.finish(&mut sut);
    }
    let rng = ses.rng.fork();
    let reps = ses.scale(18, 300);
    let n_ops = ses.scale(28, 40);
    let offsets: [u64; 8] = [0, 1, 59, 3600, 86_400, 604_800, 31_536_000, 999_999_937];
    let mut g_rng = rng;

    for kind in ALL_MINTERS {
        let is_base = kind == MinterKind::Base;
        for ci in 0..4u64 {
            // ---------------- 1. the deterministic boundary grid of the property's quantifier
            for grid_variant in 0..ses.scale(1, 4) {
                let now0 = GENESIS + (1 + grid_variant) * 3 * DAY + 17 + g_rng.below(1000);
                let off0 = offsets[((kind.idx() as u64 + ci + grid_variant) % 6 + 1) as usize];
                let header = format!("case grid kind={} coll={ci} now={now0} offset={off0} minter={MINTER_ID}", kind.idx());
                ses.begin_case(&mut sut, &header);
                let mut g = new_gen(&mut ses, &mut sut, g_rng.fork(), kind, ci, now0, off0);
                let start = now0 + 2 * DAY;
                let end = if kind.is_open_edition() { Some(start + 30 * DAY) } else { None };
                // creation at bound+1 fails, then the grid variant picks the accepted creation value
                if !is_base {
                    g.create(start, end, Some(start + off0 * NS + 1), "grid");
                }
                let tr0 = match grid_variant % 4 {
                    0 => None,
                    1 => Some(start + off0 * NS),
                    2 => Some(now0 - 1),
                    _ => Some(start + off0 * NS - 1),
                };
                assert!(g.create(start, end, tr0, "grid"), "grid create failed {:?} {}", kind, ci);
                g.six("grid");
                // same value: a stranger is refused, the admin accepted (same block, same state); funds refused
                let t = g.now();
                let s_ok = g.upd_trading(STRANGER, Some(t), 0);
                let a_ok = g.upd_trading(g.admin(), Some(t), 0);
                if !s_ok && a_ok {
                    g.floor("upd-auth-pair");
                }
                g.upd_trading(g.admin(), Some(t), 0); // same-block repeat of an accepted update
                g.upd_trading(g.admin(), Some(t), 1);
                let d1 = g.step(format!("coll_trading sender={STRANGER} t={}", t + 5), "coll_trading:other".into());
                let d2 = g.step(format!("coll_trading sender={CREATOR} t=-"), "coll_trading:admin".into());
                if !d1 && !d2 {
                    g.floor("coll-direct-refused");
                }
                // move the mint start earlier: the bound moves with it
                if g.step(format!("upd_start sender={CREATOR} t={} funds=0", start - DAY), "upd_start:grid-earlier".into()) {
                    g.six("start-earlier");
                }
                // and later
                if g.step(format!("upd_start sender={CREATOR} t={} funds=0", start + DAY), "upd_start:grid-later".into()) {
                    g.six("start-later");
                }
                // governance lowers, then raises the offset
                g.step(format!("sudo_offset v={} bps=- extra=0", off0 / 2), "sudo_offset:down".into());
                g.six("offset-down");
                g.step(format!("sudo_offset v={} bps=- extra=0", off0 * 2 + 7), "sudo_offset:up".into());
                g.six("offset-up");
                g.step("sudo_offset v=- bps=- extra=0".into(), "sudo_offset:none".into());
                // the clock reaches the bound exactly, then passes it
                if let Some(b) = g.bound() {
                    if b > g.now() {
                        g.step(format!("time t={}", b - 1), "time:bound-1".into());
                        g.six("clock-bound-1");
                        g.step(format!("time t={b}"), "time:at-bound".into());
                        g.six("clock-at-bound");
                        g.step(format!("time t={}", b + 1), "time:bound+1".into());
                        g.six("clock-bound+1");
                    }
                } else {
                    let t = g.now() + 3 * DAY;
                    g.step(format!("time t={t}"), "time:other".into());
                    g.six("clock-later");
                }
                // base-minter's admin is the collection's current creator
                g.step(format!("coll_creator sender={CREATOR} new={CREATOR2}"), "coll_creator:creator".into());
                let t = g.now() + 1;
                g.upd_trading(CREATOR, Some(t), 0);
                g.upd_trading(CREATOR2, Some(t), 0);
                g.step(format!("coll_own sender={CREATOR2} act=0 new={CREATOR2}"), "coll_own:0".into());
                g.step(format!("coll_own sender={CREATOR2} act=1 new={CREATOR2}"), "coll_own:1".into());
                g.step(format!("coll_trading sender={CREATOR2} t={}", t + 9), "coll_trading:other".into());
                g_rng = g.rng.fork();
                ses.end_case();
            }

            // ---------------- 1b. model validation of the collection-side branches: the harness impersonates the minter
            // contract's address (impossible on chain; monitors about "the minter" are off in these cases)
            {
                let now0 = GENESIS + 9 * DAY + g_rng.below(1000);
                let off0 = offsets[g_rng.below(offsets.len() as u64) as usize];
                let header = format!("case spoof kind={} coll={ci} now={now0} offset={off0} minter={MINTER_ID}", kind.idx());
                ses.begin_case(&mut sut, &header);
                let mut g = new_gen(&mut ses, &mut sut, g_rng.fork(), kind, ci, now0, off0);
                let start = now0 + DAY;
                let end = if kind.is_open_edition() { Some(start + DAY) } else { None };
                assert!(g.create(start, end, None, "spoof"), "spoof create failed");
                let mid = MINTER_ID;
                let t = g.now() + 77;
                g.step(format!("coll_trading sender={mid} t={t}"), "spoof:coll_trading:minter".into());
                g.step(format!("coll_trading sender={mid} t=-"), "spoof:coll_trading:minter-none".into());
                g.step(format!("coll_own sender={STRANGER} act=1 new={STRANGER}"), "spoof:accept-nothing-pending".into());
                g.step(format!("coll_own sender={mid} act=0 new={STRANGER}"), "spoof:transfer".into());
                g.step(format!("coll_own sender={CREATOR} act=1 new={CREATOR}"), "spoof:accept-wrong".into());
                g.upd_trading(CREATOR, Some(t), 0); // minter still owner: fine
                if g.rng.chance(1, 2) {
                    g.step(format!("coll_own sender={STRANGER} act=1 new={STRANGER}"), "spoof:accept".into());
                    g.upd_trading(CREATOR, Some(t + 1), 0); // the minter is no longer the owner: its sub-message is refused
                    g.step(format!("coll_trading sender={mid} t={t}"), "spoof:coll_trading:ex-minter".into());
                    g.step(format!("coll_trading sender={STRANGER} t={}", t + 2), "spoof:coll_trading:new-owner".into());
                    g.step(format!("coll_own sender={STRANGER} act=2 new={STRANGER}"), "spoof:renounce".into());
                    g.step(format!("coll_trading sender={STRANGER} t={}", t + 3), "spoof:coll_trading:renounced".into());
                } else {
                    g.step(format!("coll_own sender={mid} act=2 new={mid}"), "spoof:renounce-by-minter".into());
                    g.step(format!("coll_own sender={STRANGER} act=1 new={STRANGER}"), "spoof:accept-after-renounce".into());
                    g.upd_trading(CREATOR, Some(t + 1), 0);
                }
                for _ in 0..6 {
                    g.random_op();
                }
                g_rng = g.rng.fork();
                ses.end_case();
            }

            // ---------------- 1c. governance: an explicit offset, then PARTIAL updates that omit it (sudo and migrate), then a
            // trading time one ns beyond mint start + the offset governance set — existing minter (A) and new minter (B, C)
            {
                let now0 = GENESIS + 5 * DAY + g_rng.below(1000);
                let off0 = offsets[(g_rng.below(3) + 4) as usize];
                // the explicit offsets: one below and one above the fee figures a partial update could confuse it with
                for (label, small) in [("govA", 100u64), ("govA2", 5000)] {
                    if label == "govA2" && ses.tier() == Tier::Quick && (kind.idx() as u64 + ci) % 2 == 1 {
                        continue;
                    }
                    let header = format!("case {label} kind={} coll={ci} now={now0} offset={off0} minter={MINTER_ID}", kind.idx());
                    ses.begin_case(&mut sut, &header);
                    let mut g = new_gen(&mut ses, &mut sut, g_rng.fork(), kind, ci, now0, off0);
                    let start = now0 + 2 * DAY;
                    let end = if kind.is_open_edition() { Some(start + 30 * DAY) } else { None };
                    assert!(g.create(start, end, None, "gov"), "gov create failed");
                    g.step(format!("sudo_offset v={small} bps=1000 extra=0"), "sudo_offset:gov-explicit".into());
                    g.six("gov-explicit");
                    for (i, l) in ["sudo_offset v=- bps=- extra=1", "sudo_offset v=- bps=777 extra=0", "mig_factory v=- msg=1 bps=- extra=2", "sudo_offset v=- bps=- extra=3", "mig_factory v=- msg=0"].iter().enumerate() {
                        if g.step(l.to_string(), format!("gov-partial:{i}")) && l.starts_with("mig_factory") {
                            g.floor("mig-factory-ok");
                        }
                        g.six("gov-partial");
                    }
                    g.step(format!("mig_factory v={} msg=1 bps=- extra=0", small + 1), "mig_factory:gov-explicit".into());
                    g.six("gov-migrate-explicit");
                    g_rng = g.rng.fork();
                    ses.end_case();
                }
                for (label, small, via_migrate) in [("govB", 100u64, false), ("govC", 5000, true)] {
                    let header = format!("case {label} kind={} coll={ci} now={now0} offset={off0} minter={MINTER_ID}", kind.idx());
                    ses.begin_case(&mut sut, &header);
                    let mut g = new_gen(&mut ses, &mut sut, g_rng.fork(), kind, ci, now0, off0);
                    g.step(format!("sudo_offset v={small} bps=1000 extra=0"), "sudo_offset:gov-explicit".into());
                    let partial = if via_migrate { "mig_factory v=- msg=1 bps=- extra=1" } else { "sudo_offset v=- bps=- extra=2" };
                    g.step(partial.to_string(), "gov-partial:pre-create".into());
                    let start = now0 + DAY;
                    let end = if kind.is_open_edition() { Some(start + 3 * DAY) } else { None };
                    let b = start + small * NS;
                    if label == "govB" && !is_base {
                        let e = g.create(start, end, Some(b + 1), "gov-new-minter");
                        let o = g.create(start, end, Some(b), "gov-new-minter");
                        if !e && o {
                            g.floor("create-bound-pair");
                        }
                    } else if g.create(start, end, None, "gov-new-minter") {
                        g.floor("gov-default-ok");
                    }
                    g.six("gov-new-minter");
                    g_rng = g.rng.fork();
                    ses.end_case();
                }
            }

            // ---------------- 1d. the message surface found in the schemas + migrations, then the boundary again
            {
                let now0 = GENESIS + 11 * DAY + g_rng.below(1000);
                let off0 = offsets[(g_rng.below(3) + 3) as usize];
                let header = format!("case surface kind={} coll={ci} now={now0} offset={off0} minter={MINTER_ID}", kind.idx());
                ses.begin_case(&mut sut, &header);
                let mut g = new_gen(&mut ses, &mut sut, g_rng.fork(), kind, ci, now0, off0);
                let start = now0 + DAY;
                let end = if kind.is_open_edition() { Some(start + 9 * DAY) } else { None };
                assert!(g.create(start, end, Some(start + 5), "surface"), "surface create failed");
                g.surface();
                g.six("after-surface");
                g_rng = g.rng.fork();
                ses.end_case();
            }

            // ---------------- 2. random traces: mostly valid ops, single-fault mutations, boundary instants
            for rep in 0..reps {
                let now0 = match g_rng.below(6) {
                    0 => GENESIS - 2 * DAY + g_rng.below(DAY),            // before genesis: the genesis check decides
                    1 => GENESIS - 1,
                    2 => GENESIS,
                    _ => GENESIS + g_rng.below(400) * DAY + g_rng.below(NS),
                };
                let off0 = offsets[g_rng.below(offsets.len() as u64) as usize];
                let header = format!("case rnd{rep} kind={} coll={ci} now={now0} offset={off0} minter={MINTER_ID}", kind.idx());
                ses.begin_case(&mut sut, &header);
                let mut g = new_gen(&mut ses, &mut sut, g_rng.fork(), kind, ci, now0, off0);
                // ops before any minter exists
                if g.rng.chance(1, 3) {
                    g.step(format!("upd_trading sender={CREATOR} t=- funds=0"), "upd_trading:no-minter".into());
                    let v = g.random_offset();
                    let l = g.sudo_line(v);
                    g.step(l, "sudo_offset:pre-create".into());
                }
                g.creation_phase();
                for _ in 0..n_ops {
                    g.random_op();
                }
                g_rng = g.rng.fork();
                ses.end_case();
            }
        }
    }

    // ---------------- coverage floor: without these the run would be vacuous (per minter crate, every seed)
    for kind in ALL_MINTERS {
        let n = kind.name();
        let mut need = vec!["create-ok", "create-default-ok", "upd-now-pair", "upd-none-ok", "upd-auth-pair", "coll-direct-refused", "gov-default-ok", "gov-explicit-", "gov-partial-", "gov-migrate-explicit-", "gov-new-minter-", "after-surface-", "mig-factory-ok", "mig-coll-ok", "raw-coll-ok"];
        if kind == MinterKind::Base {
            need.push("upd-far-future-ok");
        } else {
            need.extend(["upd-bound-pair", "create-bound-pair", "start-earlier-bound-pair", "start-later-bound-pair", "offset-down-bound-pair", "offset-up-bound-pair", "mig-minter-ok", "raw-minter-ok"]);
        }
        for t in need {
            ses.require(format!("floor:{n}:{t}"));
        }
    }
    ses.require("surface:coll:sg721-base:");
    ses.require("surface:coll:sg721-updatable:");
    ses.require("surface:coll:sg721-nt:");
    ses.require("surface:coll:sg721-metadata-onchain:");
    ses.note("requested trading times: none, now-1, now, bound-1, bound, bound+1 (+ random in [now,bound], far future, 0) at clock values incl. start±1ns, bound±1ns, stored value±1ns; after UpdateStartTime moves (earlier/later, onto tr-offset) and governance offset changes by sudo AND by factory migrate (down/up/omitted in a partial update that changes another field); 11 minter crates x 4 collection crates, all created through the factory; direct collection calls by admin/creator/stranger/factory/collection itself (never by the minter contract's address outside the `spoof` cases)");
    ses.note("bound used by generator and monitors = the harness's own record (requested mint start, last explicitly set offset), never a query answer; `upd_trading:none:ok` in the distribution counts accepted UpdateStartTradingTime(None) (clears the value, accepted at every clock value — see C19_none_clears)");
    ses.note("message surface enumerated at run time from the crates' JSON schemas (classes surface:*); unknown variants are sent raw under the visible/not-validated and ownership monitors; migrations of factory (null / partial / explicit params), minter and collection (same version and from rewritten cw2 versions 3.0.0 / 2.0.0)");
    std::fs::create_dir_all(&ses.args.out).ok();
    std::fs::write(ses.args.out.join("classes.txt"), ses.classes.iter().cloned().collect::<Vec<_>>().join("\n")).ok();
    ses.note("times < 2^62 ns, offsets < 10^9 s: u64 overflow of plus_seconds is outside the model");
    ses.finish(&mut sut);
}
